import json, sys, copy
from collections import deque

# abstract values
def uninit(ty):
    k=ty['k']
    if k=='record': return ('R', tuple((f['n'], uninit(f['t'])) for f in ty['fields']))
    if k=='enum': return ('EU',)
    return ('L', False)
def fullinit(ty):
    k=ty['k']
    if k=='record': return ('R', tuple((f['n'], fullinit(f['t'])) for f in ty['fields']))
    if k=='enum': return ('EI','?')
    return ('L', True)
def tydrop(ty):
    k=ty['k']
    if k=='record': return any(tydrop(f['t']) for f in ty['fields'])
    if k=='enum': return any(tydrop(t) for v in ty['variants'] for t in v['fields'])
    if k=='leaf': return ty['drop']
    return False
def variant(ty,name):
    for v in ty['variants']:
        if v['n']==name: return v
    raise KeyError(name)
def holds(a,ty):
    t=a[0]
    if t=='L': return a[1] and ty['k']=='leaf' and ty.get('drop',False)
    if t=='R': return any(holds(x,f['t']) for (n,x),f in zip(a[1],ty['fields']))
    if t=='EU': return False
    if t=='EI':
        if a[1]=='?': return tydrop(ty)
        return any(tydrop(x) for x in variant(ty,a[1])['fields'])
    if t=='EC':
        v=variant(ty,a[1]); return any(holds(x,ft) for x,ft in zip(a[2],v['fields']))
def isfull(a,ty):
    t=a[0]
    if t=='L': return a[1] or ty['k'] in ('unit','never')
    if t=='R': return all(isfull(x,f['t']) for (n,x),f in zip(a[1],ty['fields']))
    if t=='EU': return False
    if t=='EI': return True
    if t=='EC':
        v=variant(ty,a[1]); return all(isfull(x,ft) for x,ft in zip(a[2],v['fields']))
def anyinit(a):
    t=a[0]
    if t=='L': return a[1]
    if t=='R': return any(anyinit(x) for n,x in a[1])
    if t=='EU': return False
    return True
def normalize(a,ty):
    if a[0]=='EC':
        v=variant(ty,a[1])
        if all(isfull(x,ft) for x,ft in zip(a[2],v['fields'])): return ('EI',a[1])
    return a
def get(a,ty,proj):
    if not proj: return a,ty
    p=proj[0]
    if 'f' in p:
        assert a[0]=='R',(a,ty,proj)
        for (n,x),f in zip(a[1],ty['fields']):
            if n==p['f']: return get(x,f['t'],proj[1:])
        raise KeyError
    else:
        v=variant(ty,p['v']); ft=v['fields'][p['i']]
        if a[0]=='EI': return get(fullinit(ft),ft,proj[1:])   # assume guarded
        if a[0]=='EC' and a[1]==p['v']: return get(a[2][p['i']],ft,proj[1:])
        return get(uninit(ft),ft,proj[1:])
def put(a,ty,proj,new):
    if not proj: return new
    p=proj[0]
    if 'f' in p:
        return ('R', tuple((n, put(x,f['t'],proj[1:],new) if n==p['f'] else x) for (n,x),f in zip(a[1],ty['fields'])))
    else:
        v=variant(ty,p['v'])
        if a[0]=='EC' and a[1]==p['v']:
            fs=list(a[2]); fs[p['i']]=put(fs[p['i']],v['fields'][p['i']],proj[1:],new)
            return normalize(('EC',a[1],tuple(fs)),ty)
        if a[0]=='EI' and a[1] in (p['v'],'?'):
            fs=[fullinit(t) for t in v['fields']]; fs[p['i']]=put(fs[p['i']],v['fields'][p['i']],proj[1:],new)
            return normalize(('EC',p['v'],tuple(fs)),ty)
        return ('BAD',)

class Viol(Exception): pass

def analyze(item):
    vt={v['v']:v['t'] for v in item['vars']}
    blocks={b['label']:b['ins'] for b in item['blocks']}
    if len(blocks)!=len(item['blocks']): return [('dup-labels',item['name'],'','')]
    init={}
    for v,t in vt.items(): init[v]=uninit(t)
    for p in item['params']: init[p]=fullinit(vt[p])
    entry=item['blocks'][0]['label']
    viols=set()
    seen=set()
    def key(st,discr): return (tuple(sorted(st.items())), tuple(sorted(discr.items())))
    work=deque([(entry,init,{})])
    steps=0
    while work:
        lbl,st,discr=work.popleft()
        k=(lbl,key(st,discr))
        if k in seen: continue
        seen.add(k); steps+=1
        if steps>200000: viols.add(('budget',item['name'],'','')); break
        st=dict(st); discr=dict(discr)
        def need_full(v,what,ins):
            if v not in st: viols.add(('unknown-var',lbl,v,what)); return
            if not isfull(st[v],vt[v]):
                viols.add(('use-uninit:'+what,lbl,v,json.dumps(vt[v])[:60]))
        for ins in blocks[lbl]:
            k_=ins['k']
            if k_=='assign':
                val=ins['val']; vk=val['k']; to=ins['to']; tv=to['var']
                if tv not in vt and not to['proj']:
                    vt[tv]=ins['ty']; 
                if tv not in st: st[tv]=uninit(vt[tv])
                new=fullinit(ins['ty'])
                if vk=='clone':
                    pl=val['place']; sv=pl['var']
                    a,t=get(st[sv],vt[sv],pl['proj'])
                    if not isfull(a,t): viols.add(('clone-uninit',lbl,sv,json.dumps(pl['proj'])))
                    new=a if isfull(a,t) else new
                elif vk=='move':
                    need_full(val['var'],'move',ins); new=st[val['var']] if isfull(st[val['var']],vt[val['var']]) else new
                    if tydrop(vt[val['var']]): st[val['var']]=uninit(vt[val['var']])
                elif vk=='discr':
                    a=st[val['var']]
                    if a[0]=='EU': viols.add(('discr-uninit',lbl,val['var'],''))
                    if not to['proj']: discr[tv]=val['var']
                elif vk=='un': need_full(val['var'],'unop',ins)
                elif vk=='bin': need_full(val['l'],'binop',ins); need_full(val['r'],'binop',ins)
                elif vk in('call','callrt'):
                    for a in val['args']:
                        need_full(a,'arg',ins)
                        if tydrop(vt[a]): st[a]=uninit(vt[a])
                # target
                cur,ct=get(st[tv],vt[tv],to['proj'])
                if cur[0]!='BAD' and holds(cur,ct):
                    viols.add(('overwrite-live',lbl,tv+''.join('.'+str(p.get('f',p.get('i'))) for p in to['proj']),json.dumps(ct)[:50]))
                if vk!='discr' and tv in discr and not to['proj']: del discr[tv]
                # invalidate discr facts about tv
                for d in [d for d,x in discr.items() if x==tv and not (vk=='discr')]:
                    del discr[d]
                r=put(st[tv],vt[tv],to['proj'],new)
                if r[0]=='BAD': viols.add(('assign-variant-field-unconstructed',lbl,tv,''))
                else: st[tv]=r
            elif k_=='setdiscr':
                tv=ins['to']
                if holds(st[tv],vt[tv]): viols.add(('overwrite-live',lbl,tv,'setdiscr'))
                v=variant(vt[tv],ins['variant'])
                st[tv]=normalize(('EC',ins['variant'],tuple(uninit(t) for t in v['fields'])),vt[tv])
            elif k_=='drop':
                pl=ins['place']; sv=pl['var']
                a,t=get(st[sv],vt[sv],pl['proj'])
                if not isfull(a,t):
                    kind='drop-partial' if anyinit(a) else 'drop-uninit'
                    if tydrop(t): viols.add((kind,lbl,sv,json.dumps(t)[:60]))
                if not tydrop(t): pass
                elif not pl['proj']: st[sv]=uninit(vt[sv])
                else:
                    r=put(st[sv],vt[sv],pl['proj'],uninit(t))
                    if r[0]!='BAD': st[sv]=r
            elif k_=='return':
                need_full(ins['var'],'return',ins)
                if ins['var'] in st: st[ins['var']]=uninit(vt[ins['var']])
                for v,a in st.items():
                    if holds(a,vt[v]): viols.add(('leak-at-return',lbl,v,json.dumps(vt[v])[:60]))
                break
            elif k_=='jump':
                work.append((ins['to'],st,discr)); break
            elif k_=='switch':
                ex=ins['ex']
                targets=[(b['i'],b['to']) for b in ins['br']]
                if ex in discr:
                    x=discr[ex]; ty=vt[x]; names=[v['n'] for v in ty['variants']]
                    taken=set()
                    for i,to in targets:
                        s2=dict(st)
                        if s2[x][0]=='EI' and s2[x][1]=='?': s2[x]=('EI',names[i])
                        if s2[x][0]=='EI' and s2[x][1]!=names[i]: continue  # infeasible
                        taken.add(names[i]); work.append((to,s2,discr))
                    if ins['def'] is not None:
                        rest=[n for n in names if n not in taken]
                        s2=dict(st)
                        if s2[x][0]=='EI' and s2[x][1]=='?' and len(rest)==1: s2[x]=('EI',rest[0])
                        if not (s2[x][0]=='EI' and s2[x][1]!='?' and s2[x][1] not in rest): work.append((ins['def'],s2,discr))
                else:
                    for i,to in targets: work.append((to,st,discr))
                    if ins['def'] is not None: work.append((ins['def'],st,discr))
                break
    return sorted(viols)

if __name__=='__main__':
    scripts=json.load(open(sys.argv[2])) if len(sys.argv)>2 else None
    tot=0; bad=0
    for line in open(sys.argv[1]):
        r=json.loads(line)
        if 'mir' not in r: continue
        for item in r['mir']:
            tot+=1
            try: v=analyze(item)
            except Exception as e:
                import traceback; v=[('crash',repr(e),traceback.format_exc()[-300:],'')]
            if v:
                bad+=1
                print('script',r['i'],'item',item['name'])
                for x in v: print('   ',x)
    print('items',tot,'with findings',bad)
