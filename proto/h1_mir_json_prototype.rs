//! Verification hooks (prototype)
use std::fmt::Write;

use crate::{
    FileTree, RotoReport, Runtime,
    ir_printer::{IrPrinter, Printable},
    label::LabelStore,
    mir::{self, Instruction, ItemKind, Place, Projection, Ty, TyRef, Value, Var},
    runtime::{Movability, OptCtx, Rt},
    typechecker::{info::TypeInfo, types::Primitive},
};

fn esc(s: &str) -> String {
    let mut o = String::new();
    for c in s.chars() {
        match c {
            '"' => o.push_str("\\\""),
            '\\' => o.push_str("\\\\"),
            '\n' => o.push_str("\\n"),
            c if (c as u32) < 0x20 => { let _ = write!(o, "\\u{:04x}", c as u32); }
            c => o.push(c),
        }
    }
    o
}

fn ty_json(ti: &TypeInfo, rt: &Rt, ty: TyRef) -> String {
    match ti.ty_pool.get(ty).clone() {
        Ty::Unit => r#"{"k":"unit"}"#.into(),
        Ty::Never => r#"{"k":"never"}"#.into(),
        Ty::Record(fields) => {
            let fs: Vec<String> = fields
                .iter()
                .map(|(n, t)| format!(r#"{{"n":"{}","t":{}}}"#, esc(n.as_str()), ty_json(ti, rt, *t)))
                .collect();
            format!(r#"{{"k":"record","fields":[{}]}}"#, fs.join(","))
        }
        Ty::Enum(variants) => {
            let vs: Vec<String> = variants
                .iter()
                .map(|(n, ts)| {
                    let ts: Vec<String> = ts.iter().map(|t| ty_json(ti, rt, *t)).collect();
                    format!(r#"{{"n":"{}","fields":[{}]}}"#, esc(n.as_str()), ts.join(","))
                })
                .collect();
            format!(r#"{{"k":"enum","variants":[{}]}}"#, vs.join(","))
        }
        Ty::Primitive(Primitive::String) => r#"{"k":"leaf","drop":true,"n":"String"}"#.into(),
        Ty::Primitive(p) => format!(r#"{{"k":"leaf","drop":false,"n":"{}"}}"#, p),
        Ty::List(_) => r#"{"k":"leaf","drop":true,"n":"List"}"#.into(),
        Ty::Runtime(id) => {
            let t = rt.get_runtime_type(id).unwrap();
            let d = matches!(t.movability(), Movability::CloneDrop(..));
            format!(r#"{{"k":"leaf","drop":{},"n":"rt:{}"}}"#, d, esc(t.name().ident.as_str()))
        }
    }
}

fn lbl(l: &crate::label::LabelRef, p: &IrPrinter) -> String {
    format!("{}#{:?}", l.print(p), l)
}

fn var(v: &Var, p: &IrPrinter) -> String {
    format!("\"{}\"", esc(&v.print(p)))
}

fn place(pl: &Place, p: &IrPrinter) -> String {
    let proj: Vec<String> = pl
        .projection
        .iter()
        .map(|x| match x {
            Projection::Field(i) => format!(r#"{{"f":"{}"}}"#, esc(i.as_str())),
            Projection::VariantField(v, i) => format!(r#"{{"v":"{}","i":{}}}"#, esc(v.as_str()), i),
        })
        .collect();
    format!(r#"{{"var":{},"proj":[{}]}}"#, var(&pl.var, p), proj.join(","))
}

fn vars(vs: &[Var], p: &IrPrinter) -> String {
    let v: Vec<String> = vs.iter().map(|v| var(v, p)).collect();
    format!("[{}]", v.join(","))
}

fn value(v: &Value, p: &IrPrinter) -> String {
    match v {
        Value::Const(..) => r#"{"k":"const"}"#.into(),
        Value::Constant(..) => r#"{"k":"constant"}"#.into(),
        Value::Context(_) => r#"{"k":"context"}"#.into(),
        Value::Clone(pl) => format!(r#"{{"k":"clone","place":{}}}"#, place(pl, p)),
        Value::Discriminant(x) => format!(r#"{{"k":"discr","var":{}}}"#, var(x, p)),
        Value::Not(x) => format!(r#"{{"k":"un","var":{}}}"#, var(x, p)),
        Value::Negate(x, _) => format!(r#"{{"k":"un","var":{}}}"#, var(x, p)),
        Value::Move(x) => format!(r#"{{"k":"move","var":{}}}"#, var(x, p)),
        Value::BinOp { left, right, .. } => {
            format!(r#"{{"k":"bin","l":{},"r":{}}}"#, var(left, p), var(right, p))
        }
        Value::Call { args, func, .. } => {
            format!(r#"{{"k":"call","f":"{}","args":{}}}"#, esc(&func.print(p)), vars(args, p))
        }
        Value::CallRuntime { args, func_ref, .. } => {
            format!(r#"{{"k":"callrt","f":"{}","args":{}}}"#, func_ref, vars(args, p))
        }
    }
}

/// Export the MIR of a script as JSON
pub fn mir_json<C: OptCtx>(tree: FileTree, rt: &Runtime<C>) -> Result<String, RotoReport> {
    let parsed = tree.parse()?;
    let crate::module::Parsed { module_tree, file_tree, spans } = parsed;
    let (mut type_info, order) = match crate::typechecker::typecheck(&rt.rt, &module_tree) {
        Ok(x) => x,
        Err(e) => {
            return Err(RotoReport {
                files: file_tree.files,
                errors: vec![crate::RotoError::Type(e)],
                spans,
            });
        }
    };
    let mut label_store = LabelStore::default();
    let ir = mir::lower_to_mir(&module_tree, &rt.rt, &mut type_info, &mut label_store, &order);
    let mut items = Vec::new();
    for item in &ir.items {
        let p = IrPrinter { type_info: &type_info, label_store: &label_store, scope: Some(item.scope) };
        let (kind, params) = match &item.ty {
            ItemKind::Constant { .. } => ("const", Vec::new()),
            ItemKind::Function { parameters, .. } => ("fn", parameters.clone()),
        };
        let vs: Vec<String> = item
            .variables
            .iter()
            .map(|(v, t)| format!(r#"{{"v":{},"t":{}}}"#, var(v, &p), ty_json(&type_info, &rt.rt, *t)))
            .collect();
        let mut blocks = Vec::new();
        for b in &item.blocks {
            let ins: Vec<String> = b
                .instructions
                .iter()
                .map(|i| match i {
                    Instruction::Jump(l) => format!(r#"{{"k":"jump","to":"{}"}}"#, esc(&lbl(l, &p))),
                    Instruction::Switch { examinee, branches, default } => {
                        let bs: Vec<String> = branches
                            .iter()
                            .map(|(i, l)| format!(r#"{{"i":{},"to":"{}"}}"#, i, esc(&lbl(l, &p))))
                            .collect();
                        let d = match default {
                            Some(l) => format!("\"{}\"", esc(&lbl(l, &p))),
                            None => "null".into(),
                        };
                        format!(r#"{{"k":"switch","ex":{},"br":[{}],"def":{}}}"#, var(examinee, &p), bs.join(","), d)
                    }
                    Instruction::Assign { to, ty, value: v } => format!(
                        r#"{{"k":"assign","to":{},"ty":{},"val":{}}}"#,
                        place(to, &p),
                        ty_json(&type_info, &rt.rt, *ty),
                        value(v, &p)
                    ),
                    Instruction::SetDiscriminant { to, variant, .. } => {
                        format!(r#"{{"k":"setdiscr","to":{},"variant":"{}"}}"#, var(to, &p), esc(variant.as_str()))
                    }
                    Instruction::Return { var: v } => format!(r#"{{"k":"return","var":{}}}"#, var(v, &p)),
                    Instruction::Drop { val, ty } => format!(
                        r#"{{"k":"drop","place":{},"ty":{}}}"#,
                        place(val, &p),
                        ty_json(&type_info, &rt.rt, *ty)
                    ),
                })
                .collect();
            blocks.push(format!(r#"{{"label":"{}","ins":[{}]}}"#, esc(&lbl(&b.label, &p)), ins.join(",")));
        }
        items.push(format!(
            r#"{{"name":"{}","kind":"{}","params":{},"vars":[{}],"blocks":[{}]}}"#,
            esc(item.name.as_str()),
            kind,
            vars(&params, &p),
            vs.join(","),
            blocks.join(",")
        ));
    }
    Ok(format!("[{}]", items.join(",")))
}
