"""Common machinery for the roto TLA+ verification checks.

- TLC runner / output parser (states, coverage, REPLAY lines, invariant violations)
- trace validation helper (I->S)
- harness build / run helpers (worker subprocesses; crashes are data)
- evidence writer, known-findings matcher, VIOLATION reporting

Exit codes of ./check: 0 held, 1 VIOLATION (with replay file), 2 tool error.
"""
import hashlib
import json
import os
import re
import shutil
import signal
import subprocess
import sys
import time

VERIF = os.path.dirname(os.path.dirname(os.path.abspath(__file__)))
REPO = os.environ.get("VERIF_REPO", "/repo")
SPEC = os.path.join(VERIF, "spec")
# The three overrides below exist for mutation testing only (tools/mutant_run.sh): a scratch copy of
# the harness whose path dependency points at a scratch worktree of roto, with its own work/evidence
# directories, so that /repo and /verif/evidence are never touched by a mutant run.
HARNESS = os.environ.get("VERIF_HARNESS", os.path.join(VERIF, "harness"))
WORK = os.environ.get("VERIF_WORK", os.path.join(VERIF, "work"))
EVID = os.environ.get("VERIF_EVID", os.path.join(VERIF, "evidence"))
TLA_JAR = "/opt/veriftools/tla/tla2tools.jar"
TLA_CP = TLA_JAR + ":/opt/veriftools/tla/CommunityModules-deps.jar"


class ToolError(Exception):
    pass


def seed():
    try:
        return int(os.environ.get("VERIF_SEED", "20260924"))
    except ValueError:
        return 20260924


def workdir(pid, sub=None, clean=False):
    d = os.path.join(WORK, pid) if sub is None else os.path.join(WORK, pid, sub)
    if clean and os.path.isdir(d):
        shutil.rmtree(d, ignore_errors=True)
    os.makedirs(d, exist_ok=True)
    return d


# --------------------------------------------------------------------------- TLC

class TlcResult:
    def __init__(self):
        self.stdout = ""
        self.rc = None
        self.generated = 0
        self.distinct = 0
        self.diameter = 0
        self.replay = []          # parsed JSON of PrintT(<<"REPLAY", ToJson(..)>>)
        self.prints = []          # other PrintT tuples (raw text)
        self.invariant_violated = None
        self.deadlock = False
        self.error = None         # TLC error text (not invariant)
        self.coverage = {}        # action name -> (distinct, total)
        self.postcondition_failed = False
        self.wall = 0.0

    @property
    def ok(self):
        return (self.rc == 0 and self.invariant_violated is None and not self.deadlock
                and self.error is None and not self.postcondition_failed)


_REPLAY_RE = re.compile(r'^<<"([A-Z_]+)", "(.*)">>$')


def _unescape_tla(s):
    # TLC prints strings with \" \\ \n \t escapes; json.loads handles the same set
    return json.loads('"' + s + '"')


def run_tlc(module, cfg, cwd=SPEC, workers=4, env=None, simulate=None, depth=None,
            timeout=900, metadir=None, coverage=True, heap="4g", tlc_seed=None,
            extra=None, dfid=None, deque=False, tag="REPLAY", continue_=False):
    """Run TLC on `module`.tla with `cfg`. Returns TlcResult (never raises on violations)."""
    metadir = metadir or workdir("_tlc", module + "_" + os.path.basename(cfg).replace(".cfg", ""), clean=True)
    cmd = ["java", "-XX:+UseParallelGC", "-Xss1g", "-Xmx" + heap]
    if deque:
        cmd.append("-Dtlc2.tool.queue.IStateQueue=StateDeque")
    cmd += ["-cp", TLA_CP, "tlc2.TLC", "-workers", str(workers), "-metadir", metadir,
            "-cleanup", "-noGenerateSpecTE", "-config", cfg]
    if coverage:
        cmd += ["-coverage", "1"]
    if simulate is not None:
        cmd += ["-simulate", "num=%d" % simulate]
        if depth is not None:
            cmd += ["-depth", str(depth)]
    if tlc_seed is not None:
        cmd += ["-seed", str(tlc_seed)]
    if dfid is not None:
        cmd += ["-dfid", str(dfid)]
    if continue_:
        cmd += ["-continue"]
    if extra:
        cmd += list(extra)
    cmd.append(module + ".tla" if not module.endswith(".tla") else module)
    e = dict(os.environ)
    e.pop("JAVA_TOOL_OPTIONS", None)
    if env:
        e.update({k: str(v) for k, v in env.items()})
    t0 = time.time()
    try:
        p = subprocess.run(cmd, cwd=cwd, env=e, stdout=subprocess.PIPE, stderr=subprocess.STDOUT,
                           timeout=timeout, text=True, errors="replace")
    except subprocess.TimeoutExpired as ex:
        raise ToolError("TLC timeout after %ss: %s" % (timeout, " ".join(cmd))) from ex
    r = TlcResult()
    r.wall = time.time() - t0
    r.rc = p.returncode
    r.stdout = p.stdout
    r.cmd = " ".join(cmd)
    _parse_tlc(r, tag)
    shutil.rmtree(metadir, ignore_errors=True)
    return r


def _parse_tlc(r, tag="REPLAY"):
    cov_action = re.compile(r"^<(\w+) line \d+, col \d+ to line \d+, col \d+ of module (\w+)>: (\d+):(\d+)")
    for line in r.stdout.splitlines():
        m = _REPLAY_RE.match(line)
        if m:
            if m.group(1) == tag or tag is None:
                try:
                    r.replay.append(json.loads(_unescape_tla(m.group(2))))
                except Exception as ex:  # malformed => tool error later
                    r.error = "unparseable REPLAY line: %s (%s)" % (line[:200], ex)
            else:
                r.prints.append((m.group(1), m.group(2)))
            continue
        m = re.match(r"^(\d+) states generated, (\d+) distinct states found", line)
        if m:
            r.generated = int(m.group(1))
            r.distinct = int(m.group(2))
            continue
        m = re.match(r"^The depth of the complete state graph search is (\d+)", line)
        if m:
            r.diameter = int(m.group(1))
            continue
        m = re.match(r"^Error: Invariant (\w+) is violated", line)
        if m:
            r.invariant_violated = m.group(1)
            continue
        if line.startswith("Error: Deadlock reached"):
            r.deadlock = True
            continue
        if "Postcondition" in line and ("violated" in line or "false" in line.lower()):
            r.postcondition_failed = True
            continue
        m = re.match(r"^Error: (.*)", line)
        if m and r.error is None and not r.invariant_violated and not r.deadlock:
            txt = m.group(1)
            if "behavior up to this point" in txt or "The behavior up to" in txt:
                continue
            r.error = txt
            continue
        m = cov_action.match(line)
        if m:
            r.coverage[m.group(1)] = (int(m.group(3)), int(m.group(4)))
    if r.rc not in (0, None) and r.ok:
        r.error = "TLC exit code %s" % r.rc
    return r


def require_tlc_ok(r, what):
    if r.ok:
        return
    tail = "\n".join(r.stdout.splitlines()[-40:])
    raise ToolError("%s: TLC failed (rc=%s inv=%s deadlock=%s err=%s)\n%s" %
                    (what, r.rc, r.invariant_violated, r.deadlock, r.error, tail))


def require_coverage(r, actions, what):
    """Vacuity guard: each named action must have been taken at least once."""
    missing = [a for a in actions if r.coverage.get(a, (0, 0))[1] == 0]
    if missing:
        raise ToolError("%s: spec actions never taken (vacuous model run): %s" % (what, missing))


def validate_trace(module, cfg, trace_path, cwd=SPEC, env=None, timeout=600, heap="4g", extra_env=None):
    """Trace validation: module is a Trace*.tla reading IOEnv.TRACE.
    Accept iff TLC terminates ok; the spec's POSTCONDITION prints
    <<"UNMATCHED", "<json>">> for the first event it could not match."""
    e = {"TRACE": trace_path}
    if env:
        e.update(env)
    r = run_tlc(module, cfg, cwd=cwd, workers=1, env=e, timeout=timeout, heap=heap,
                deque=True, coverage=False, tag="UNMATCHED")
    return r


# ----------------------------------------------------------------------- harness

_built = set()


def build_harness(bins=None, timeout=1800):
    """cargo build (offline) of the harness against /repo's current working tree."""
    key = tuple(sorted(bins)) if bins else ("*",)
    if key in _built:
        return
    cmd = ["cargo", "build", "--offline", "--quiet"]
    for b in bins or []:
        cmd += ["--bin", b]
    e = dict(os.environ)
    e["CARGO_NET_OFFLINE"] = "true"
    p = subprocess.run(cmd, cwd=HARNESS, env=e, stdout=subprocess.PIPE, stderr=subprocess.STDOUT,
                       text=True, timeout=timeout)
    if p.returncode != 0:
        raise ToolError("harness build failed:\n" + p.stdout[-4000:])
    _built.add(key)


def harness_bin(name):
    return os.path.join(HARNESS, "target", "debug", name)


class RunResult:
    def __init__(self, rc, out, err, timed_out, wall):
        self.rc, self.out, self.err, self.timed_out, self.wall = rc, out, err, timed_out, wall

    @property
    def outcome(self):
        """returned | exit:<n> | signal:<n> | timeout"""
        if self.timed_out:
            return "timeout"
        if self.rc == 0:
            return "returned"
        if self.rc < 0:
            return "signal:%d" % (-self.rc)
        return "exit:%d" % self.rc


def run_bin(name, args, timeout=600, env=None, stdin=None, cwd=None):
    e = dict(os.environ)
    e.setdefault("RUST_BACKTRACE", "0")
    if env:
        e.update({k: str(v) for k, v in env.items()})
    t0 = time.time()
    try:
        p = subprocess.run([harness_bin(name)] + [str(a) for a in args], cwd=cwd or HARNESS, env=e,
                           input=stdin, stdout=subprocess.PIPE, stderr=subprocess.PIPE,
                           timeout=timeout, text=True, errors="replace")
        return RunResult(p.returncode, p.stdout, p.stderr, False, time.time() - t0)
    except subprocess.TimeoutExpired as ex:
        out = ex.stdout.decode(errors="replace") if isinstance(ex.stdout, bytes) else (ex.stdout or "")
        err = ex.stderr.decode(errors="replace") if isinstance(ex.stderr, bytes) else (ex.stderr or "")
        return RunResult(None, out, err, True, time.time() - t0)


def run_parallel(jobs, nproc=12):
    """jobs: list of (name, args, kwargs). Runs run_bin in a thread pool; returns results in order."""
    from concurrent.futures import ThreadPoolExecutor
    with ThreadPoolExecutor(max_workers=nproc) as ex:
        futs = [ex.submit(run_bin, n, a, **kw) for (n, a, kw) in jobs]
        return [f.result() for f in futs]


def write_ndjson(path, items):
    with open(path, "w") as f:
        for it in items:
            f.write(json.dumps(it, separators=(",", ":")))
            f.write("\n")


def read_ndjson(path):
    out = []
    with open(path) as f:
        for line in f:
            line = line.strip()
            if line:
                out.append(json.loads(line))
    return out


def chunks(xs, n):
    n = max(1, n)
    k = (len(xs) + n - 1) // n if xs else 1
    return [xs[i:i + k] for i in range(0, len(xs), k)] or [[]]


def shash(obj):
    return hashlib.sha1(json.dumps(obj, sort_keys=True, separators=(",", ":")).encode()).hexdigest()[:16]


# --------------------------------------------------------------- known findings

def load_known():
    p = os.path.join(VERIF, "known_findings.json")
    if not os.path.exists(p):
        return []
    with open(p) as f:
        return json.load(f).get("findings", [])


class Verdicts:
    """Collects violations for one property, splits known findings from new ones."""

    def __init__(self, pid):
        self.pid = pid
        self.known = [k for k in load_known() if k.get("property") == pid and k.get("status") == "known"]
        self.violations = []      # (signature, description, replay_obj)
        self.known_hits = {}      # finding id -> count
        self.replay_dir = workdir(pid, "replay")

    def report(self, signature, description, replay_obj):
        """signature: dict of string fields identifying the failure."""
        for k in self.known:
            if _sig_match(k.get("signature", {}), signature):
                self.known_hits[k["id"]] = self.known_hits.get(k["id"], 0) + 1
                return "known"
        self.violations.append((signature, description, replay_obj))
        return "violation"

    def finish(self):
        """Print KNOWN-FINDING / VIOLATION lines; returns exit code."""
        for k in self.known:
            n = self.known_hits.get(k["id"], 0)
            if n:
                print("KNOWN-FINDING: property=%s %s [%s, seen %d times in this run]" %
                      (self.pid, k["what"], k["id"], n))
        if not self.violations:
            return 0
        seen = set()
        for i, (sig, desc, rep) in enumerate(self.violations):
            key = shash(sig)
            if key in seen:
                continue
            seen.add(key)
            path = os.path.join(self.replay_dir, "violation_%s.json" % key)
            with open(path, "w") as f:
                json.dump({"property": self.pid, "signature": sig, "description": desc, "replay": rep}, f, indent=1)
            print("VIOLATION property=%s replay=%s" % (self.pid, path))
            print("  " + desc[:600])
            if len(seen) >= 20:
                break
        return 1


def _sig_match(pattern, sig):
    """Every key of the pattern must be present in sig; values: exact, or list (any of), or
    string starting with 're:' (regex search)."""
    if not pattern:
        return False
    for k, v in pattern.items():
        if k not in sig:
            return False
        s = sig[k]
        if isinstance(v, list):
            if s not in v:
                return False
        elif isinstance(v, str) and v.startswith("re:"):
            if not re.search(v[3:], str(s)):
                return False
        elif s != v:
            return False
    return True


# --------------------------------------------------------------------- evidence

class Evidence:
    def __init__(self, pid, tier, level="model_checking"):
        self.pid, self.tier, self.level = pid, tier, level
        self.t0 = time.time()
        self.states = 0
        self.transitions = 0
        self.traces = 0
        self.evaluations = 0
        self.distinct = set()
        self.samples = []
        self.rule = ""
        self.exhaustive = False
        self.checker_cmds = []
        self.assumptions = []
        self.extra = {}
        self.impl_actions = set()

    def add_tlc(self, r):
        self.states += r.distinct
        self.transitions += r.generated
        if getattr(r, "cmd", None):
            c = re.sub(r"-metadir \S+ ", "", r.cmd)
            if c not in self.checker_cmds and len(self.checker_cmds) < 6:
                self.checker_cmds.append(c)

    def case(self, obj, nontrivial=True, key=None):
        self.evaluations += 1
        if nontrivial:
            self.distinct.add(key if key is not None else shash(obj))
        if len(self.samples) < 5 and nontrivial:
            s = json.dumps(obj)
            if len(s) < 1500:
                self.samples.append(obj)

    def write(self, violations=0):
        os.makedirs(EVID, exist_ok=True)
        cov = {
            "states": self.states,
            "transitions": self.transitions,
            "traces_validated_against_impl": self.traces,
            "evaluations": self.evaluations,
            "distinct_nontrivial": len(self.distinct),
            "rule": self.rule,
            "samples": self.samples if self.samples else ["<none>"],
            "exhaustive": bool(self.exhaustive),
            "checker_cmd": " ;; ".join(self.checker_cmds),
            "spec_actions_exercised_by_impl": sorted(self.impl_actions),
        }
        cov.update(self.extra)
        ev = {
            "property_id": self.pid,
            "tier": self.tier,
            "seed": seed(),
            "level": self.level,
            "coverage": cov,
            "assumptions": self.assumptions,
            "wall_s": round(time.time() - self.t0, 2),
            "violations": violations,
        }
        with open(os.path.join(EVID, self.pid + ".json"), "w") as f:
            json.dump(ev, f, indent=1)
        return ev


def log(*a):
    print(*a, file=sys.stderr, flush=True)


# ------------------------------------------------------------------ batch runs

def _read_results(path):
    """result lines of a worker; a line that is not valid JSON (possible when the code under test corrupted
    the worker's memory) becomes a crash record for that case instead of a tool failure"""
    out = []
    with open(path, errors="replace") as f:
        for line in f:
            line = line.strip()
            if not line:
                continue
            try:
                rec = json.loads(line)
                if not isinstance(rec, dict) or "i" not in rec:
                    raise ValueError("not a result record")
            except ValueError:
                rec = {"i": len(out), "crash": "corrupted-output", "stderr": line[:200]}
            out.append(rec)
    return out


def _run_chunk(binname, chunk, inp, outp, extra, stall, timeout):
    write_ndjson(inp, chunk)
    if os.path.exists(outp):
        os.remove(outp)
    open(outp, "w").close()
    done = 0
    guard = 0
    while done < len(chunk):
        guard += 1
        if guard > len(chunk) + 5:
            raise ToolError("batch runner made no progress: %s" % binname)
        r = run_bin(binname, [inp, outp, "--start", done, "--stall", stall] + list(extra), timeout=timeout)
        lines = _read_results(outp)
        if len(lines) >= len(chunk):
            done = len(lines)
            break
        if r.outcome == "returned":
            raise ToolError("batch runner %s returned early (%d/%d): %s" % (binname, len(lines), len(chunk), r.err[-500:]))
        if r.outcome == "exit:3" and lines and lines[-1].get("hang"):
            done = len(lines)
            continue
        # crash (signal / abort / process-level timeout) while running case len(lines)
        with open(outp, "a") as f:
            f.write(json.dumps({"i": len(lines), "crash": r.outcome, "stderr": r.err[-400:]}) + "\n")
        done = len(lines) + 1
    res = _read_results(outp)
    if len(res) != len(chunk) or any(x["i"] != k for k, x in enumerate(res)):
        raise ToolError("batch runner %s: result/case mismatch" % binname)
    return res


def run_batch(binname, cases, extra=(), nproc=8, stall=20, pid="_", tag="b", timeout=3600):
    """Run harness binary `binname` over `cases` (list of JSON objects) in `nproc`
    worker processes.  Returns one result dict per case: {'r':..} | {'panic':..} |
    {'hang':True,'step':k} | {'crash':'signal:11'}.  Crashes of the code under test
    are data, never a harness failure."""
    if not cases:
        return []
    from concurrent.futures import ThreadPoolExecutor
    d = workdir(pid, "batch")
    parts = chunks(cases, nproc)
    futs = []
    with ThreadPoolExecutor(max_workers=nproc) as ex:
        for k, ch in enumerate(parts):
            inp = os.path.join(d, "%s_%d.in.ndjson" % (tag, k))
            outp = os.path.join(d, "%s_%d.out.ndjson" % (tag, k))
            futs.append(ex.submit(_run_chunk, binname, ch, inp, outp, extra, stall, timeout))
        out = []
        for f in futs:
            out.extend(f.result())
    return out


def outcome_of(res):
    if "r" in res:
        return "returned"
    if "panic" in res:
        return "panic"
    if res.get("hang"):
        return "hang"
    return "crash:" + str(res.get("crash"))
