"""C03 static part: feed the MIR exported by roto::verif::mir_json to spec/MirOwn.tla (TLC explores
every path of every function) and collect the violations it prints."""
import json
import os

import vlib


def _norm_proj(proj):
    out = []
    for p in proj:
        if "f" in p:
            out.append({"pk": "f", "f": p["f"]})
        else:
            out.append({"pk": "v", "v": p["v"], "i": p["i"] + 1})
    return out


def prep_item(item, idx):
    """complete the variable table (temporaries that only appear as assignment targets), normalise
    projections and optional fields so that TLC can read the function"""
    vt = {v["v"]: v["t"] for v in item["vars"]}
    blocks = []
    labels = [b["label"] for b in item["blocks"]]
    if len(set(labels)) != len(labels):
        raise vlib.ToolError("MIR export: duplicate block labels in %s" % item["name"])
    for b in item["blocks"]:
        ins2 = []
        for ins in b["ins"]:
            ins = json.loads(json.dumps(ins))
            k = ins["k"]
            if k == "assign":
                ins["to"]["proj"] = _norm_proj(ins["to"]["proj"])
                if ins["to"]["var"] not in vt and not ins["to"]["proj"]:
                    vt[ins["to"]["var"]] = ins["ty"]
                if ins["val"]["k"] == "clone":
                    ins["val"]["place"]["proj"] = _norm_proj(ins["val"]["place"]["proj"])
            elif k == "drop":
                ins["place"]["proj"] = _norm_proj(ins["place"]["proj"])
            elif k == "switch":
                if ins.get("def") is None:
                    ins["def"] = ""
            ins2.append(ins)
        blocks.append({"label": b["label"], "ins": ins2})
    used = set()
    for b in blocks:
        for ins in b["ins"]:
            for key in ("var",):
                if key in ins:
                    used.add(ins[key])
    for v in used:
        if v not in vt:
            raise vlib.ToolError("MIR export: variable %s of %s has no type" % (v, item["name"]))
    # temporaries that receive a discriminant (the only ones a switch can be refined by)
    dtmps = sorted({ins["to"]["var"] for b in blocks for ins in b["ins"]
                    if ins["k"] == "assign" and ins["val"]["k"] == "discr" and not ins["to"]["proj"]})
    return {"name": item["name"], "idx": idx, "kind": item["kind"], "params": item["params"], "vt": vt, "blocks": blocks,
            "dtmps": dtmps}


def check_functions(pid, items, tag, timeout=1800):
    """items: prepared functions. Returns (TlcResult, list of violation records)."""
    if not items:
        return None, []
    d = vlib.workdir(pid, "mir")
    path = os.path.join(d, "%s.mir.ndjson" % tag)
    vlib.write_ndjson(path, items)
    cfg = os.path.join(d, "MirOwn.cfg")
    with open(cfg, "w") as f:
        f.write("SPECIFICATION Spec\nCHECK_DEADLOCK FALSE\n")
    r = vlib.run_tlc("MirOwn", cfg, workers=4, env={"MIR": path}, timeout=timeout, heap="6g", coverage=False)
    vlib.require_tlc_ok(r, "MirOwn on %s" % tag)
    seen = {}
    for v in r.replay:
        for viol in v["viols"]:
            key = (v["idx"], v["block"], tuple(viol))
            seen[key] = {"fn": v["fn"], "idx": v["idx"], "block": v["block"], "kind": viol[0], "var": viol[1], "detail": viol[2]}
    return r, list(seen.values())
