"""Seeded random generator of well-typed Roto programs (ASTs of lib/rotoast.py).

It knows the typing rules needed to build programs, but nothing about what they compute:
expected results come from spec/RotoSem.tla (TLC).  Programs always terminate (loops run
a literal number of times, recursion decreases a literal counter), never divide by zero
or MIN by -1, and keep float arithmetic on the exact fragment (one operation on fresh
small dyadic leaves), so that every program has a defined meaning in RotoSem.
"""
import json

import rotoast as A


def json_dumps(x):
    return json.dumps(x)


from rotoast import INT_TYS, FLOAT_TYS, ilit, lit, var, un, binop, block, if_, let, host

STRS = ["", "a", "roto", "héllo", "東京", "x{y}z", "line\nbreak", "\U0001F600!"]
CHARS = ["a", "Z", "0", "é", "€", "\U0001F600"]
FLOATS = [(0, 0, 0), (0, 1, 0), (1, 1, 0), (0, 1, -1), (0, 3, 0), (1, 3, -1), (0, 5, 2), (0, 7, -2), (1, 1, 4), (0, 1, 1)]


def edge_ints(ty):
    lo, hi = A.ty_min(ty), A.ty_max(ty)
    xs = {0, 1, 2, 3, 7, hi, hi - 1, lo, lo + 1, hi // 2, 100 if hi >= 100 else 5}
    if lo < 0:
        xs |= {-1, -2, -7}
    return sorted(xs)


class Gen:
    def __init__(self, rng, feats=None, size=3):
        self.r = rng
        self.size = size
        self.feats = feats or {"ints", "bool", "float", "str", "char", "rec", "enum", "opt", "list", "loops", "calls", "recfn", "ret", "fstr"}
        self.nvar = 0
        self.ntag = 0
        self.types = {}          # name -> decl
        self.typelist = []
        self.fns = {}            # name -> {ps, pts, rt, b}
        self.ins = []            # input slots: type per slot
        self.scopes = []
        self.cur_rt = None
        self.in_opt_fn = False
        self.protected = set()
        self.in_for = 0
        self.force_seq = False
        self.kconsts = []

    # ------------------------------------------------------------ helpers
    def fresh(self, p="v"):
        self.nvar += 1
        return "%s%d" % (p, self.nvar)

    def tag(self):
        self.ntag += 1
        return self.ntag

    def has(self, f):
        return f in self.feats

    def push(self):
        self.scopes.append([])

    def pop(self):
        self.scopes.pop()

    def declare(self, n, ty):
        self.scopes[-1].append((n, ty))

    def vars_of(self, ty):
        return [n for (n, t) in self.all_vars() if t == ty]

    def all_vars(self):
        """the variables in scope: for every name its innermost (latest) binding; shadowed bindings are hidden"""
        seen = set()
        out = []
        for sc in reversed(self.scopes):
            for (n, t) in reversed(sc):
                if n not in seen:
                    seen.add(n)
                    out.append((n, t))
        out.reverse()
        return out

    def scalar_tys(self):
        ts = []
        if self.has("ints"):
            ts += INT_TYS
        if self.has("bool"):
            ts += ["bool"]
        if self.has("float"):
            ts += FLOAT_TYS
        if self.has("str"):
            ts += ["str"]
        if self.has("char"):
            ts += ["char"]
        return ts or ["i32"]

    def emit_ok(self, ty):
        return isinstance(ty, str) and ty in INT_TYS + FLOAT_TYS + ["bool", "char", "str"]

    # ---- named types, possibly generic: ["named", N] or ["named", N, [type arguments]]
    def subst(self, t, targs):
        if isinstance(t, list):
            if t[0] == "tv":
                return targs[t[1]]
            if t[0] in ("opt", "list"):
                return [t[0], self.subst(t[1], targs)]
            if t[0] == "named" and len(t) > 2:
                return ["named", t[1], [self.subst(x, targs) for x in t[2]]]
        return t

    def fields_of(self, ty):
        d = self.types[ty[1]]
        targs = ty[2] if len(ty) > 2 else []
        return [(f, self.subst(ft, targs)) for f, ft in d["fs"]]

    def variants_of(self, ty):
        d = self.types[ty[1]]
        targs = ty[2] if len(ty) > 2 else []
        return [(v, [self.subst(t, targs) for t in ts]) for v, ts in d["vs"]]

    def kind_of(self, ty):
        return self.types[ty[1]]["k"]

    def record_types(self):
        """record types in play: those of the variables in scope and of the functions' results / parameters"""
        out = []
        pool = [t for (_, t) in self.all_vars()] + [fn["rt"] for fn in self.fns.values()] + \
               [t for fn in self.fns.values() for t in fn["pts"]]
        for t in pool:
            if isinstance(t, list) and t[0] == "named" and self.kind_of(t) == "record" and t not in out:
                out.append(t)
        return out

    def named_instance(self, name, depth):
        d = self.types[name]
        if not d.get("ps"):
            return ["named", name]
        return ["named", name, [self.random_ty(max(depth - 1, 0), ("scalar", "named0")) for _ in d["ps"]]]

    def is_plain(self, ty):
        """values comparable with == by structure: no floats, lists, tracked values inside"""
        if isinstance(ty, str):
            return ty in INT_TYS + ["bool", "char", "str", "unit", "Tr"]
        if ty[0] == "opt":
            return self.is_plain(ty[1])
        if ty[0] == "list":
            return False
        if self.kind_of(ty) == "record":
            return all(self.is_plain(t) for _, t in self.fields_of(ty))
        return all(self.is_plain(t) for _, ts in self.variants_of(ty) for t in ts)

    def temp_bool(self, d):
        """a bool expression whose evaluation creates (and must release) temporaries that own something"""
        r = self.r
        forms = []
        if self.has("tr"):
            forms += ["treq"]
        if self.has("str"):
            forms += ["streq"]
        if self.has("list"):
            forms += ["lit_empty", "lit_contains"]
        if not forms:
            return self.expr("bool", max(d - 1, 1))
        f = r.choice(forms)
        if f == "treq":
            return binop(r.choice(["eq", "ne"]), "plain", self.expr("Tr", 0), self.expr("Tr", 0))
        if f == "streq":
            return binop(r.choice(["eq", "ne"]), "str", binop("add", "str", self.expr("str", 0), self.expr("str", 0)),
                         self.expr("str", 0))
        et = r.choice([t for t in self.scalar_tys() if t not in FLOAT_TYS] + (["Tr"] if self.has("tr") else []) or ["i32"])
        lst = {"k": "list", "es": [self.expr(et, 0) for _ in range(r.randint(1, 2))]}
        if f == "lit_empty":
            return {"k": "lcall", "m": "is_empty", "r": lst, "args": []}
        return {"k": "lcall", "m": "contains", "r": lst, "args": [self.expr(et, 0, True)]}

    def eq_spec_ty(self, ty):
        if isinstance(ty, str) and ty in INT_TYS + FLOAT_TYS + ["str", "char"]:
            return ty
        if isinstance(ty, list) and ty[0] == "list":
            return "list" if self.is_plain(ty[1]) else None
        return "plain" if self.is_plain(ty) else None

    def random_ty(self, depth=1, allow=("scalar", "named", "opt", "list")):
        choices = ["scalar"] * 5
        if depth > 0:
            if self.typelist and "named" in allow:
                choices += ["named"] * 2
            elif "named0" in allow and any(not self.types[n].get("ps") for n in self.typelist):
                choices += ["named0"]
            if self.has("opt") and "opt" in allow:
                choices += ["opt"]
            if self.has("list") and "list" in allow:
                choices += ["list"]
        if self.has("tr"):
            choices += ["tr"] * 3
        c = self.r.choice(choices)
        if c == "tr":
            return "Tr"
        if c == "scalar":
            return self.r.choice(self.scalar_tys())
        if c == "named":
            return self.named_instance(self.r.choice(self.typelist), depth)
        if c == "named0":
            return ["named", self.r.choice([n for n in self.typelist if not self.types[n].get("ps")])]
        if c == "opt":
            return ["opt", self.random_ty(depth - 1, ("scalar", "named"))]
        return ["list", self.r.choice([t for t in self.scalar_tys() if t not in FLOAT_TYS] + (["Tr", "Tr"] if self.has("tr") else []) or ["i32"])]

    # ------------------------------------------------------------ type declarations
    def gen_types(self, n):
        for i in range(n):
            name = "T%d" % i
            # some declarations are generic: type parameters A, B stand in field / payload positions
            ps = []
            if self.has("generic") and self.r.random() < 0.5:
                ps = ["A", "B"][:self.r.randint(1, 2)]
            def fty(allow):
                if ps and self.r.random() < 0.5:
                    tv = ["tv", self.r.randrange(len(ps))]
                    return ["opt", tv] if self.r.random() < 0.2 else tv
                return self.random_ty(1, allow)
            if self.has("enum") and self.r.random() < 0.45:
                nv = self.r.choice([1, 2, 3, 3, 4, 5])
                vs = []
                for j in range(nv):
                    ts = [fty(("scalar", "named")) for _ in range(self.r.choice([0, 1, 1, 2, 3, 4]))]
                    vs.append(["V%d_%d" % (i, j), ts])
                self.types[name] = {"k": "enum", "n": name, "ps": ps, "vs": vs}
            elif self.has("rec"):
                nf = self.r.randint(1, 4)
                fs = [["f%d" % j, fty(("scalar", "named", "opt", "list"))] for j in range(nf)]
                self.types[name] = {"k": "record", "n": name, "ps": ps, "fs": fs}
            else:
                continue
            # every type parameter must be used (an unused parameter cannot be inferred from a literal)
            used = json_dumps(self.types[name])
            for k, _ in enumerate(ps):
                if '["tv", %d]' % k not in used:
                    if self.types[name]["k"] == "record":
                        self.types[name]["fs"].append(["g%d" % k, ["tv", k]])
                    else:
                        self.types[name]["vs"].append(["W%d_%d" % (i, k), [["tv", k]]])
            self.typelist.append(name)

    # ------------------------------------------------------------ leaves
    def literal(self, ty, ctx_fixed=False):
        r = self.r
        if ty in INT_TYS:
            # integer literals are parsed as i64: u64 literals above i64::MAX are rejected by the parser
            hi = min(A.ty_max(ty), (1 << 63) - 1)
            n = r.choice([0, 1, 2, 3, 5, 7, 10, 100 if hi >= 100 else 9, hi, hi - 1, hi // 2, r.randint(0, min(hi, 1 << 20))])
            e = ilit(ty, n)
            # an unsuffixed literal takes its type from a context that fixes it (i32 by default)
            if ctx_fixed and r.random() < 0.5:
                e["sfx"] = False
            return e
        if ty in FLOAT_TYS:
            s, m, ex = r.choice(FLOATS)
            e = lit(ty, A.fin(0, m, ex))           # literals are non-negative; sign comes from neg
            if ctx_fixed and r.random() < 0.5 and ty == "f64":
                e["sfx"] = False
            return e if not s else un("neg", ty, e)
        if ty == "bool":
            return lit("bool", r.random() < 0.5)
        if ty == "char":
            return lit("char", ord(r.choice(CHARS)))
        if ty == "str":
            return lit("str", A.str_val(r.choice(STRS)))
        if ty == "unit":
            return lit("unit", "unit")
        raise ValueError(ty)

    def const_expr(self, ty, d, avail):
        """a pure initialiser for a script constant: literals, operators, if with a constant condition, other
        constants (avail: the ones it may use - chosen so that the reference graph has no cycle)"""
        r = self.r
        ks = [c["n"] for c in avail if c["ty"] == ty]
        if ks and r.random() < 0.35:
            return {"k": "kconst", "n": r.choice(ks), "ty": ty}
        if d <= 0:
            return self.literal(ty)
        if ty in INT_TYS:
            op = r.choice(["add", "sub", "mul", "div", "rem"])
            rhs = ilit(ty, r.choice([1, 2, 3, 5, 7])) if op in ("div", "rem") else self.const_expr(ty, d - 1, avail)
            return binop(op, ty, self.const_expr(ty, d - 1, avail), rhs)
        if ty == "bool":
            f = r.choice(["cmp", "logic", "not"])
            if f == "cmp":
                t = r.choice([x for x in self.scalar_tys() if x in INT_TYS] or ["i32"])
                return binop(r.choice(["eq", "ne", "lt", "le", "gt", "ge"]), t, self.const_expr(t, d - 1, avail), self.const_expr(t, d - 1, avail))
            if f == "logic":
                return binop(r.choice(["and", "or"]), "bool", self.const_expr("bool", d - 1, avail), self.const_expr("bool", d - 1, avail))
            return un("not", "bool", self.const_expr("bool", d - 1, avail))
        if ty == "str":
            if r.random() < 0.5:
                return binop("add", "str", self.const_expr("str", d - 1, avail), self.const_expr("str", d - 1, avail))
            return if_(self.const_expr("bool", d - 1, avail), block([], self.const_expr("str", d - 1, avail)),
                       block([], self.const_expr("str", d - 1, avail)))
        return self.literal(ty)

    def gen_kconsts(self):
        r = self.r
        tys = [t for t in self.scalar_tys() if t not in FLOAT_TYS and t != "char"] or ["i32"]
        n = r.randint(1, 4)
        cs = []
        for i in range(n):
            ty = r.choice(tys)
            # constant i may use the constants generated before it; the declaration order in the source is shuffled,
            # so uses before the declaration and across the functions occur
            cs.append({"n": "K%d" % i, "ty": ty, "e": self.const_expr(ty, r.randint(0, 2), cs), "late": r.random() < 0.4})
        r.shuffle(cs)
        self.kconsts = cs

    def input(self, ty):
        k = len(self.ins)
        self.ins.append(ty)
        return host("in", ty, k, [])

    def leaf(self, ty, ctx_fixed=False):
        r = self.r
        if isinstance(ty, str) and ty not in ("unit", "Tr"):
            if self.has("gconst") and r.random() < 0.15:
                ps = [p for p, (t, _) in A.GCONSTS.items() if t == ty]
                if ps:
                    return {"k": "gconst", "p": r.choice(ps), "ty": ty}
            if self.kconsts and r.random() < 0.15:
                ks = [c["n"] for c in self.kconsts if c["ty"] == ty]
                if ks:
                    return {"k": "kconst", "n": r.choice(ks), "ty": ty}
            vs = self.vars_of(ty)
            c = r.random()
            if vs and c < 0.45:
                return var(r.choice(vs))
            if c < 0.7:
                return self.input(ty)
            return self.literal(ty, ctx_fixed)
        vs = self.vars_of(ty)
        if vs and r.random() < 0.5:
            return var(r.choice(vs))
        return self.construct(ty, 0)

    def tick_(self):
        """a statement that is only there to be seen in the host-call log; the LIR evaluator cannot call host
        functions that return nothing, so the evaluator-friendly families log through emit_bool instead"""
        if self.has("evalsafe"):
            return host("emit", "bool", self.tag(), [lit("bool", self.r.random() < 0.5)])
        return host("tick", "unit", self.tag(), [])

    def construct(self, ty, d):
        r = self.r
        if ty == "unit":
            return lit("unit", "unit")
        if ty == "Tr":
            return host("mk", "Tr", self.tag(), [])
        if ty[0] == "opt":
            if self.has("hostopt") and isinstance(ty[1], str) and ty[1] in INT_TYS + FLOAT_TYS + ["bool", "char", "str"] \
                    and r.random() < 0.35:
                # the Option is built by a registered host function and crosses the boundary as a return value
                return host("optif", ty[1], self.tag(), [self.expr("bool", d - 1), self.expr(ty[1], d - 1)])
            if r.random() < 0.3:
                return {"k": "ctor", "en": "Option", "v": "None", "args": []}
            return {"k": "ctor", "en": "Option" if r.random() < 0.5 else "", "v": "Some", "args": [self.expr(ty[1], d - 1)]}
        if ty[0] == "list":
            n = r.randint(0, 3)
            if n == 0:
                # an empty literal needs a context that fixes the element type
                return {"k": "list", "es": [self.expr(ty[1], d - 1)]}
            return {"k": "list", "es": self.seq_exprs([ty[1]] * n, d - 1, False)}
        if self.kind_of(ty) == "record":
            order = list(self.fields_of(ty))
            # a literal may list the fields in any order; they are evaluated in the order written
            if r.random() < 0.5:
                r.shuffle(order)
            fes = self.seq_exprs([ft for _, ft in order], d - 1)
            fs = [[f, e] for (f, _), e in zip(order, fes)]
            return {"k": "rec", "name": ty[1] if r.random() < 0.7 and not self.types[ty[1]].get("anon") else "", "fs": fs}
        v, ts = r.choice(self.variants_of(ty))
        return {"k": "ctor", "en": ty[1], "v": v, "args": self.seq_exprs(ts, d - 1)}

    # ------------------------------------------------------------ expressions
    def maybe_emit(self, ty, e, p=0.3):
        if self.emit_ok(ty) and self.r.random() < p:
            return host("emit", ty, self.tag(), [e])
        return e

    def expr(self, ty, d, ctx_fixed=False):
        return self.maybe_emit(ty, self.expr0(ty, d, ctx_fixed))

    def safe_divisor(self, ty):
        r = self.r
        if r.random() < 0.5:
            return ilit(ty, r.choice([1, 2, 3, 5, 7, 10]))
        # a run-time divisor that is never 0 (nor -1): pick d, replace forbidden values by 3
        n = self.fresh("d")
        # expressed inline: if x == 0 || x == -1 { 3 } else { x } with x bound by a block
        x = self.leaf(ty)
        conds = binop("eq", ty, var(n), ilit(ty, 0))
        if ty in A.SIGNED:
            conds = binop("or", "bool", conds, binop("eq", ty, var(n), un("neg", ty, ilit(ty, 1))))
        return block([let(n, ty, x)], if_(conds, block([], ilit(ty, 3)), block([], var(n))))

    def expr0(self, ty, d, ctx_fixed=False):
        r = self.r
        if d <= 0:
            return self.leaf(ty, ctx_fixed)
        forms = ["leaf"]
        if isinstance(ty, str):
            if ty in INT_TYS:
                forms += ["arith"] * 4 + ["if", "block", "match", "field", "call", "lget"]
                if ty in A.SIGNED:
                    forms += ["neg"]
                if ty == "u64" and self.has("list"):
                    forms += ["llen"]
            elif ty in FLOAT_TYS:
                forms += ["farith"] * 2 + ["if", "field", "call"]
            elif ty == "bool":
                forms += ["cmp"] * 4 + ["logic"] * 3 + ["not", "if", "call", "eqc"]
                if self.has("list"):
                    forms += ["lcontains", "lempty"]
            elif ty == "str":
                forms += ["concat", "if", "call", "field"] + (["fstr", "tostr"] if self.has("fstr") else [])
            elif ty == "char":
                forms += ["if", "field"]
        else:
            forms += ["construct"] * 3 + ["if", "call", "block"]
        if self.has("hmeth") and isinstance(ty, str) and self.emit_ok(ty):
            forms += ["sel"] * 2
        f = r.choice(forms)
        if f == "leaf":
            return self.leaf(ty, ctx_fixed)
        if f == "sel":
            # a registered method: recv.selm(tag, y) returns recv. The receiver is evaluated first, also when it is a
            # plain variable that the argument then assigns to.
            vs = [n for n in self.vars_of(ty)]
            if vs and r.random() < 0.7:
                n = r.choice(vs)
                recv = var(n)
                y = self.expr(ty, d - 1, True) if ty not in FLOAT_TYS else self.fexpr(ty)
                if n not in self.protected and r.random() < 0.5:
                    y = block([{"k": "set", "p": [n], "e": self.other_value(n, ty, d)}], y)
            else:
                # the receiver fixes no type for a literal: literals carry their suffix there
                recv = self.expr(ty, d - 1, False) if ty not in FLOAT_TYS else self.fexpr(ty)
                y = self.expr(ty, d - 1, True) if ty not in FLOAT_TYS else self.fexpr(ty)
            return host("sel", ty, self.tag(), [recv, y])
        if f == "arith":
            op = r.choice(["add", "sub", "mul", "add", "sub", "mul", "div", "rem"])
            if op in ("div", "rem"):
                return binop(op, ty, self.expr(ty, d - 1), self.safe_divisor(ty))
            return binop(op, ty, self.expr(ty, d - 1), self.expr(ty, d - 1))
        if f == "neg":
            return un("neg", ty, self.expr(ty, d - 1))
        if f == "farith":
            op = r.choice(["add", "sub", "mul"])
            return binop(op, ty, self.fleaf(ty), self.fleaf(ty))
        if f == "cmp":
            t = r.choice([x for x in self.scalar_tys() if x in INT_TYS + FLOAT_TYS + ["char"]] or ["i32"])
            # chars only support == and != (ordering is defined on numbers only)
            op = r.choice(["eq", "ne"] if t == "char" else ["eq", "ne", "lt", "le", "gt", "ge"])
            if t in FLOAT_TYS:
                return binop(op, t, self.fexpr(t), self.fexpr(t))
            return binop(op, t, self.expr(t, d - 1), self.expr(t, d - 1))
        if f == "eqc":
            cands = [t for (_, t) in self.all_vars() if self.eq_spec_ty(t) in ("plain", "list", "str")]
            if not cands:
                return self.leaf(ty)
            t = r.choice(cands)
            return binop(r.choice(["eq", "ne"]), self.eq_spec_ty(t), self.expr(t, d - 1), self.expr(t, d - 1))
        if f == "logic":
            return binop(r.choice(["and", "or"]), "bool", self.expr("bool", d - 1), self.expr("bool", d - 1))
        if f == "not":
            return un("not", "bool", self.expr("bool", d - 1))
        if f == "concat":
            return binop("add", "str", self.expr("str", d - 1), self.expr("str", d - 1))
        if f == "fstr":
            ps = []
            for _ in range(r.randint(1, 3)):
                if r.random() < 0.5:
                    ps.append({"k": "s", "v": [ord(c) for c in r.choice(STRS)]})
                else:
                    t = r.choice([x for x in self.scalar_tys() if x in INT_TYS + ["bool", "str", "char"]] or ["i32"])
                    if self.has("tr") and r.random() < 0.3:
                        t = "Tr"       # converted by the host's to_string: a host call between the parts
                    ps.append({"k": "e", "ty": t, "e": self.expr(t, d - 1)})
            return {"k": "fstr", "ps": ps}
        if f == "tostr":
            t = r.choice([x for x in self.scalar_tys() if x in INT_TYS + ["bool"]] or ["i32"])
            vs = self.vars_of(t)
            if not vs:
                return self.leaf(ty, ctx_fixed)
            return {"k": "tostr", "ty": t, "e": var(r.choice(vs))}
        if f == "if":
            # at most one of the branches may leave the function early; the other one gives the `if` its type
            first = self.r.random() < 0.5
            return if_(self.expr("bool", d - 1), self.vblock(ty, d - 1, exit_ok=first), self.vblock(ty, d - 1, exit_ok=not first))
        if f == "block":
            return self.vblock(ty, d - 1)
        if f == "construct":
            return self.construct(ty, d)
        if f == "call":
            cands = [n for n, fn in self.fns.items() if fn["rt"] == ty and not fn.get("special")]
            if not cands or not self.has("calls") or self.in_for > 0:
                return self.leaf(ty, ctx_fixed)
            n = r.choice(cands)
            return {"k": "call", "f": n, "args": self.seq_exprs(self.fns[n]["pts"], d - 1)}
        if f == "field":
            # a record variable with a field of this type
            cands = []
            for (n, t) in self.all_vars():
                if isinstance(t, list) and t[0] == "named" and self.kind_of(t) == "record":
                    for fn_, ft in self.fields_of(t):
                        if ft == ty:
                            cands.append((n, fn_))
            if self.has("exprstmt") and r.random() < 0.4:
                # the base is not a path but a computed record: the result of a call, a block, or a literal
                bases = []
                for rt_ in self.record_types():
                    for fn_, ft in self.fields_of(rt_):
                        if ft == ty:
                            bases.append((rt_, fn_))
                if bases:
                    rt_, fn_ = r.choice(bases)
                    fcs = [n for n, fn in self.fns.items() if fn["rt"] == rt_ and not fn.get("special")]
                    if fcs and self.has("calls") and self.in_for == 0 and r.random() < 0.6:
                        n = r.choice(fcs)
                        base = {"k": "call", "f": n, "args": [self.expr(t, d - 1, True) for t in self.fns[n]["pts"]]}
                    else:
                        base = block([], self.construct(rt_, d))
                    return {"k": "field", "e": base, "f": fn_}
            if not cands:
                return self.leaf(ty, ctx_fixed)
            n, fn_ = r.choice(cands)
            return {"k": "field", "e": var(n), "f": fn_}
        if f == "match":
            return self.match_expr(ty, d)
        if f == "lget":
            cands = [n for (n, t) in self.all_vars() if t == ["list", ty]]
            if not cands:
                return self.leaf(ty, ctx_fixed)
            n = r.choice(cands)
            x = self.fresh("g")
            idx = ilit("u64", r.choice([0, 0, 1, 2, 5]))
            return {"k": "match", "e": {"k": "lcall", "m": "get", "r": var(n), "args": [idx]},
                    "arms": [{"v": "Some", "bs": [x], "g": [], "b": var(x)},
                             {"v": "None", "bs": [], "g": [], "b": self.leaf(ty)}]}
        if f in ("lcontains", "lempty"):
            cands = [(n, t) for (n, t) in self.all_vars() if isinstance(t, list) and t[0] == "list"
                     and (f == "lempty" or self.is_plain(t[1]))]
            if not cands:
                # a fresh (possibly empty) list: contains on an empty list still consumes its argument
                et = r.choice([t for t in self.scalar_tys() if t not in FLOAT_TYS] + (["Tr"] if self.has("tr") else []) or ["i32"])
                n = self.fresh("l")
                lst = {"k": "lcall", "m": "concat", "r": {"k": "list", "es": [self.expr(et, 0)]}, "args": [{"k": "list", "es": [self.expr(et, 0)]}]}
                if f == "lempty":
                    return block([let(n, ["list", et], lst)], {"k": "lcall", "m": "is_empty", "r": var(n), "args": []})
                return block([let(n, ["list", et], lst)], {"k": "lcall", "m": "contains", "r": var(n), "args": [self.expr(et, d - 1, True)]})
            n, t = r.choice(cands)
            if f == "lempty":
                return {"k": "lcall", "m": "is_empty", "r": var(n), "args": []}
            return {"k": "lcall", "m": "contains", "r": var(n), "args": [self.recv_reassigning_arg(n, t, d)]}
        if f == "llen":
            cands = [n for (n, t) in self.all_vars() if isinstance(t, list) and t[0] == "list"]
            if not cands:
                return self.leaf(ty, ctx_fixed)
            return {"k": "lcall", "m": "len", "r": var(r.choice(cands)), "args": []}
        return self.leaf(ty, ctx_fixed)

    def seq_exprs(self, tys, d, ctx_fixed=True):
        """operands of a construct that evaluates them left to right (call arguments, constructor arguments, record
        fields in the order written, list elements).  Sometimes an earlier operand is a plain read of a variable and a
        later operand is a block that first assigns to that variable: the earlier operand keeps the value read then."""
        r = self.r
        es = [self.expr(t, d, ctx_fixed) for t in tys]
        if self.has("exprstmt") and len(tys) >= 2 and (r.random() < 0.3 or self.force_seq):
            self.force_seq = False
            i = r.randrange(len(tys) - 1)
            j = r.randrange(i + 1, len(tys))
            vs = [n for n in self.vars_of(tys[i]) if n not in self.protected]
            if vs and tys[i] != "Tr":
                n = r.choice(vs)
                es[i] = var(n) if r.random() < 0.7 or not self.emit_ok(tys[i]) else host("emit", tys[i], self.tag(), [var(n)])
                es[j] = block([{"k": "set", "p": [n], "e": self.other_value(n, tys[i], d)}], es[j])
        return es

    def other_value(self, n, ty, d):
        """an expression of type ty that (nearly always) differs from the current value of variable n"""
        r = self.r
        if ty in INT_TYS:
            return binop("add", ty, var(n), ilit(ty, r.choice([1, 1, 2, 3])))       # wraps: always another value
        if ty == "bool":
            return un("not", "bool", var(n))
        if ty == "str":
            return binop("add", "str", var(n), lit("str", A.str_val("+")))
        if isinstance(ty, str) and self.emit_ok(ty):
            return self.input(ty)
        if isinstance(ty, list) and ty[0] == "named":
            return self.construct(ty, 1)
        return self.expr(ty, max(d - 1, 0), True)

    def recv_reassigning_arg(self, n, t, d):
        """argument of a method call on the list variable n; sometimes a block that first assigns another list to n:
        the receiver is evaluated before the arguments, so the call still goes to the list n held before"""
        r = self.r
        arg = self.expr(t[1], d - 1, True)
        if self.has("exprstmt") and n not in self.protected and self.in_for == 0 and r.random() < 0.3:
            others = [m for (m, u) in self.all_vars() if u == t and m != n]
            if others and r.random() < 0.6:
                new = var(r.choice(others))
            else:
                new = {"k": "list", "es": [self.expr(t[1], 0, True) for _ in range(r.randint(1, 2))]}
            return block([{"k": "set", "p": [n], "e": new}], arg)
        return arg

    def expr0_field(self, ty, d):
        """a field read of type ty (None if no record in play has such a field)"""
        r = self.r
        bases = [(rt_, fn_) for rt_ in self.record_types() for fn_, ft in self.fields_of(rt_) if ft == ty]
        if not bases:
            return None
        rt_, fn_ = r.choice(bases)
        vs = [n for (n, t) in self.all_vars() if t == rt_]
        fcs = [n for n, fn in self.fns.items() if fn["rt"] == rt_ and not fn.get("special")]
        x = r.random()
        if fcs and self.has("calls") and self.in_for == 0 and x < 0.5:
            n = r.choice(fcs)
            base = {"k": "call", "f": n, "args": [self.expr(t, d - 1, True) for t in self.fns[n]["pts"]]}
        elif vs and x < 0.75:
            base = var(r.choice(vs))
        else:
            base = block([], self.construct(rt_, d))
        return {"k": "field", "e": base, "f": fn_}

    def atom(self, ty, d):
        """an expression that can be a method receiver without parentheses trouble"""
        vs = self.vars_of(ty)
        if vs:
            return var(self.r.choice(vs))
        n = self.fresh("a")
        return block([let(n, ty, self.expr(ty, d))], var(n))

    def fleaf(self, ty):
        # fresh small dyadic values only: keeps float arithmetic exact
        if self.r.random() < 0.5:
            return self.input(ty)
        return self.literal(ty)

    def fexpr(self, ty):
        r = self.r
        vs = self.vars_of(ty)
        c = r.random()
        if vs and c < 0.4:
            return var(r.choice(vs))
        if c < 0.7:
            return binop(r.choice(["add", "sub", "mul"]), ty, self.fleaf(ty), self.fleaf(ty))
        return self.fleaf(ty)

    def arm_body(self, ty, d):
        """the body of a match arm / if branch in value position: a value, or (sometimes) an early exit - the other
        arms then still produce the value, and everything the enclosing scopes own is released on both paths"""
        r = self.r
        if self.has("ret") and self.cur_rt is not None and self.in_for == 0 and r.random() < 0.15:
            e = self.expr(self.cur_rt, max(d - 1, 0), True) if self.cur_rt != "unit" else None
            return {"k": "ret", "e": [e] if e is not None else []}
        return self.expr(ty, d)

    def match_expr(self, ty, d):
        r = self.r
        cands = [(n, t) for (n, t) in self.all_vars()
                 if isinstance(t, list) and (t[0] == "opt" or (t[0] == "named" and self.kind_of(t) == "enum"))]
        if not cands:
            return self.leaf(ty)
        n, t = r.choice(cands)
        if t[0] == "opt":
            variants = [["Some", [t[1]]], ["None", []]]
        else:
            variants = self.variants_of(t)
        arms = []
        order = list(variants)
        r.shuffle(order)
        use_wild = len(order) > 1 and r.random() < 0.35
        cut = r.randint(1, len(order) - 1) if use_wild else len(order)
        for i, (v, ts) in enumerate(order):
            if use_wild and i > 0 and r.random() < 0.25:
                # a guarded `_` arm in front of the remaining arms (an unguarded `_` arm ends the match)
                g = self.temp_bool(d) if r.random() < 0.5 else self.expr("bool", d - 1)
                arms.append({"v": "_", "bs": [], "g": [g], "b": self.expr(ty, d - 1)})
            if use_wild and i == cut:
                arms.append({"v": "_", "bs": [], "g": [], "b": self.arm_body(ty, d - 1)})
                break
            bs = [self.fresh("m") for _ in ts]
            self.push()
            for b, bt in zip(bs, ts):
                self.declare(b, bt)
            # optionally a guarded arm first, then the unguarded one for the same variant
            if r.random() < 0.3:
                # the guard may create temporaries that own something (released whether or not the guard holds,
                # and not at all on the paths that never reach this arm)
                g = self.temp_bool(d) if r.random() < 0.4 else self.expr("bool", d - 1)
                arms.append({"v": v, "bs": bs, "g": [g], "b": self.expr(ty, d - 1)})
                self.pop()
                bs2 = [self.fresh("m") for _ in ts]
                self.push()
                for b, bt in zip(bs2, ts):
                    self.declare(b, bt)
                arms.append({"v": v, "bs": bs2, "g": [], "b": self.arm_body(ty, d - 1)})
            else:
                arms.append({"v": v, "bs": bs, "g": [], "b": self.arm_body(ty, d - 1)})
            self.pop()
        if all(a["b"]["k"] == "ret" for a in arms if not a["g"]):
            # some arm has to give the match its type
            last = [a for a in arms if not a["g"]][-1]
            self.push()
            for b, bt in zip(last["bs"], dict(variants).get(last["v"], [])):
                self.declare(b, bt)
            last["b"] = self.expr(ty, d - 1)
            self.pop()
        return {"k": "match", "e": var(n), "arms": arms}

    # ------------------------------------------------------------ statements / blocks
    def vblock(self, ty, d, exit_ok=False):
        self.push()
        ss = self.stmts(self.r.randint(0, 2), d)
        e = self.arm_body(ty, d) if exit_ok else self.expr(ty, d)
        self.pop()
        return block(ss, e)

    def ublock(self, d, n=None):
        self.push()
        ss = self.stmts(self.r.randint(1, 3) if n is None else n, d)
        self.pop()
        return block(ss)

    def stmts(self, n, d):
        return [self.stmt(d) for _ in range(n)]

    def assignable(self):
        return [(n, t) for (n, t) in self.all_vars() if n not in self.protected]

    def stmt(self, d):
        r = self.r
        forms = ["let"] * 4 + ["set"] * 2 + ["emit"] * 2 + ["tick"]
        if self.has("tr"):
            forms += ["usetr"] * 2
        if self.has("copymut"):
            forms += ["copymut"] * 3 + ["observe"] * 2
        if self.has("exprstmt"):
            forms += ["exprstmt"] * 2 + ["seqobs"] * 2
        if d > 0:
            forms += ["if", "cset", "setfield"]
            if self.has("loops"):
                forms += ["while", "for"]
                if self.has("exprstmt") and self.has("list") and self.in_for == 0:
                    forms += ["forset", "forpush"]
            if self.has("ret") and self.cur_rt is not None:
                forms += ["ret"]
            if self.has("list") and self.in_for == 0:
                forms += ["push", "lswap", "lconcat"]
            if self.in_opt_fn and self.has("opt"):
                forms += ["try"]
        if self.has("calls") and self.in_for == 0 and any(not fn.get("special") for fn in self.fns.values()):
            forms += ["callfn"] * 2
        f = r.choice(forms)
        if f == "callfn":
            # call one of the functions generated so far, whatever it returns
            name = r.choice([n for n, fn in self.fns.items() if not fn.get("special")])
            fn = self.fns[name]
            call = {"k": "call", "f": name, "args": self.seq_exprs(fn["pts"], max(d - 1, 0))}
            if fn["rt"] == "unit":
                return call
            v = self.fresh()
            self.declare(v, fn["rt"])
            return let(v, fn["rt"], call)
        if f == "let":
            ty = self.random_ty(1)
            n = None
            if self.has("shadow") and len(self.scopes) > 1 and r.random() < 0.3:
                # shadowing: re-use the name of a variable of an ENCLOSING scope (any type); the initialiser is
                # generated before the new binding exists, so it still refers to the outer variable
                here = {x for (x, _) in self.scopes[-1]}
                outer = [(x, t) for sc in self.scopes[:-1] for (x, t) in sc if x not in self.protected and x not in here]
                if outer:
                    n, ot = r.choice(outer)
                    if r.random() < 0.5:
                        ty = ot
                    if r.random() < 0.6 and self.emit_ok(ty) and ty == ot and ty in INT_TYS:
                        e = binop(r.choice(["add", "mul", "sub"]), ty, var(n), self.expr(ty, max(d - 1, 0)))
                    else:
                        e = self.expr(ty, d, True)
            if n is None:
                e = self.expr(ty, d, True)
                n = self.fresh()
            self.declare(n, ty)
            st = let(n, ty, e)
            if self.has("anonrec") and isinstance(ty, list) and ty[0] == "named" and len(ty) == 2 and \
                    e.get("k") == "rec" and not e.get("name") and r.random() < 0.6:
                # no annotation: the type of the (anonymous, fields in any order) literal is only fixed by what the
                # variable flows into later (an annotated let, a parameter, a typed field read)
                st["ann"] = False
            return st
        if f == "set":
            vs = [(n, t) for (n, t) in self.assignable()]
            if not vs:
                return self.stmt_emit(d)
            n, t = r.choice(vs)
            return {"k": "set", "p": [n], "e": self.expr(t, d, True)}
        if f == "setfield":
            cands = []
            for (n, t) in self.assignable():
                p = self.field_paths(t, [n], 2)
                cands += p
            if not cands:
                return self.stmt_emit(d)
            path, t = r.choice(cands)
            return {"k": "set", "p": path, "e": self.expr(t, d - 1, True)}
        if f == "cset":
            vs = [(n, t) for (n, t) in self.assignable() if t in INT_TYS]
            if not vs:
                return self.stmt_emit(d)
            n, t = r.choice(vs)
            op = r.choice(["add", "sub", "mul", "div", "rem"])
            rhs = self.safe_divisor(t) if op in ("div", "rem") else self.expr(t, d - 1)
            if op not in ("div", "rem") and r.random() < 0.3:
                # the right-hand side itself assigns to the target: `x op= e` reads x BEFORE e is evaluated
                rhs = block([{"k": "set", "p": [n], "e": self.expr(t, max(d - 1, 0))}], self.expr(t, max(d - 1, 0)))
            return {"k": "cset", "op": op, "ty": t, "p": [n], "e": rhs}
        if f == "usetr":
            vs = self.vars_of("Tr")
            e = var(r.choice(vs)) if vs and r.random() < 0.7 else self.expr("Tr", max(d - 1, 0))
            return host("use", "unit", self.tag(), [e])
        if f in ("copymut", "observe"):
            cands = [(n, t) for (n, t) in self.all_vars() if isinstance(t, list)]
            if self.in_for > 0 and f == "copymut":
                # no pushes inside a for loop (the loop might iterate over that very list and never end)
                cands = [(n, t) for (n, t) in cands if t[0] != "list"]
            if not cands:
                return self.stmt_emit(d)
            n, t = r.choice(cands)
            if f == "observe":
                return block(self.observe(var(n), t, 3))
            return self.copymut(n, t, d)
        if f == "seqobs":
            # a value built from operands evaluated left to right, one of which assigns to a variable that an earlier
            # operand read; every leaf of the result is observed afterwards
            tys = [t for t in self.record_types()]
            for (_, t) in self.all_vars():
                if isinstance(t, list) and t[0] == "named" and t not in tys and self.kind_of(t) == "enum":
                    tys.append(t)
            tys = [t for t in tys if (self.kind_of(t) == "record" and len(self.fields_of(t)) >= 2) or
                   (self.kind_of(t) == "enum" and any(len(ts) >= 2 for _, ts in self.variants_of(t)))]
            if self.has("list"):
                tys.append(["list", r.choice([t for t in self.scalar_tys() if t not in FLOAT_TYS] or ["i32"])])
            if not tys:
                return self.stmt_emit(d)
            ty = r.choice(tys)
            self.force_seq = True
            if ty[0] == "list":
                e = {"k": "list", "es": self.seq_exprs([ty[1]] * r.randint(2, 3), max(d - 1, 0), False)}
            elif self.kind_of(ty) == "enum":
                v, ts = r.choice([(v, ts) for v, ts in self.variants_of(ty) if len(ts) >= 2])
                e = {"k": "ctor", "en": ty[1], "v": v, "args": self.seq_exprs(ts, max(d - 1, 0))}
            else:
                e = self.construct(ty, max(d, 1))
            self.force_seq = False
            n = self.fresh()
            ss = [let(n, ty, e)] + self.observe(var(n), ty, 3)
            for (m, t) in self.all_vars():       # and the variables the operands may have assigned to
                if isinstance(t, str) and self.emit_ok(t) and r.random() < 0.3:
                    ss.append(host("emit", t, self.tag(), [var(m)]))
            return block(ss)
        if f == "exprstmt":
            # an expression used as a statement: evaluated for its effects, the value is discarded
            ty = self.random_ty(1)
            e = self.expr(ty, max(d, 1), False)
            if isinstance(ty, str) and r.random() < 0.5:
                # often a field read (of a variable, of a call result, of a literal)
                e2 = self.expr0_field(ty, max(d, 1))
                if e2 is not None:
                    e = e2
            return e
        if f == "emit":
            return self.stmt_emit(d)
        if f == "tick":
            return self.tick_()
        if f == "if":
            c = self.expr("bool", d - 1)
            if r.random() < 0.5:
                return if_(c, self.ublock(d - 1))
            return if_(c, self.ublock(d - 1), self.ublock(d - 1))
        if f == "while":
            i = self.fresh("k")
            n = r.randint(0, 3)
            # the loop condition: a counter comparison, or a form whose evaluation creates temporaries that own
            # something at the top level of the condition (evaluated, and released, once per iteration + 1)
            variant = "plain"
            if r.random() < 0.35:
                vs = []
                if self.has("list"):
                    vs += ["lcont", "llen"]
                if self.has("fstr") and self.has("str"):
                    vs += ["fstr"]
                if vs:
                    variant = r.choice(vs)
            cty = "u64" if variant == "llen" else "u8"
            self.push()
            self.declare(i, cty)
            self.protected.add(i)
            body = self.stmts(r.randint(1, 2), d - 1)
            self.pop()
            body.append({"k": "set", "p": [i], "e": binop("add", cty, var(i), ilit(cty, 1))})
            if variant == "lcont":
                n = max(n, 1)
                es = [ilit("u8", j) for j in range(n)]
                r.shuffle(es)
                cond = {"k": "lcall", "m": "contains", "r": {"k": "list", "es": es}, "args": [var(i)]}
            elif variant == "llen":
                n = max(n, 1)
                et = r.choice([t for t in self.scalar_tys() if t not in FLOAT_TYS] + (["Tr"] * 3 if self.has("tr") else []) or ["i32"])
                lst = {"k": "list", "es": [self.expr(et, 0) for _ in range(n)]}
                cond = binop("lt", "u64", var(i), {"k": "lcall", "m": "len", "r": lst, "args": []})
            elif variant == "fstr":
                cond = binop("ne", "str", {"k": "fstr", "ps": [{"k": "e", "ty": "u8", "e": var(i)}]},
                             lit("str", A.str_val(str(n))))
            else:
                cond = binop("lt", "u8", var(i), ilit("u8", n))
                if r.random() < 0.3:
                    cond = host("emit", "bool", self.tag(), [cond])
                if r.random() < 0.4:
                    extra = self.temp_bool(d) if r.random() < 0.6 else self.expr("bool", max(d - 1, 1))
                    cond = binop("and", "bool", extra, cond) if r.random() < 0.6 else binop("and", "bool", cond, extra)
            # counter declaration + loop live in their own block
            return block([let(i, cty, ilit(cty, 0)), {"k": "while", "c": cond, "b": block(body)}])
        if f == "forpush":
            # the loop pushes to the list it iterates over (bounded by a literal length), directly or through a copy of the
            # handle: every copy of a list observes the pushes, also the running loop
            lvars = [(n, t[1]) for (n, t) in self.all_vars() if isinstance(t, list) and t[0] == "list"
                     and isinstance(t[1], str) and self.emit_ok(t[1]) and t[1] not in FLOAT_TYS]
            if not lvars:
                return self.stmt_emit(d)
            l, ety = r.choice(lvars)
            x = self.fresh("x")
            bound = ilit("u64", r.randint(1, 6))
            pre = []
            target = l
            if r.random() < 0.4:
                target = self.fresh("c")
                pre.append(let(target, ["list", ety], var(l)))       # another handle to the same list
            guard = binop("lt", "u64", {"k": "lcall", "m": "len", "r": var(l), "args": []}, bound)
            body = [if_(guard, block([{"k": "lcall", "m": "push", "r": var(target), "args": [var(x)]}])),
                    host("emit", ety, self.tag(), [var(x)])]
            return block(pre + [{"k": "for", "n": x, "e": var(l), "b": block(body)},
                                host("emit", "u64", self.tag(), [{"k": "lcall", "m": "len", "r": var(l), "args": []}])])
        if f == "forset":
            # a loop over a list VARIABLE whose body gives that variable another list: the loop goes on over the list
            # it started with (the expression after `in` is evaluated once)
            lvars = [(n, t[1]) for (n, t) in self.all_vars() if isinstance(t, list) and t[0] == "list"
                     and isinstance(t[1], str) and self.emit_ok(t[1]) and t[1] not in FLOAT_TYS and n not in self.protected]
            if not lvars:
                return self.stmt_emit(d)
            lv, ety = r.choice(lvars)
            x = self.fresh("x")
            others = [m for (m, t) in lvars if m != lv and t == ety]
            new = var(r.choice(others)) if others and r.random() < 0.4 else \
                {"k": "list", "es": [self.expr(ety, 0, True) for _ in range(r.randint(1, 3))]}
            body = [host("emit", ety, self.tag(), [var(x)]), {"k": "set", "p": [lv], "e": new}]
            if r.random() < 0.5:
                body.reverse()
            if r.random() < 0.5:
                body.append(host("emit", "u64", self.tag(), [{"k": "lcall", "m": "len", "r": var(lv), "args": []}]))
            return {"k": "for", "n": x, "e": var(lv), "b": block(body)}
        if f == "for":
            ety = r.choice([t for t in self.scalar_tys() if t not in FLOAT_TYS] or ["i32"])
            lvars = [(n, t[1]) for (n, t) in self.all_vars() if isinstance(t, list) and t[0] == "list"
                     and isinstance(t[1], str) and self.emit_ok(t[1]) and t[1] not in FLOAT_TYS]
            if lvars and r.random() < 0.7:
                ety = r.choice(lvars)[1]       # prefer an element type for which a list variable exists
            cands = [n for (n, t) in self.all_vars() if t == ["list", ety]]
            x = self.fresh("x")
            if cands and r.random() < 0.3:
                # the loop pushes to the list it iterates over (bounded by a literal length):
                # every copy of a list observes the pushes, also the loop itself
                l = r.choice(cands)
                bound = ilit("u64", r.randint(1, 6))
                guard = binop("lt", "u64", {"k": "lcall", "m": "len", "r": var(l), "args": []}, bound)
                body = [if_(guard, block([{"k": "lcall", "m": "push", "r": var(l), "args": [var(x)]}])),
                        host("emit", ety, self.tag(), [var(x)])]
                return {"k": "for", "n": x, "e": var(l), "b": block(body)}
            lv = None
            if cands and r.random() < 0.6:
                lv = r.choice(cands)
                src = var(lv)
            else:
                src = {"k": "list", "es": [self.expr(ety, d - 1) for _ in range(r.randint(1, 3))]}
            self.push()
            self.declare(x, ety)
            self.protected.add(x)
            self.in_for += 1
            body = self.stmts(r.randint(1, 2), d - 1)
            self.in_for -= 1
            self.pop()
            if lv is not None and lv not in self.protected and self.has("exprstmt") and r.random() < 0.7:
                # the body gives the iterated VARIABLE another list: the loop goes on over the list it started with
                others = [m for m in cands if m != lv]
                new = var(r.choice(others)) if others and r.random() < 0.5 else \
                    {"k": "list", "es": [self.expr(ety, 0, True) for _ in range(r.randint(0, 3))] or [self.expr(ety, 0, True)]}
                body.insert(r.randrange(len(body) + 1), {"k": "set", "p": [lv], "e": new})
                body.append(host("emit", ety, self.tag(), [var(x)]))
            return {"k": "for", "n": x, "e": src, "b": block(body)}
        if f == "ret":
            e = self.expr(self.cur_rt, d - 1, True) if self.cur_rt != "unit" else None
            retn = {"k": "ret", "e": [e] if e is not None else []}
            return if_(self.expr("bool", d - 1), block([retn]))
        if f == "push":
            cands = [(n, t) for (n, t) in self.all_vars() if isinstance(t, list) and t[0] == "list"]
            if not cands:
                return self.stmt_emit(d)
            n, t = r.choice(cands)
            return {"k": "lcall", "m": "push", "r": var(n), "args": [self.recv_reassigning_arg(n, t, d)]}
        if f in ("lswap", "lconcat"):
            cands = [(n, t) for (n, t) in self.all_vars() if isinstance(t, list) and t[0] == "list"]
            if not cands:
                return self.stmt_emit(d)
            n, t = r.choice(cands)
            if f == "lswap":
                return {"k": "lcall", "m": "swap", "r": var(n),
                        "args": [ilit("u64", r.choice([0, 1, 2, 7])), ilit("u64", r.choice([0, 1, 3, 9]))]}
            others = [m for (m, u) in cands if u == t]
            nn = self.fresh()
            e = {"k": "lcall", "m": "concat", "r": var(n), "args": [var(r.choice(others))], "plus": r.random() < 0.5}
            self.declare(nn, t)
            return let(nn, t, e)
        if f == "try":
            t = self.random_ty(0)
            e = {"k": "try", "e": self.expr(["opt", t], d - 1)}
            n = self.fresh()
            self.declare(n, t)
            return let(n, t, e)
        return self.stmt_emit(d)

    def observe(self, e, ty, depth):
        """statements that emit every observable leaf of the value of expression e (a variable or path)"""
        out = []
        if ty == "Tr":
            return [host("use", "unit", self.tag(), [e])]
        if isinstance(ty, str):
            if self.emit_ok(ty):
                out.append(host("emit", ty, self.tag(), [e]))
            return out
        if depth <= 0:
            return out
        if ty[0] == "list":
            if self.emit_ok(ty[1]) or ty[1] == "Tr":
                x = self.fresh("x")
                out.append({"k": "for", "n": x, "e": e, "b": block(self.observe(var(x), ty[1], 1))})
            out.append(host("emit", "u64", self.tag(), [{"k": "lcall", "m": "len", "r": e, "args": []}]))
            return out
        if ty[0] == "opt":
            x = self.fresh("m")
            out.append({"k": "match", "e": e, "arms": [
                {"v": "Some", "bs": [x], "g": [], "b": block(self.observe(var(x), ty[1], depth - 1) + [self.tick_()])},
                {"v": "None", "bs": [], "g": [], "b": block([self.tick_()])}]})
            return out
        if self.kind_of(ty) == "record":
            for f, ft in self.fields_of(ty):
                out += self.observe({"k": "field", "e": e, "f": f}, ft, depth - 1)
            return out
        arms = []
        vs_ = list(self.variants_of(ty))
        # sometimes only a few variants get an explicit arm (in any order) and `_` covers the rest
        explicit = vs_
        if len(vs_) > 1 and self.r.random() < 0.4:
            explicit = self.r.sample(vs_, self.r.randint(1, len(vs_) - 1))
        for v, ts in explicit:
            bs = [self.fresh("m") for _ in ts]
            body = []
            for b, bt in zip(bs, ts):
                body += self.observe(var(b), bt, depth - 1)
            body.append(self.tick_())
            arms.append({"v": v, "bs": bs, "g": [], "b": block(body)})
        if len(explicit) < len(vs_):
            arms.append({"v": "_", "bs": [], "g": [], "b": block([self.tick_()])})
        out.append({"k": "match", "e": e, "arms": arms})
        return out

    def copymut(self, n, ty, d):
        """copy a value, change the original (or the copy), then observe every leaf of both"""
        r = self.r
        c = self.fresh("c")
        ss = [let(c, ty, var(n))]
        target = r.choice([n, c]) if n not in self.protected else c
        if ty[0] == "list":
            ss.append({"k": "lcall", "m": "push", "r": var(target), "args": [self.expr(ty[1], 0, True)]})
            if self.is_plain(ty[1]):
                # a list that extends another one by an element: equal prefix, different length
                c2 = self.fresh("c")
                ext = {"k": "lcall", "m": "concat", "r": var(n), "args": [{"k": "list", "es": [self.expr(ty[1], 0, True)]}],
                       "plus": r.random() < 0.5}
                ss.append(let(c2, ty, ext))
                ss.append(host("emit", "bool", self.tag(), [binop("eq", "list", var(n), var(c2))]))
                ss.append(host("emit", "bool", self.tag(), [binop("ne", "list", var(c2), var(c))]))
        elif self.has("calls") and self.in_for == 0 and ty[0] == "named" and r.random() < 0.35:
            # the value is passed to a function that changes its parameter (a field of it, or all of it) and observes
            # it; parameters are copies: the caller's variable must be unchanged. Sometimes the same variable is
            # given to two parameters of which only the first is changed.
            ss = []
            both = r.random() < 0.4
            name = "pm%d" % len([k for k in self.fns if k.startswith("pm")])
            qs = [self.fresh("q")] + ([self.fresh("q")] if both else [])
            saved = (self.scopes, self.cur_rt, self.in_opt_fn, self.in_for)
            self.scopes, self.cur_rt, self.in_opt_fn, self.in_for = [[(q, ty) for q in qs]], "unit", False, 0
            body = []
            paths = self.field_paths(ty, [qs[0]], 2)
            if paths and r.random() < 0.75:
                path, ft = r.choice(paths)
                body.append({"k": "set", "p": path, "e": self.expr(ft, 1, True)})
            else:
                body.append({"k": "set", "p": [qs[0]], "e": self.construct(ty, 1)})
            for q in qs:
                body += self.observe(var(q), ty, 3)
            self.scopes, self.cur_rt, self.in_opt_fn, self.in_for = saved
            self.fns[name] = {"ps": qs, "pts": [ty for _ in qs], "rt": "unit", "b": block(body), "special": True}
            ss.append({"k": "call", "f": name, "args": [var(n) for _ in qs]})
            ss += self.observe(var(n), ty, 3)
            return block(ss)
        else:
            paths = self.field_paths(ty, [target], 2)
            if paths and r.random() < 0.7:
                path, ft = r.choice(paths)
                ss.append({"k": "set", "p": path, "e": self.expr(ft, max(d - 1, 0), True)})
            else:
                ss.append({"k": "set", "p": [target], "e": self.construct(ty, 1)})
        ss += self.observe(var(n), ty, 3)
        ss += self.observe(var(c), ty, 3)
        return block(ss)

    def field_paths(self, ty, prefix, depth):
        out = []
        if depth == 0 or not (isinstance(ty, list) and ty[0] == "named"):
            return out
        if self.kind_of(ty) != "record":
            return out
        for f, ft in self.fields_of(ty):
            out.append((prefix + [f], ft))
            out += self.field_paths(ft, prefix + [f], depth - 1)
        return out

    def stmt_emit(self, d):
        ty = self.r.choice([t for t in self.scalar_tys()])
        return host("emit", ty, self.tag(), [self.expr0(ty, max(d - 1, 0))])

    # ------------------------------------------------------------ functions
    def gen_fn(self, name, rt, pts, d, opt_fn=False):
        ps = [self.fresh("p") for _ in pts]
        self.scopes = [list(zip(ps, pts))]
        self.cur_rt = rt
        self.in_opt_fn = opt_fn
        ss = self.stmts(self.r.randint(1, 4), d)
        e = self.expr(rt, d, True) if rt != "unit" else None
        self.fns[name] = {"ps": ps, "pts": pts, "rt": rt, "b": block(ss, e)}
        self.scopes = []

    def gen_filtermap(self, name):
        """filtermap name(p..) { stmts; if c { accept e } ...; reject e2 }  (a function returning Verdict[A, R])"""
        r = self.r
        ta = r.choice([t for t in self.scalar_tys() if t not in FLOAT_TYS] or ["i32"])
        tr_ = r.choice([t for t in self.scalar_tys() if t not in FLOAT_TYS] or ["i32"])
        pts = [self.random_ty(0) for _ in range(r.randint(0, 2))]
        ps = [self.fresh("p") for _ in pts]
        self.scopes = [list(zip(ps, pts))]
        self.cur_rt = None
        self.in_opt_fn = False

        def verdict(form):
            t = ta if form == "accept" else tr_
            return {"k": "ret", "form": form,
                    "e": [{"k": "ctor", "en": "Verdict", "v": "Accept" if form == "accept" else "Reject", "args": [self.expr(t, 1, True)]}]}
        ss = self.stmts(r.randint(0, 2), 1)
        for _ in range(r.randint(0, 2)):
            ss.append(if_(self.expr("bool", 1), block([verdict(r.choice(["accept", "reject"]))])))
            ss += self.stmts(r.randint(0, 1), 1)
        last = verdict(r.choice(["accept", "reject"]))
        self.fns[name] = {"ps": ps, "pts": pts, "rt": "unit", "b": block(ss, last), "kind": "filtermap", "special": True,
                          "verdict": [ta, tr_]}
        self.scopes = []

    def gen_rec_fn(self, name):
        """fn name(n: u8, acc: T) -> T { if n == 0 { acc } else { name(n - 1, <step>) } }"""
        t = self.r.choice([x for x in self.scalar_tys() if x in INT_TYS] or ["i32"])
        n, acc = self.fresh("p"), self.fresh("p")
        self.scopes = [[(acc, t)]]
        self.cur_rt = None
        step = self.expr(t, 1)
        body = if_(binop("eq", "u8", var(n), ilit("u8", 0)), block([], var(acc)),
                   block([self.tick_()],
                         {"k": "call", "f": name, "args": [binop("sub", "u8", var(n), ilit("u8", 1)), step]}))
        self.fns[name] = {"ps": [n, acc], "pts": ["u8", t], "rt": t, "b": block([], body), "special": True}
        form = self.r.random()
        if form < 0.45:
            # non-tail recursion: the activation reads its own parameters and a local bound before the call after the
            # recursive call(s) returned (every activation needs variables of its own); `two` makes it a tree
            # recursion whose second call gets the first one's result
            k, r1 = self.fresh(), self.fresh()
            self.scopes = [[(acc, t)]]
            before = self.expr(t, 1)
            self.scopes = [[(acc, t), (k, t), (r1, t)]]
            after = self.expr(t, 1)
            op1, op2 = self.r.choice(["add", "sub", "mul"]), self.r.choice(["add", "sub", "mul"])
            dec = binop("sub", "u8", var(n), ilit("u8", 1))
            ss = [let(k, t, before), self.tick_(),
                  let(r1, t, {"k": "call", "f": name, "args": [dec, step]})]
            if self.r.random() < 0.4:
                r2 = self.fresh()
                ss.append(let(r2, t, {"k": "call", "f": name, "args": [dec, binop(op2, t, var(r1), var(k))]}))
                after = binop(op1, t, after, var(r2))
            res = binop(op1, t, binop(op2, t, var(r1), var(k)), binop(op2, t, var(acc), after))
            body = if_(binop("eq", "u8", var(n), ilit("u8", 0)), block([], var(acc)), block(ss, res))
            self.fns[name]["b"] = block([], body)
            self.rec_entry = name
            self.scopes = []
            return t
        if form < 0.75:
            # mutual recursion: name -> name_b -> name (a group of functions that can only be compiled together);
            # the caller in main enters the group through either member
            other = name + "b"
            n2, acc2 = self.fresh("p"), self.fresh("p")
            self.scopes = [[(acc2, t)]]
            step2 = self.expr(t, 1)
            body2 = if_(binop("eq", "u8", var(n2), ilit("u8", 0)), block([], var(acc2)),
                        block([], {"k": "call", "f": name, "args": [binop("sub", "u8", var(n2), ilit("u8", 1)), step2]}))
            self.fns[other] = {"ps": [n2, acc2], "pts": ["u8", t], "rt": t, "b": block([], body2), "special": True}
            # redirect the recursive call of the first member to the second
            self.fns[name]["b"]["e"][0]["e"][0]["e"][0]["f"] = other
            self.rec_entry = self.r.choice([name, other])
        else:
            self.rec_entry = name
        self.scopes = []
        return t

    def program(self):
        r = self.r
        if self.has("kconst"):
            self.gen_kconsts()
        if self.has("rec") or self.has("enum"):
            self.gen_types(r.randint(0, 3))
        nf = r.randint(0, 3) if self.has("calls") else 0
        for i in range(nf):
            pts = [self.random_ty(1) for _ in range(r.randint(0, 3))]
            if self.has("opt") and r.random() < 0.25:
                rt = ["opt", self.random_ty(0)]
                self.gen_fn("h%d" % i, rt, pts, self.size - 1, opt_fn=True)
            else:
                self.gen_fn("h%d" % i, self.random_ty(1), pts, self.size - 1)
        rec_t = None
        if self.has("calls") and self.has("recfn") and r.random() < 0.4:
            rec_t = self.gen_rec_fn("rec0")
        if self.has("filtermap") and r.random() < 0.6:
            self.gen_filtermap("fm0")
        mrt = r.choice(self.scalar_tys() + ["unit"])
        if self.has("evalsafe"):
            # the evaluator hook passes no return slot: main returns a register-sized scalar
            mrt = r.choice([t for t in self.scalar_tys() if t != "str"] or ["bool"])
        ps = []
        self.scopes = [[]]
        self.cur_rt = mrt
        self.in_opt_fn = False
        ss = self.stmts(r.randint(2, 5), self.size)
        if "fm0" in self.fns:
            fm = self.fns["fm0"]
            ta, tr_ = fm["verdict"]
            a, b = self.fresh("m"), self.fresh("m")
            call = {"k": "call", "f": "fm0", "args": [self.expr(t, 1, True) for t in fm["pts"]]}
            ss.append({"k": "match", "e": call, "arms": [
                {"v": "Accept", "bs": [a], "g": [], "b": block([host("emit", ta, self.tag(), [var(a)])])},
                {"v": "Reject", "bs": [b], "g": [], "b": block([host("emit", tr_, self.tag(), [var(b)]), self.tick_()])}]})
        if rec_t is not None:
            n = self.fresh()
            ss.append(let(n, rec_t, {"k": "call", "f": self.rec_entry, "args": [ilit("u8", r.randint(0, 4)), self.leaf(rec_t)]}))
            self.declare(n, rec_t)
            ss.append(host("emit", rec_t, self.tag(), [var(n)]))
        e = self.expr(mrt, self.size, True) if mrt != "unit" else None
        self.fns["main"] = {"ps": ps, "pts": [], "rt": mrt, "b": block(ss, e)}
        if self.has("mods"):
            # some helper functions live in sub-modules; a function of one module may have the identifier of a
            # function of another module (calls are written with the path that designates the intended one)
            movable = [n for n, f in self.fns.items() if n.startswith("h")]
            idents = {}
            for n in movable:
                if r.random() < 0.5:
                    self.fns[n]["mod"] = r.choice(["ma", "mb"])
            for n in movable:
                mod = self.fns[n].get("mod", "")
                others = [self.fns[m].get("ident", m) for m in movable if m != n and self.fns[m].get("mod", "") != mod]
                taken = {self.fns[m].get("ident", m) for m in self.fns if m != n and self.fns[m].get("mod", "") == mod}
                cands = [x for x in others if x not in taken]
                if cands and r.random() < 0.5:
                    self.fns[n]["ident"] = r.choice(cands)
        prog = {"types": [self.types[n] for n in self.typelist], "fns": self.fns, "consts": self.kconsts}
        return prog, mrt, list(self.ins)

    def input_values(self, ins):
        """one vector of input values (specification representation) for the input slots"""
        r = self.r
        out = []
        for ty in ins:
            if ty in INT_TYS:
                out.append({"ty": ty, "v": A.int_bytes(ty, r.choice(edge_ints(ty) + [r.randint(A.ty_min(ty), A.ty_max(ty))]))})
            elif ty in FLOAT_TYS:
                c = r.random()
                if c < 0.08:
                    v = {"c": "nan"}
                elif c < 0.16:
                    v = {"c": "inf", "s": r.choice([0, 1])}
                elif c < 0.22:
                    v = A.fin(1, 0, 0)
                else:
                    s, m, e = r.choice(FLOATS)
                    v = A.fin(s, m, e)
                out.append({"ty": ty, "v": v})
            elif ty == "bool":
                out.append({"ty": ty, "v": r.random() < 0.5})
            elif ty == "char":
                out.append({"ty": ty, "v": ord(r.choice(CHARS))})
            elif ty == "str":
                out.append({"ty": ty, "v": A.str_val(r.choice(STRS))})
            else:
                raise ValueError(ty)
        return out
