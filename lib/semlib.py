"""Shared pipeline of the RotoSem-based checks (C01, C02, C08, C20, and the generator for C03).

generate programs (rotogen) -> print to Roto source (rotoast) -> compile + execute natively in worker
processes (harness bin `sem`) -> one trace event per execution {prog, fn, args, ins, res, log} ->
TLC validates every event against spec/RotoSem.tla (TraceSem.tla): accepted iff Eval(...) equals
the recorded result and host-call log.
"""
import json
import os
import random

import rotoast as A
import rotogen
import vlib


def make_cases(seed, nprog, nruns, feats, size, tagp=""):
    """returns list of dicts {prog, src, rt, runs:[ins...], spec}"""
    cases = []
    for i in range(nprog):
        rng = random.Random("%s/%s/%d" % (seed, tagp, i))
        g = rotogen.Gen(rng, feats=set(feats), size=size)
        prog, rt, ins = g.program()
        runs = [g.input_values(ins) for _ in range(nruns)]
        cases.append({"id": i, "prog": prog, "src": A.print_program(prog), "rt": rt, "runs": runs,
                      "spec": A.spec_program(prog)})
    return cases


def run_native(pid, cases, tag, want_eval=False, nproc=10):
    hc = [{"src": c["src"], "eval": want_eval,
           "calls": [{"fn": "main", "ret": c["rt"], "ins": r, "args": []} for r in c["runs"]]} for c in cases]
    return vlib.run_batch("sem", hc, nproc=nproc, stall=30, pid=pid, tag=tag)


def node_kinds(e, acc):
    if isinstance(e, dict):
        k = e.get("k")
        if isinstance(k, str):
            key = k
            if k in ("bin", "un", "cset"):
                key = "%s:%s:%s" % (k, e.get("op"), e.get("ty"))
            elif k == "host":
                key = "host:%s" % e.get("f")
            elif k == "lcall":
                key = "lcall:%s" % e.get("m")
            elif k == "lit":
                key = "lit:%s" % e.get("ty")
            acc[key] = acc.get(key, 0) + 1
        for v in e.values():
            node_kinds(v, acc)
    elif isinstance(e, list):
        for v in e:
            node_kinds(v, acc)


def validate(pid, cases, results, verd, ev, tag, sig_extra=None, chunk=400):
    """Build trace events from native executions and let TLC validate them against RotoSem.
    Returns (n_events_validated, n_compile_failures, kinds)."""
    d = vlib.workdir(pid, "trace")
    sig_extra = sig_extra or {}
    good = []          # (case, run index, call result)
    ncompile_fail = 0
    compile_fail_samples = []
    kinds = {}
    for c, res in zip(cases, results):
        oc = vlib.outcome_of(res)
        if oc != "returned":
            verd.report(dict(sig_extra, kind_of_failure=oc.split(":")[0]),
                        "compiling/running a generated well-typed script did not return normally (%s): %s\n%s" %
                        (oc, json.dumps(res)[:300], c["src"][:1500]), {"src": c["src"], "runs": c["runs"], "result": res})
            continue
        r = res["r"]
        if r["compile"] != "ok":
            # a generated program the compiler rejects is a generator defect, never a violation
            ncompile_fail += 1
            if len(compile_fail_samples) < 5:
                compile_fail_samples.append({"msg": r.get("msg", "")[:400], "src": c["src"][:1200]})
            continue
        node_kinds(c["spec"], kinds)
        for k, call in enumerate(r["calls"]):
            if "error" in call:
                raise vlib.ToolError("harness could not call main: %s" % call["error"])
            good.append((c, k, call))
    ev.extra.setdefault("generated_programs_rejected_by_compiler", 0)
    ev.extra["generated_programs_rejected_by_compiler"] += ncompile_fail
    if compile_fail_samples:
        ev.extra.setdefault("rejected_samples", compile_fail_samples[:2])
    # validate in chunks (several TLC processes in parallel); on rejection report the event, drop it and
    # re-validate the rest of the chunk
    def do_chunk(ci):
        part = good[ci:ci + chunk]
        nval = 0
        reports = []
        tlcs = []
        while part:
            progs, index, events = [], {}, []
            for (c, k, call) in part:
                if c["id"] not in index:
                    progs.append(c["spec"])
                    index[c["id"]] = len(progs)
                evt = {"prog": index[c["id"]], "fn": "main", "args": [], "ins": [x["v"] for x in c["runs"][k]],
                       "res": call["res"], "log": call["log"]}
                if "eval" in call:
                    evt["eval"] = call["eval"]
                events.append(evt)
            tp = os.path.join(d, "%s_%d.trace.ndjson" % (tag, ci))
            pp = os.path.join(d, "%s_%d.progs.ndjson" % (tag, ci))
            vlib.write_ndjson(tp, events)
            vlib.write_ndjson(pp, progs)
            r = vlib.run_tlc("TraceSem", "TraceSem.cfg", workers=1, env={"TRACE": tp, "PROGS": pp}, timeout=1800, heap="4g",
                             deque=True, coverage=False, tag="UNMATCHED",
                             metadir=vlib.workdir("_tlc", "TraceSem_%s_%s_%d" % (pid, tag, ci), clean=True))
            tlcs.append(r)
            if r.ok:
                nval += len(part)
                break
            if r.postcondition_failed and r.replay:
                un = r.replay[0]
                line = un["line"]
                c, k, call = part[line - 1]
                spec = un.get("spec", {})
                what = "result" if spec.get("v") != call["res"] else "host-call log"
                if spec.get("k") == "ok" and spec.get("v") == call["res"] and spec.get("log") == call["log"] and "eval" in call:
                    reports.append((dict(sig_extra, kind_of_failure="evaluator-disagrees"),
                                    "the LIR evaluator completed with a different outcome than the compiled code for the same "
                                    "lowered program: evaluator %s ; compiled res=%s log=%s\n%s" %
                                    (json.dumps(call["eval"])[:500], json.dumps(call["res"]), json.dumps(call["log"])[:300],
                                     c["src"][:2500]),
                                    {"src": c["src"], "ins": c["runs"][k], "native": call, "prog": c["spec"]}))
                elif spec.get("k") != "ok":
                    raise vlib.ToolError("generated program left RotoSem's domain (%s): %s" % (spec.get("k"), c["src"][:800]))
                else:
                    reports.append((dict(sig_extra, kind_of_failure="wrong-" + what.replace(" ", "-")),
                                    "native execution differs from RotoSem in the %s: native res=%s log=%s ; spec res=%s log=%s\n%s" %
                                    (what, json.dumps(call["res"]), json.dumps(call["log"])[:400], json.dumps(spec.get("v")),
                                     json.dumps(spec.get("log"))[:400], c["src"][:2500]),
                                    {"src": c["src"], "ins": c["runs"][k], "native": call, "spec": spec, "prog": c["spec"]}))
                nval += line - 1
                part = part[line:]
                continue
            raise vlib.ToolError("TraceSem failed to run: %s\n%s" % (r.error, r.stdout[-1500:]))
        return nval, reports, tlcs

    from concurrent.futures import ThreadPoolExecutor
    nvalid = 0
    with ThreadPoolExecutor(max_workers=5) as ex:
        for (nval, reports, tlcs) in ex.map(do_chunk, range(0, len(good), chunk)):
            nvalid += nval
            for r in tlcs:
                ev.add_tlc(r)
            for (sig, desc, rep) in reports:
                verd.report(sig, desc, rep)
    return nvalid, ncompile_fail, kinds


def run_sem_check(pid, tier, families, rule, assumptions, extra_cases=None, want_eval=False, required_kinds=(), extra_parts=()):
    """families: list of (name, feats, size, nprog_quick, nprog_thorough, nruns); extra_parts: callables (tier, ev, verd)
    that decide a further part of the property with the same Evidence / Verdicts objects"""
    ev = vlib.Evidence(pid, tier)
    verd = vlib.Verdicts(pid)
    vlib.build_harness(["sem"])
    allkinds = {}
    total_cf = 0
    total_prog = 0
    for (name, feats, size, nq, nt, nruns) in families:
        n = nq if tier == "quick" else nt
        cases = make_cases(vlib.seed(), n, nruns, feats, size, tagp=pid + name)
        results = run_native(pid, cases, name, want_eval=want_eval)
        nv, ncf, kinds = validate(pid, cases, results, verd, ev, name, sig_extra={"family": name})
        total_cf += ncf
        total_prog += len(cases)
        ev.traces += nv
        if want_eval:
            for res in results:
                if "r" in res and res["r"].get("compile") == "ok":
                    for call in res["r"]["calls"]:
                        k = (call.get("eval") or {}).get("k", "none")
                        key = "evaluator_completed_with_value" if k == "value" else "evaluator_panicked"
                        ev.extra[key] = ev.extra.get(key, 0) + 1
        for k, v in kinds.items():
            allkinds[k] = allkinds.get(k, 0) + v
        for c, res in zip(cases, results):
            if "r" in res and res["r"].get("compile") == "ok":
                for k, run in enumerate(c["runs"]):
                    ev.case({"src": c["src"][:900], "ins": run[:6]}, len(c["src"]) > 120,
                            key=vlib.shash([c["src"], run]))
    for fam in (extra_cases or []):
        name, cases = fam[0], fam[1]
        optional = len(fam) > 2 and fam[2]
        results = run_native(pid, cases, name, want_eval=want_eval)
        nv, ncf, kinds = validate(pid, cases, results, verd, ev, name, sig_extra={"family": name})
        if ncf and not optional:
            raise vlib.ToolError("%d hand-built %s programs do not compile" % (ncf, name))
        if optional:
            # a family whose programs the compiler may legitimately refuse (then nothing is asserted about them)
            ev.extra["family_%s_programs_refused_by_the_compiler" % name] = ncf
        ev.traces += nv
        for k, v in kinds.items():
            allkinds[k] = allkinds.get(k, 0) + v
        for c in cases:
            for run in c["runs"]:
                ev.case({"src": c["src"][:300], "ins": run}, True, key=vlib.shash([c["src"], run]))
    ev.extra["generated_programs_rejected_by_the_compiler"] = total_cf
    if total_prog and total_cf * 50 > total_prog:
        # the generator builds well-typed programs by construction (0 rejections on the pinned tree): more than 2 %
        # rejections mean a generator defect or a compiler that refuses valid programs - either way this run does not
        # decide the property
        raise vlib.ToolError("%d of %d generated (well-typed by construction) programs were rejected by the compiler" % (total_cf, total_prog))
    missing = [k for k in required_kinds if not any(x == k or x.startswith(k + ":") for x in allkinds)]
    if missing:
        raise vlib.ToolError("constructs never generated (vacuous run): %s" % missing)
    ev.extra["ast_node_kinds_executed"] = dict(sorted(allkinds.items()))
    ev.rule = rule
    ev.assumptions = assumptions
    ev.impl_actions.update(k.split(":")[0] for k in allkinds)
    for part in extra_parts:
        part(tier, ev, verd)
    rc = verd.finish()
    ev.write(len(verd.violations))
    return rc


# ---------------------------------------------------------------- operator / literal matrices (C01)

def _fn(rt, body_stmts, e):
    return {"types": [], "fns": {"main": {"ps": [], "pts": [], "rt": rt, "b": A.block(body_stmts, e)}}}


def _case(cid, prog, rt, runs):
    return {"id": cid, "prog": prog, "src": A.print_program(prog), "rt": rt, "runs": runs, "spec": A.spec_program(prog)}


FLOAT_EDGE = [A.fin(0, 0, 0), A.fin(1, 0, 0), A.fin(0, 1, 0), A.fin(1, 1, 0), A.fin(0, 1, -1), A.fin(0, 3, 0),
              A.fin(1, 5, -2), A.fin(0, 16777217, 0), {"c": "inf", "s": 0}, {"c": "inf", "s": 1}, {"c": "nan"}]


def matrix_cases(tier, base_id=100000):
    """One program per (type, operator); the runs are the operand pairs.  The expected value of every
    run is computed by TLC from RotoSem when the recorded executions are validated."""
    cases = []
    cid = base_id
    arith = ["add", "sub", "mul", "div", "rem"]
    cmp_ = ["eq", "ne", "lt", "le", "gt", "ge"]
    for ty in A.INT_TYS:
        edge = rotogen.edge_ints(ty)
        if tier == "quick":
            lo, hi = A.ty_min(ty), A.ty_max(ty)
            edge = sorted({0, 1, hi, lo, -1 if lo < 0 else 2, hi - 1, 7, lo + 1})
        pairs = [(a, b) for a in edge for b in edge]

        def runs(op, ty=ty, pairs=pairs):
            out = []
            for a, b in pairs:
                if op in ("div", "rem") and (b == 0 or (a == A.ty_min(ty) and b == -1 and ty in A.SIGNED)):
                    continue       # outside the language-defined domain (C10's business)
                out.append([{"ty": ty, "v": A.int_bytes(ty, a)}, {"ty": ty, "v": A.int_bytes(ty, b)}])
            return out
        a, b = A.host("in", ty, 0, []), A.host("in", ty, 1, [])
        for op in arith:
            cid += 1
            cases.append(_case(cid, _fn(ty, [], A.binop(op, ty, a, b)), ty, runs(op)))
            cid += 1
            x = "x1"
            cases.append(_case(cid, _fn(ty, [A.let(x, ty, a), {"k": "cset", "op": op, "ty": ty, "p": [x], "e": b}], A.var(x)),
                               ty, runs(op)))
        for op in cmp_:
            cid += 1
            cases.append(_case(cid, _fn("bool", [], A.binop(op, ty, a, b)), "bool", runs(op)))
        if ty in A.SIGNED:
            cid += 1
            cases.append(_case(cid, _fn(ty, [], A.un("neg", ty, a)), ty,
                               [[{"ty": ty, "v": A.int_bytes(ty, x)}] for x in edge]))
    for ty in A.FLOAT_TYS:
        edge = FLOAT_EDGE if ty == "f64" else [f for f in FLOAT_EDGE if not (f["c"] == "fin" and f["m"] > (1 << 24))]
        if tier == "quick":
            edge = edge[:5] + edge[-3:]
        a, b = A.host("in", ty, 0, []), A.host("in", ty, 1, [])

        def fruns(op, ty=ty, edge=edge):
            out = []
            for x in edge:
                for y in edge:
                    if op in ("add", "sub", "mul") and x["c"] == "fin" and y["c"] == "fin" and max(x["m"], y["m"]) > 64:
                        continue       # keep results exactly representable
                    if op == "div" and x["c"] == "fin" and y["c"] == "fin" and y["m"] not in (0, 1):
                        continue       # inexact quotients are outside the spec's domain
                    if op == "div" and x["c"] == "fin" and x["m"] > 64:
                        continue
                    out.append([{"ty": ty, "v": x}, {"ty": ty, "v": y}])
            return out
        for op in ["add", "sub", "mul", "div"]:
            cid += 1
            cases.append(_case(cid, _fn(ty, [], A.binop(op, ty, a, b)), ty, fruns(op)))
        for op in cmp_:
            cid += 1
            cases.append(_case(cid, _fn("bool", [], A.binop(op, ty, a, b)), "bool", fruns(op)))
        cid += 1
        cases.append(_case(cid, _fn(ty, [], A.un("neg", ty, a)), ty, [[{"ty": ty, "v": x}] for x in edge]))
    # booleans
    a, b = A.host("in", "bool", 0, []), A.host("in", "bool", 1, [])
    bruns = [[{"ty": "bool", "v": x}, {"ty": "bool", "v": y}] for x in (False, True) for y in (False, True)]
    for op in ["and", "or", "eq", "ne"]:
        cid += 1
        cases.append(_case(cid, _fn("bool", [], A.binop(op, "bool", a, b)), "bool", bruns))
    cid += 1
    cases.append(_case(cid, _fn("bool", [], A.un("not", "bool", a)), "bool", [[bruns[0][0]], [bruns[2][0]]]))
    return cases


def literal_cases(base_id=200000):
    """Literal typing: suffixes, context-fixed types, and the defaults (i32 / f64)."""
    cases = []
    cid = base_id

    def add(prog, rt, runs=None):
        nonlocal cid
        cid += 1
        cases.append(_case(cid, prog, rt, runs or [[]]))
    for ty in A.INT_TYS:
        hi = min(A.ty_max(ty), (1 << 63) - 1)
        for n in (0, 1, hi, hi - 1, hi // 3):
            # suffixed literal; unsuffixed literal whose type is fixed by an annotation / by the return type
            add(_fn(ty, [], A.ilit(ty, n)), ty)
            l2 = A.ilit(ty, n)
            l2["sfx"] = False
            add(_fn(ty, [A.let("x1", ty, l2)], A.var("x1")), ty)
            l3 = A.ilit(ty, n)
            l3["sfx"] = False
            add(_fn(ty, [], l3), ty)
            # wrap-around at the literal's type: lit * 3 + 1 computed at run time
            add(_fn(ty, [A.let("x1", ty, A.ilit(ty, n))],
                    A.binop("add", ty, A.binop("mul", ty, A.var("x1"), A.ilit(ty, 3)), A.ilit(ty, 1))), ty)
    # default integer type: nothing fixes the type of x, so it is i32 and 2147483647 + 1 wraps
    lx = A.ilit("i32", 2147483647)
    lx["sfx"] = False
    one = A.ilit("i32", 1)
    one["sfx"] = False
    l = A.let("x1", "i32", lx)
    l["ann"] = False
    l2 = A.let("y1", "i32", A.binop("add", "i32", A.var("x1"), one))
    l2["ann"] = False
    add(_fn("str", [l, l2], {"k": "fstr", "ps": [{"k": "e", "ty": "i32", "e": A.var("y1")}]}), "str")

    # default float type: f64 keeps 16777217.0 apart from 16777216.0, f32 would not
    def fl(ty, m, sfx):
        return {"k": "flit", "ty": ty, "m": m, "e": 0, "sfx": sfx}
    l = A.let("x1", "f64", fl("f64", 16777217, False))
    l["ann"] = False
    add(_fn("bool", [l], A.binop("eq", "f64", A.var("x1"), fl("f64", 16777216, False))), "bool")
    # explicit f32 rounds the literal to the nearest representable value (ties to even)
    for m in (16777217, 16777219, 16777216, 33554434, 33554438, 1, 3):
        add(_fn("f32", [], fl("f32", m, True)), "f32")
        add(_fn("f64", [], fl("f64", m, True)), "f64")
        lf = A.let("x1", "f32", fl("f32", m, False))
        add(_fn("f32", [lf], A.var("x1")), "f32")
    return cases


# ---------------------------------------------------------------- match matrix (C01 / C02 / C08)

def match_cases(base_id=300000):
    """Directed family for `match`: for enums with 2..5 variants (unit variants, one payload, two payloads) every
    single variant and every pair of variants named in the arms with `_` for the rest, in plain form, with a
    guarded arm in front of the unguarded one, and with a guarded `_` arm in front of the variant arms; the runs
    are every variant as the run-time examinee x the guard's value.  Expected values come from RotoSem."""
    import itertools
    cases = []
    cid = base_id
    u32 = lambda n: A.ilit("u32", n)
    for nv in (2, 3, 4, 5):
        payloads = [[], ["u32"], ["u32", "bool"], [], ["u32"]][:nv]
        tname = "M%d" % nv
        tdecl = {"k": "enum", "n": tname, "ps": [], "vs": [["W%d" % j, payloads[j]] for j in range(nv)]}
        ty = ["named", tname, []]

        def mk_value(j):
            args = [A.host("in", t, 2 + i, []) for i, t in enumerate(payloads[j])]
            return {"k": "ctor", "en": tname, "v": "W%d" % j, "args": args}
        # fn make(k: u8) -> M: chain of ifs
        e = mk_value(nv - 1)
        for j in range(nv - 2, -1, -1):
            e = A.if_(A.binop("eq", "u8", A.var("k"), A.ilit("u8", j)), A.block([], mk_value(j)), A.block([], e))
        make = {"ps": ["k"], "pts": ["u8"], "rt": ty, "b": A.block([], e)}

        def arm(j, tagbase, guard=None):
            bs = ["b%d" % i for i in range(len(payloads[j]))]
            body = u32(tagbase + j)
            if payloads[j]:
                body = A.binop("add", "u32", A.binop("mul", "u32", A.var(bs[0]), u32(100)), u32(tagbase + j))
            return {"v": "W%d" % j, "bs": bs, "g": [guard] if guard is not None else [], "b": A.host("emit", "u32", tagbase + j, [body])}

        def wild(tag, guard=None):
            return {"v": "_", "bs": [], "g": [guard] if guard is not None else [], "b": A.host("emit", "u32", tag, [u32(tag)])}
        subsets = [list(s) for s in itertools.combinations(range(nv), 1)] + \
                  [list(s) for s in itertools.permutations(range(nv), 2) if nv > 2]
        for sub in subsets:
            forms = ["plain"] if len(sub) == 2 else ["plain", "guarded_arm", "guarded_wild_first", "guarded_wild_between"]
            for form in forms:
                g = lambda: A.host("in", "bool", 1, [])
                if form == "plain":
                    arms = [arm(j, 10) for j in sub] + [wild(90)]
                elif form == "guarded_arm":
                    arms = [arm(sub[0], 20, g()), arm(sub[0], 10), wild(90)]
                elif form == "guarded_wild_first":
                    arms = [wild(80, g()), arm(sub[0], 10), wild(90)]
                else:
                    arms = [arm(sub[0], 20, g()), wild(80, A.host("emit", "bool", 70, [g()])), arm(sub[0], 10), wild(90)]
                body = A.block([A.let("e1", ty, {"k": "call", "f": "make", "args": [A.host("in", "u8", 0, [])]})],
                               {"k": "match", "e": A.var("e1"), "arms": arms})
                prog = {"types": [tdecl], "fns": {"make": make, "main": {"ps": [], "pts": [], "rt": "u32", "b": body}}}
                runs = []
                for j in range(nv):
                    for gv in ([False, True] if form != "plain" else [False]):
                        runs.append([{"ty": "u8", "v": A.int_bytes("u8", j)}, {"ty": "bool", "v": gv},
                                     {"ty": "u32", "v": A.int_bytes("u32", 7 + j)}, {"ty": "bool", "v": True}])
                cid += 1
                cases.append(_case(cid, prog, "u32", runs))
    return cases


def negmin_cases(base_id=400000):
    """`-128i8`, `-32768i16`, `-2147483648i32`: the only way to write the minimum of a signed type is the negation
    of a literal whose magnitude is one above the maximum; the literal wraps to the minimum and the negation of the
    minimum is the minimum (two's complement)."""
    cases = []
    cid = base_id
    for ty in ("i8", "i16", "i32"):
        mag = 1 << (8 * A.WIDTH[ty] - 1)
        l = A.lit(ty, A.int_bytes(ty, mag))
        neg = A.un("neg", ty, l)
        cid += 1
        cases.append(_case(cid, _fn(ty, [], neg), ty, [[]]))
        cid += 1
        cases.append(_case(cid, _fn("bool", [A.let("x1", ty, neg)], A.binop("eq", ty, A.var("x1"), A.host("in", ty, 0, []))), "bool",
                           [[{"ty": ty, "v": A.int_bytes(ty, -mag)}], [{"ty": ty, "v": A.int_bytes(ty, -mag + 1)}]]))
        cid += 1
        cases.append(_case(cid, _fn(ty, [], A.binop("add", ty, neg, A.host("in", ty, 0, []))), ty,
                           [[{"ty": ty, "v": A.int_bytes(ty, 1)}], [{"ty": ty, "v": A.int_bytes(ty, mag - 1)}]]))
    return cases


# ---------------------------------------------------------------- equality matrix on enums / records (C02)

def eq_cases(base_id=500000):
    """Directed family for `==` / `!=` on aggregates: enums with 2..5 variants (unit variants, one payload, two
    payloads, a String payload in one family), every pair of variants x equal / different payloads, compared
    directly, inside a record, and through `contains` on a list.  Expected values come from RotoSem."""
    cases = []
    cid = base_id
    for nv, with_str in ((2, False), (3, False), (4, False), (5, False), (3, True)):
        payloads = [[], ["u32"], ["u32", "bool"], [], ["u8"]][:nv]
        if with_str:
            payloads = [["str"], ["u8", "u32"], ["u32"]]
        tname = "E%d%s" % (nv, "s" if with_str else "")
        tdecl = {"k": "enum", "n": tname, "ps": [], "vs": [["W%d" % j, payloads[j]] for j in range(nv)]}
        ty = ["named", tname, []]
        rdecl = {"k": "record", "n": "R" + tname, "ps": [], "fs": [["a", "u8"], ["e", ty], ["z", "u32"]]}
        rty = ["named", "R" + tname, []]

        def value(j, pu, pb):
            args = []
            for t in payloads[j]:
                if t == "u32":
                    args.append(A.var(pu))
                elif t == "u8":
                    args.append(A.lit("u8", A.int_bytes("u8", 3)) if False else A.binop("add", "u8", A.lit("u8", A.int_bytes("u8", 1)), A.lit("u8", A.int_bytes("u8", 2))))
                elif t == "bool":
                    args.append(A.var(pb))
                else:
                    args.append(A.if_(A.var(pb), A.block([], A.lit("str", A.str_val("left"))), A.block([], A.lit("str", A.str_val("right")))))
            return {"k": "ctor", "en": tname, "v": "W%d" % j, "args": args}
        e = value(nv - 1, "p", "q")
        for j in range(nv - 2, -1, -1):
            e = A.if_(A.binop("eq", "u8", A.var("k"), A.ilit("u8", j)), A.block([], value(j, "p", "q")), A.block([], e))
        make = {"ps": ["k", "p", "q"], "pts": ["u8", "u32", "bool"], "rt": ty, "b": A.block([], e)}

        def mk(base):
            return {"k": "call", "f": "make", "args": [A.host("in", "u8", base, []), A.host("in", "u32", base + 1, []), A.host("in", "bool", base + 2, [])]}
        runs = []
        for i in range(nv):
            for j in range(nv):
                for (p1, q1, p2, q2) in ((7, True, 7, True), (7, True, 8, True), (7, True, 7, False), (0, False, 1 << 24, False)):
                    runs.append([{"ty": "u8", "v": A.int_bytes("u8", i)}, {"ty": "u32", "v": A.int_bytes("u32", p1)}, {"ty": "bool", "v": q1},
                                 {"ty": "u8", "v": A.int_bytes("u8", j)}, {"ty": "u32", "v": A.int_bytes("u32", p2)}, {"ty": "bool", "v": q2}])
        fns = {"make": make}
        for form in ("direct_eq", "direct_ne", "in_record", "list_contains"):
            if form == "direct_eq":
                body = A.block([A.let("x1", ty, mk(0)), A.let("y1", ty, mk(3))], A.binop("eq", "plain", A.var("x1"), A.var("y1")))
                types = [tdecl]
            elif form == "direct_ne":
                body = A.block([], A.binop("ne", "plain", mk(0), mk(3)))
                types = [tdecl]
            elif form == "in_record":
                r1 = {"k": "rec", "name": "R" + tname, "fs": [["a", A.ilit("u8", 1)], ["e", mk(0)], ["z", A.ilit("u32", 9)]]}
                r2 = {"k": "rec", "name": "R" + tname, "fs": [["a", A.ilit("u8", 1)], ["e", mk(3)], ["z", A.ilit("u32", 9)]]}
                body = A.block([A.let("x1", rty, r1), A.let("y1", rty, r2)], A.binop("eq", "plain", A.var("x1"), A.var("y1")))
                types = [tdecl, rdecl]
            else:
                lst = {"k": "list", "es": [{"k": "call", "f": "make", "args": [A.ilit("u8", 0), A.ilit("u32", 7), A.lit("bool", True)]}, mk(0)]}
                body = A.block([A.let("l1", ["list", ty], lst)], {"k": "lcall", "m": "contains", "r": A.var("l1"), "args": [mk(3)]})
                types = [tdecl]
            prog = {"types": types, "fns": dict(fns, main={"ps": [], "pts": [], "rt": "bool", "b": body})}
            cid += 1
            cases.append(_case(cid, prog, "bool", runs))
    return cases


def anonflow_cases(base_id=650000):
    """Directed family: ANONYMOUS record types ({f0: u8, f1: u32}, written structurally, never declared) meeting
    literals that list the fields in another order.  Shapes: field type mixtures of 1..4 fields whose layout depends on
    the order (different sizes / alignments); every permutation of the literal's field order (all for <= 3 fields,
    rotations and the reversal for 4); flows: the literal is an argument for a parameter of the type, the result of a
    function declared to return it, the initialiser of an annotated let, or first bound by an UN-annotated let and only
    then given to the parameter / the annotated let (its type is fixed after the fact).  Every field is emitted to the
    host log by name after the flow; expected values come from RotoSem (records are maps from field names to values:
    the order in which a literal lists them never matters)."""
    import itertools
    cases = []
    cid = base_id
    shapes = [["u8", "u32"], ["u32", "u8"], ["u64", "u8", "u16"], ["u8", "u64", "u8"], ["u16", "u8", "u32"], ["bool", "u64"],
              ["u8", "u16", "u32", "u64"], ["u64", "u8", "u32", "u8"], ["str", "u8"], ["u8", "str", "u32"], ["u32"]]
    for si, shape in enumerate(shapes):
        n = len(shape)
        an = "An%d" % si
        adecl = {"k": "record", "n": an, "ps": [], "fs": [["f%d" % i, shape[i]] for i in range(n)], "anon": True}
        aty = ["named", an, []]
        if n <= 3:
            perms = list(itertools.permutations(range(n)))
        else:
            perms = [tuple(range(n)), tuple(reversed(range(n)))] + [tuple((i + k) % n for i in range(n)) for k in range(1, n)] + [(1, 0, 3, 2)]
        last = n - 1
        scal = [i for i in range(n) if shape[i] != "str"]
        res_i = scal[-1]
        for perm in perms:
            for form in ("param", "param_let", "ret", "let", "let_let"):
                def lit(vals):
                    return {"k": "rec", "name": "", "fs": [["f%d" % i, vals[i]] for i in perm]}
                ins = [A.host("in", shape[i], i, []) for i in range(n)]
                emits = lambda src: [A.host("emit", shape[i], 50 + i, [{"k": "field", "e": src, "f": "f%d" % i}]) for i in range(n)]
                fns = {}
                if form in ("param", "param_let"):
                    fns["obs"] = {"ps": ["r"], "pts": [aty], "rt": shape[res_i],
                                  "b": A.block(emits(A.var("r")), {"k": "field", "e": A.var("r"), "f": "f%d" % res_i})}
                    if form == "param":
                        ss = []
                        call = {"k": "call", "f": "obs", "args": [lit(ins)]}
                    else:
                        ss = [dict(A.let("x", aty, lit(ins)), ann=False)]
                        call = {"k": "call", "f": "obs", "args": [A.var("x")]}
                    res = A.binop("eq", shape[res_i], call, A.host("in", shape[res_i], n, []))
                elif form == "ret":
                    ps = ["a%d" % i for i in range(n)]
                    fns["mk"] = {"ps": ps, "pts": list(shape), "rt": aty, "b": A.block([], lit([A.var(p_) for p_ in ps]))}
                    ss = [dict(A.let("z", aty, {"k": "call", "f": "mk", "args": ins}), ann=False)] + emits(A.var("z"))
                    res = A.binop("eq", shape[res_i], {"k": "field", "e": A.var("z"), "f": "f%d" % res_i}, A.host("in", shape[res_i], n, []))
                else:
                    if form == "let":
                        ss = [A.let("v", aty, lit(ins))]
                    else:
                        ss = [dict(A.let("x", aty, lit(ins)), ann=False), A.let("v", aty, A.var("x"))]
                    ss += emits(A.var("v"))
                    res = A.binop("eq", shape[res_i], {"k": "field", "e": A.var("v"), "f": "f%d" % res_i}, A.host("in", shape[res_i], n, []))
                fns["main"] = {"ps": [], "pts": [], "rt": "bool", "b": A.block(ss, res)}
                prog = {"types": [adecl], "fns": fns}
                runs = []
                for k in range(2):
                    vals = []
                    for i in range(n):
                        t = shape[i]
                        if t == "str":
                            vals.append({"ty": t, "v": A.str_val("s%d%d" % (i, k))})
                        elif t == "bool":
                            vals.append({"ty": t, "v": (i + k) % 2 == 0})
                        else:
                            vals.append({"ty": t, "v": A.int_bytes(t, (A.ty_max(t) - 3 * i - k) if (i + k) % 2 == 0 else (17 * (i + 1) + k))})
                    runs.append(vals + [vals[res_i] if k == 0 else ({"ty": shape[res_i], "v": False} if shape[res_i] == "bool"
                                                                   else {"ty": shape[res_i], "v": A.int_bytes(shape[res_i], 5)})])
                cid += 1
                cases.append(_case(cid, prog, "bool", runs))
    return cases


def aggcopy_cases(base_id=600000):
    """Directed family: aggregates of every size 1..48 bytes that are moved as a whole (bound by `let`, passed to
    a function, returned through the return slot, stored as a field of a bigger record, assigned over an existing
    value) and then read field by field.  Field mixtures: n equal fields of 1/2/4/8 bytes (n = 1..6) and mixed
    sequences whose total size is not a multiple of 4 or 8.  Every field value is an input, so each byte of the
    aggregate is distinguishable; every field is emitted to the host log after the moves and the last one decides
    the (scalar) result.  Expected values come from RotoSem."""
    cases = []
    cid = base_id
    shapes = [[t] * n for t in ("u8", "u16", "u32", "u64") for n in (1, 2, 3, 5, 6)]
    shapes += [["u8", "u32", "u8"], ["u32", "u16"], ["u64", "u8"], ["u16", "u8", "u8", "u32", "u8"], ["u64", "u32"],
               ["u32", "u64", "u16"], ["u8", "u8", "u8"], ["u64", "u64", "u32", "u8"]]
    for si, shape in enumerate(shapes):
        n = len(shape)
        rname, wname = "G%d" % si, "W%d" % si
        rdecl = {"k": "record", "n": rname, "ps": [], "fs": [["f%d" % i, shape[i]] for i in range(n)]}
        wdecl = {"k": "record", "n": wname, "ps": [], "fs": [["h", "u8"], ["g", ["named", rname, []]], ["t", "u16"]]}
        rty, wty = ["named", rname, []], ["named", wname, []]
        ps = ["a%d" % i for i in range(n)]
        mk = {"ps": ps, "pts": list(shape), "rt": rty,
              "b": A.block([], {"k": "rec", "name": rname, "fs": [["f%d" % i, A.var(ps[i])] for i in range(n)]})}
        passf = {"ps": ["r"], "pts": [rty], "rt": rty, "b": A.block([], A.var("r"))}
        ins = [A.host("in", shape[i], i, []) for i in range(n)]
        ins2 = [A.host("in", shape[i], n + i, []) for i in range(n)]
        last = n - 1
        for form in ("let_pass", "wrap", "assign"):
            if form == "let_pass":
                ss = [A.let("x", rty, {"k": "call", "f": "mk", "args": ins}), A.let("y", rty, A.var("x")),
                      A.let("z", rty, {"k": "call", "f": "pass", "args": [A.var("y")]})]
                src = A.var("z")
            elif form == "wrap":
                ss = [A.let("x", rty, {"k": "call", "f": "mk", "args": ins}),
                      A.let("w", wty, {"k": "rec", "name": wname, "fs": [["h", A.ilit("u8", 7)], ["g", A.var("x")], ["t", A.ilit("u16", 9)]]}),
                      A.let("v", wty, A.var("w")), A.let("z", rty, {"k": "field", "e": A.var("v"), "f": "g"})]
                src = A.var("z")
            else:
                ss = [A.let("z", rty, {"k": "call", "f": "mk", "args": ins2}),
                      {"k": "set", "p": ["z"], "e": {"k": "call", "f": "mk", "args": ins}}]
                src = A.var("z")
            tag = 50
            for i in range(n):
                ss.append(A.host("emit", shape[i], tag + i, [{"k": "field", "e": src, "f": "f%d" % i}]))
            res = A.binop("eq", shape[last], {"k": "field", "e": src, "f": "f%d" % last}, A.host("in", shape[last], 2 * n, []))
            prog = {"types": [rdecl, wdecl], "fns": {"mk": mk, "pass": passf, "main": {"ps": [], "pts": [], "rt": "bool", "b": A.block(ss, res)}}}
            if form == "let_pass":
                # the same aggregate as a script constant (and wrapped in a bigger constant): fields read directly off
                # the constant, also nested, from main and from a helper
                kvals = [A.ilit(shape[i], (min(A.ty_max(shape[i]), 2 ** 63 - 1) - 5 * i) if i % 2 == 0 else 11 * (i + 1)) for i in range(n)]   # the parser refuses integer literals above i64::MAX
                krec = {"k": "rec", "name": rname, "fs": [["f%d" % i, kvals[i]] for i in range(n)]}
                kw = {"k": "rec", "name": wname, "fs": [["h", A.ilit("u8", 7)], ["g", {"k": "kconst", "n": "KG", "ty": rty}], ["t", A.ilit("u16", 9)]]}
                consts = [{"n": "KW", "ty": wty, "e": kw, "late": False}, {"n": "KG", "ty": rty, "e": krec, "late": True}]
                kss = []
                for i in range(n):
                    kss.append(A.host("emit", shape[i], 70 + i, [{"k": "field", "e": {"k": "kconst", "n": "KG", "ty": rty}, "f": "f%d" % i}]))
                    kss.append(A.host("emit", shape[i], 80 + i, [{"k": "field", "e": {"k": "field", "e": {"k": "kconst", "n": "KW", "ty": wty}, "f": "g"}, "f": "f%d" % i}]))
                helper = {"ps": [], "pts": [], "rt": shape[last], "b": A.block([], {"k": "field", "e": {"k": "kconst", "n": "KG", "ty": rty}, "f": "f%d" % last})}
                kres = A.binop("eq", shape[last], {"k": "call", "f": "hk", "args": []}, A.host("in", shape[last], 0, []))
                kprog = {"types": [rdecl, wdecl], "consts": consts,
                         "fns": {"hk": helper, "main": {"ps": [], "pts": [], "rt": "bool", "b": A.block(kss, kres)}}}
                cid += 1
                cases.append(_case(cid, kprog, "bool", [[{"ty": shape[last], "v": kvals[last]["v"]}], [{"ty": shape[last], "v": A.int_bytes(shape[last], 1)}]]))
            runs = []
            for k in range(2):
                vals = [{"ty": shape[i], "v": A.int_bytes(shape[i], (A.ty_max(shape[i]) - 3 * i - k) if (i + k) % 2 == 0 else (17 * (i + 1) + k))} for i in range(n)]
                vals2 = [{"ty": shape[i], "v": A.int_bytes(shape[i], 1 + i)} for i in range(n)]
                runs.append(vals + vals2 + [vals[last] if k == 0 else {"ty": shape[last], "v": A.int_bytes(shape[last], 5)}])
            cid += 1
            cases.append(_case(cid, prog, "bool", runs))
    return cases


def flist_cases(base_id=700000):
    """Directed family: `==`, `!=` and `contains` on lists of floats.  Equality of lists is element-wise equality of
    the element type, which for floats is not equality of the bytes: -0.0 == 0.0, and a NaN equals nothing.  Every
    pair of two-element lists over {0.0, -0.0, NaN, 1.5, +inf} that differ in at most one position, both float
    widths; also one nesting level down (lists of lists of floats are not compared by the generator, so only the
    flat form is asserted).  A list is never compared with itself here: roto answers `a == a` from the identity of
    the handle (true also when a holds a NaN), the documentation does not say which it should be, so nothing is
    asserted about it.  Expected values come from RotoSem (FEq)."""
    cases = []
    cid = base_id
    vals = [A.fin(0, 0, 0), A.fin(1, 0, 0), {"c": "nan"}, A.fin(0, 3, -1), {"c": "inf", "s": 0}]
    for ty in ("f64", "f32"):
        lty = ["list", ty]
        la = {"k": "list", "es": [A.host("in", ty, 0, []), A.host("in", ty, 1, [])]}
        lb = {"k": "list", "es": [A.host("in", ty, 2, []), A.host("in", ty, 3, [])]}
        ss = [A.let("a", lty, la), A.let("b", lty, lb),
              A.host("emit", "bool", 10, [A.binop("eq", "flist", A.var("a"), A.var("b"))]),
              A.host("emit", "bool", 11, [A.binop("ne", "flist", A.var("a"), A.var("b"))]),
              A.host("emit", "bool", 13, [{"k": "lcall", "m": "contains", "ety": ty, "r": A.var("a"), "args": [A.host("in", ty, 4, [])]}])]
        res = A.binop("eq", "flist", A.var("b"), A.var("a"))
        prog = {"types": [], "fns": {"main": {"ps": [], "pts": [], "rt": "bool", "b": A.block(ss, res)}}}
        runs = []
        for x in vals:
            for y in vals:
                for z in vals:
                    # a = [x, y], b = [x, z] and b = [z, y]; the needle is z
                    runs.append([{"ty": ty, "v": v} for v in (x, y, x, z, z)])
                    runs.append([{"ty": ty, "v": v} for v in (x, y, z, y, z)])
        cid += 1
        cases.append(_case(cid, prog, "bool", runs))
    return cases
