"""Roto program ASTs shared by the TLA+ interpreter (spec/RotoSem.tla), the python program
generator and the pretty-printer to Roto source.

The AST is plain JSON (see RotoSem.tla for the node shapes).  This module contains NO
semantics: it builds well-typed trees, prints them, and converts values between the
harness representation and the specification's representation (pure encoding).
"""
import struct

INT_TYS = ["i8", "u8", "i16", "u16", "i32", "u32", "i64", "u64"]
FLOAT_TYS = ["f32", "f64"]
WIDTH = {"i8": 1, "u8": 1, "i16": 2, "u16": 2, "i32": 4, "u32": 4, "i64": 8, "u64": 8}
SIGNED = {"i8", "i16", "i32", "i64"}


# ------------------------------------------------------------------ value encoding

def int_bytes(ty, n):
    """python int (any sign, in range) -> little-endian byte list of the type's width"""
    w = WIDTH[ty]
    return list((n % (1 << (8 * w))).to_bytes(w, "little"))


def bytes_int(ty, b):
    n = int.from_bytes(bytes(b), "little")
    if ty in SIGNED and n >= 1 << (8 * len(b) - 1):
        n -= 1 << (8 * len(b))
    return n


def ty_min(ty):
    return -(1 << (8 * WIDTH[ty] - 1)) if ty in SIGNED else 0


def ty_max(ty):
    return (1 << (8 * WIDTH[ty] - 1)) - 1 if ty in SIGNED else (1 << (8 * WIDTH[ty])) - 1


def fin(s, m, e):
    """normalised dyadic record (-1)^s * m * 2^e"""
    if m == 0:
        return {"c": "fin", "s": s, "m": 0, "e": 0}
    while m % 2 == 0:
        m //= 2
        e += 1
    return {"c": "fin", "s": s, "m": m, "e": e}


def float_from_bits(ty, bits):
    """exact decode of IEEE bits into the specification's dyadic representation"""
    if ty == "f32":
        s, ex, fr, bias, fb = bits >> 31, (bits >> 23) & 0xFF, bits & 0x7FFFFF, 127, 23
        emax = 0xFF
    else:
        s, ex, fr, bias, fb = bits >> 63, (bits >> 52) & 0x7FF, bits & ((1 << 52) - 1), 1023, 52
        emax = 0x7FF
    if ex == emax:
        return {"c": "nan"} if fr else {"c": "inf", "s": s}
    if ex == 0:
        m, e = fr, 1 - bias - fb
    else:
        m, e = fr | (1 << fb), ex - bias - fb
    d = fin(s, m, e)
    if d["m"] >= 1 << 31:
        d["m"] = "big:%x" % d["m"]      # not representable in the spec: can never match
    return d


def float_to_py(d):
    if d["c"] == "nan":
        return float("nan")
    if d["c"] == "inf":
        return float("-inf") if d["s"] else float("inf")
    v = d["m"] * (2.0 ** d["e"])
    return -v if d["s"] else v


def float_bits(ty, d):
    x = float_to_py(d)
    if d["c"] == "fin" and d["m"] == 0 and d["s"] == 1:
        x = -0.0
    if ty == "f32":
        return struct.unpack("<I", struct.pack("<f", x))[0]
    return struct.unpack("<Q", struct.pack("<d", x))[0]


def str_val(s):
    return {"s": [ord(c) for c in s]}


# ------------------------------------------------------------------ AST constructors

def lit(ty, v):
    return {"k": "lit", "ty": ty, "v": v}


def ilit(ty, n):
    assert 0 <= n <= ty_max(ty), (ty, n)
    return lit(ty, int_bytes(ty, n))


def var(n):
    return {"k": "var", "n": n}


def un(op, ty, e):
    return {"k": "un", "op": op, "ty": ty, "e": e}


def binop(op, ty, l, r):
    return {"k": "bin", "op": op, "ty": ty, "l": l, "r": r}


def block(ss, e=None):
    return {"k": "block", "ss": ss, "e": [e] if e is not None else []}


def if_(c, t, e=None):
    return {"k": "if", "c": c, "t": t, "e": [e] if e is not None else []}


def let(n, ty, e):
    return {"k": "let", "n": n, "ty": ty, "e": e}


def host(f, ty, tag, args):
    return {"k": "host", "f": f, "ty": ty, "tag": tag, "args": args}


# ------------------------------------------------------------------ printing

OPS = {"add": "+", "sub": "-", "mul": "*", "div": "/", "rem": "%", "eq": "==", "ne": "!=", "lt": "<", "le": "<=",
       "gt": ">", "ge": ">=", "and": "&&", "or": "||"}


# anonymous record types of the program being printed: name -> fields (set by print_program)
ANON = {}


def roto_ty(ty):
    """type descriptor -> Roto type syntax. Descriptors: scalar name | 'str' | 'unit' | 'Tr' |
    ['opt', T] | ['list', T] | ['named', Name]"""
    if isinstance(ty, list):
        if ty[0] == "opt":
            return roto_ty(ty[1]) + "?"
        if ty[0] == "list":
            return "List[%s]" % roto_ty(ty[1])
        if ty[0] == "named":
            if ty[1] in ANON:
                return "{ %s }" % ", ".join("%s: %s" % (f, roto_ty(ft)) for f, ft in ANON[ty[1]])
            if len(ty) > 2 and ty[2]:
                return "%s[%s]" % (ty[1], ", ".join(roto_ty(x) for x in ty[2]))
            return ty[1]
        if ty[0] == "tv":
            return ["A", "B"][ty[1]]
    return {"str": "String", "unit": "()", "Tr": "Tr"}.get(ty, ty)


def esc_str(cps):
    out = []
    for c in cps:
        ch = chr(c)
        if ch == '"':
            out.append('\\"')
        elif ch == "\\":
            out.append("\\\\")
        elif ch == "\n":
            out.append("\\n")
        elif ch == "{":
            out.append("{")
        else:
            out.append(ch)
    return "".join(out)


def float_src(ty, d, suffix=True):
    if d["c"] != "fin":
        raise ValueError("special floats have no literal")
    x = d["m"] * (2.0 ** d["e"])
    s = repr(float(x))
    if "e" in s or "inf" in s:
        raise ValueError("unprintable float")
    return s + (ty if suffix else "")


class Printer:
    def __init__(self):
        self.ind = 0
        self.prog = None      # set by print_program: the function table (module / identifier of every function)
        self.cur_mod = ""     # the module whose text is being printed ("" = the root module `pkg`)

    def fn_path(self, key):
        """how the function `key` is written from the module being printed: functions live in the root module or
        in a sub-module `pkg.<mod>`, and two functions of different modules may have the same identifier"""
        f = (self.prog or {}).get(key) or {}
        ident, mod = f.get("ident", key), f.get("mod", "")
        if mod == self.cur_mod:
            return ident
        up = "pkg" if len(key) % 2 else "super"
        if self.cur_mod == "":
            return "%s.%s" % (mod, ident) if len(key) % 3 else "pkg.%s.%s" % (mod, ident)
        if mod == "":
            return "%s.%s" % (up, ident)
        return "%s.%s.%s" % (up, mod, ident)

    def lit(self, e):
        ty, v = e["ty"], e["v"]
        sfx = e.get("sfx", True)
        if ty in WIDTH:
            return "%d%s" % (int.from_bytes(bytes(v), "little"), ty if sfx else "")
        if ty in FLOAT_TYS:
            return float_src(ty, v, sfx)
        if ty == "bool":
            return "true" if v else "false"
        if ty == "char":
            return "'%s'" % (chr(v) if chr(v) not in "'\\" else "\\" + chr(v))
        if ty == "str":
            return '"%s"' % esc_str(v["s"])
        if ty == "unit":
            return "()"
        raise ValueError(ty)

    def op(self, e):
        """operand position: block-like expressions are parenthesised"""
        s = self.ex(e)
        if e["k"] in ("if", "block", "match", "while", "for", "ret", "set", "cset", "let"):
            return "(" + s + ")"
        return s

    def ex(self, e):
        k = e["k"]
        if k == "lit":
            return self.lit(e)
        if k == "var":
            return e["n"]
        if k == "gconst":
            return e["p"]
        if k == "kconst":
            return e["n"] if self.cur_mod == "" else "pkg." + e["n"]
        if k == "flit":
            assert e["e"] >= 0
            return "%d.0%s" % (e["m"] * (1 << e["e"]), e["ty"] if e.get("sfx", True) else "")
        if k == "un":
            return "(%s%s)" % ("-" if e["op"] == "neg" else "!", self.op(e["e"]))
        if k == "bin":
            return "(%s %s %s)" % (self.op(e["l"]), OPS[e["op"]], self.op(e["r"]))
        if k == "if":
            s = "if %s %s" % (self.ex(e["c"]), self.blk(e["t"]))
            if e["e"]:
                s += " else %s" % self.blk(e["e"][0])
            return s
        if k == "block":
            return self.blk(e)
        if k == "let":
            ann = ": %s" % roto_ty(e["ty"]) if e.get("ty") is not None and e.get("ann", True) else ""
            return "let %s%s = %s" % (e["n"], ann, self.ex(e["e"]))
        if k == "set":
            return "%s = %s" % (".".join(e["p"]), self.ex(e["e"]))
        if k == "cset":
            return "%s %s= %s" % (".".join(e["p"]), OPS[e["op"]], self.ex(e["e"]))
        if k == "while":
            return "while %s %s" % (self.ex(e["c"]), self.blk(e["b"]))
        if k == "for":
            return "for %s in %s %s" % (e["n"], self.ex(e["e"]), self.blk(e["b"]))
        if k == "call":
            return "%s(%s)" % (self.fn_path(e["f"]), ", ".join(self.ex(a) for a in e["args"]))
        if k == "host":
            f = e["f"]
            if f == "emit":
                return "emit_%s(%d, %s)" % (e["ty"], e["tag"], self.ex(e["args"][0]))
            if f == "in":
                return "in_%s(%d)" % (e["ty"], e["tag"])
            if f == "mk":
                return "mk(%d)" % e["tag"]
            if f == "use":
                return "use_tr(%s)" % self.ex(e["args"][0])
            if f == "optif":
                return "optif_%s(%d, %s, %s)" % (e["ty"], e["tag"], self.ex(e["args"][0]), self.ex(e["args"][1]))
            if f == "sel":
                recv = e["args"][0]
                rs = recv["n"] if recv.get("k") == "var" else "(%s)" % self.ex(recv)
                return "%s.selm(%d, %s)" % (rs, e["tag"], self.ex(e["args"][1]))
            if f == "tick":
                return "tick(%d)" % e["tag"]
        if k == "ret":
            form = e.get("form", "return")
            if form in ("accept", "reject"):
                inner = e["e"][0]["args"]
                return form + (" " + self.ex(inner[0]) if inner else "")
            return "return" + (" " + self.ex(e["e"][0]) if e["e"] else "")
        if k == "rec":
            body = ", ".join("%s: %s" % (f, self.ex(x)) for f, x in e["fs"])
            return "%s{ %s }" % ((e["name"] + " ") if e.get("name") else "", body)
        if k == "field":
            return "%s.%s" % (self.op(e["e"]), e["f"])
        if k == "ctor":
            q = (e["en"] + ".") if e.get("en") else ""
            return "%s%s%s" % (q, e["v"], "(%s)" % ", ".join(self.ex(a) for a in e["args"]) if e["args"] else "")
        if k == "match":
            arms = []
            for a in e["arms"]:
                pat = a["v"] + ("(%s)" % ", ".join(a["bs"]) if a["bs"] else "")
                g = " if %s" % self.ex(a["g"][0]) if a["g"] else ""
                arms.append("%s%s => %s," % (pat, g, self.ex(a["b"])))
            return "match %s { %s }" % (self.ex(e["e"]), " ".join(arms))
        if k == "try":
            return "%s?" % self.op(e["e"])
        if k == "list":
            return "[%s]" % ", ".join(self.ex(x) for x in e["es"])
        if k == "lcall":
            if e["m"] == "concat" and e.get("plus"):
                return "(%s + %s)" % (self.ex(e["r"]), self.ex(e["args"][0]))
            return "%s.%s(%s)" % (self.op(e["r"]), e["m"], ", ".join(self.ex(a) for a in e["args"]))
        if k == "fstr":
            s = ""
            for p in e["ps"]:
                if p["k"] == "s":
                    s += esc_str(p["v"]).replace("{", "{{").replace("}", "}}")
                else:
                    s += "{%s}" % self.op(p["e"])
            return 'f"%s"' % s
        if k == "tostr":
            return "%s.to_string()" % self.op(e["e"])
        raise ValueError("cannot print " + k)

    def blk(self, b):
        assert b["k"] == "block", b["k"]
        parts = [self.ex(s) + ";" for s in b["ss"]]
        if b["e"]:
            parts.append(self.ex(b["e"][0]))
        return "{ " + " ".join(parts) + " }"


def print_program(prog):
    """prog: {types: [decl...], fns: {name: {ps, pts, rt, b, kind}}} -> Roto source"""
    p = Printer()
    out = []
    ANON.clear()
    ANON.update({t["n"]: t["fs"] for t in prog.get("types", []) if t.get("anon")})
    for t in prog.get("types", []):
        if t.get("anon"):
            continue
        gen = "[%s]" % ", ".join(t["ps"]) if t.get("ps") else ""
        if t["k"] == "record":
            out.append("record %s%s { %s }" % (t["n"], gen, ", ".join("%s: %s" % (f, roto_ty(ft)) for f, ft in t["fs"])))
        else:
            vs = []
            for v, ts in t["vs"]:
                vs.append(v + ("(%s)" % ", ".join(roto_ty(x) for x in ts) if ts else ""))
            out.append("enum %s%s { %s }" % (t["n"], gen, ", ".join(vs)))
    # script constants: declaration order is free (some in front of the functions, some behind them)
    consts = prog.get("consts", [])
    tail = []
    for c in consts:
        line = "const %s: %s = %s;" % (c["n"], roto_ty(c["ty"]), p.ex(c["e"]))
        (tail if c.get("late") else out).append(line)
    p.prog = prog["fns"]
    mods = []
    for f in prog["fns"].values():
        if f.get("mod", "") not in mods:
            mods.append(f.get("mod", ""))
    mods = [""] + sorted(m for m in mods if m)
    for mod in mods:
        p.cur_mod = mod
        if mod:
            # a sub-module: its own file (the harness splits the text at these marker lines); the types of the
            # root module are imported, functions of other modules are called by path
            (tail if mod == mods[1] else tail).append("//@module %s" % mod)
            for t in prog.get("types", []):
                if not t.get("anon"):
                    tail.append("import pkg.%s;" % t["n"])
        dst = out if mod == "" else tail
        for name, f in prog["fns"].items():
            if f.get("mod", "") != mod:
                continue
            ident = f.get("ident", name)
            params = ", ".join("%s: %s" % (n, roto_ty(t)) for n, t in zip(f["ps"], f["pts"]))
            if f.get("kind") == "filtermap":
                dst.append("filtermap %s(%s) %s" % (ident, params, p.blk(f["b"])))
            else:
                rt = "" if f["rt"] == "unit" else " -> %s" % roto_ty(f["rt"])
                dst.append("fn %s(%s)%s %s" % (ident, params, rt, p.blk(f["b"])))
        if mod == "":
            # late constants of the root module come before the first sub-module marker
            out.extend(tail)
            tail = []
    return "\n".join(out + tail) + "\n"


# constants registered by the harness runtime (harness/src/bin/sem.rs): path -> (type, value)
GCONSTS = {"LIMIT": ("u32", 10), "FLAG": ("bool", True), "lo.LIMIT": ("u32", 11), "lo.BIAS": ("i64", -5), "lo.FLAG": ("bool", False),
           "hi.LIMIT": ("u32", 12), "hi.BIAS": ("i64", 7), "hi.er.LIMIT": ("u32", 13)}


def gconst_table():
    return {p: (v if t == "bool" else int_bytes(t, v)) for p, (t, v) in GCONSTS.items()}


def spec_program(prog):
    """the part of a program the specification needs: function table with parameter names and bodies, and the
    registry of host constants"""
    return {"fns": {n: {"ps": f["ps"], "b": f["b"]} for n, f in prog["fns"].items()}, "consts": gconst_table(),
            "kconsts": {c["n"]: c["e"] for c in prog.get("consts", [])}}
