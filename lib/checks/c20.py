"""C20 - the IR evaluator agrees with the compiled code or stops loudly.

Spec: LirAgree in spec/TraceSem.tla on top of spec/RotoSem.tla.  For every generated script (scalars,
records, enums, strings, host calls, helper functions incl. tail, non-tail, tree and mutual recursion) the cfg-guarded hook lowers the script ONCE,
runs the LIR evaluator on that lowered program (panics are caught) and then hands the very same
lowered program to the JIT.  Each event carries the compiled code's result and host-call log and the
evaluator's outcome; TLC accepts it iff the evaluator panicked or produced the same value and the
same host-call sequence - and the compiled outcome equals RotoSem.Eval (three-way, so a defect common
to both back ends is still seen).
"""
import json

import semlib
from checks import c20mem

PID = "C20"


def run(tier):
    fam = [("full", ["ints", "bool", "float", "str", "char", "rec", "enum", "opt", "loops", "calls", "recfn", "ret", "fstr", "hostopt", "evalsafe", "gconst"], 2, 700, 5000, 2),
           ("scalar", ["ints", "bool", "float", "char", "calls", "recfn", "ret", "evalsafe", "gconst"], 2, 600, 5000, 3),
           ("hostopt", ["bool", "str", "opt", "hostopt", "calls", "evalsafe", "gconst"], 2, 400, 4000, 3)]
    rc = semlib.run_sem_check(
        PID, tier, fam, want_eval=True,
        extra_cases=[("matrix", semlib.matrix_cases(tier)), ("aggcopy", semlib.aggcopy_cases())],
        rule=("cases = (lowered program, inputs) pairs executed by both the LIR evaluator and the JIT; distinct = distinct "
              "(source, inputs); non-trivial = source longer than one statement; the evidence lists how many evaluator runs "
              "completed with a value (the others panicked, which the property allows)"),
        assumptions=["main takes its inputs through host functions and returns a scalar",
                     "an evaluator panic (unsupported instruction, debug overflow check, unaligned access) is an allowed outcome"],
        required_kinds=["un:not", "bin:eq", "bin:lt", "un:neg", "bin:rem", "rec", "ctor", "match"],
        extra_parts=[c20mem.run_mem])
    return rc


def replay(path):
    try:
        obj = json.load(open(path)).get("replay") or {}
    except (OSError, ValueError):
        obj = {}
    if isinstance(obj, dict) and obj.get("part") == c20mem.PART:
        return c20mem.replay_mem(path)
    return run("quick")
