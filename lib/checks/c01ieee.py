"""IEEE-754 part of C01 (float arithmetic, negation, comparisons, compound forms of compiled scripts) and of
C17 (float built-ins abs / floor / ceil / round / sqrt / is_nan / is_infinite / is_finite) on ARBITRARY operand bit
patterns: inexact results, ties, subnormals, overflow, signed zeros, infinities and NaNs.

Spec: spec/Ieee.tla - binary32 / binary64 arithmetic with round-to-nearest-even, written definitionally
      (decode, exact wide result, ONE rounding function).  TLC is the oracle: python chooses OPERANDS only.
Step 0 (every run):
  (a) spec/MCIeee.tla: the same operators on tiny formats (all bit patterns fit one byte), exhaustively over all
      operand pairs, against an independent definition with plain integers (nearest representable value by search);
  (b) calibration: every vector is also evaluated with Rust's native f32/f64 (harness mode `calib`); an event the
      spec rejects although it carries the hardware's result is a TOOL ERROR "spec not calibrated", never a
      violation.
I->S: harness/src/bin/c01f.rs compiles ONE script with one function per (type, operation / route) and calls the
      functions through get_function with the operand bit patterns; each call is an event
      {fmt, op, a, b?, c?, r}; TLC (spec/TraceIeee.tla) accepts it iff r is the specified bit pattern / boolean
      (a NaN where a NaN is specified).  Events that are identical for the spec (several script routes of the same
      operation, or the native result being the same bits) are evaluated by TLC once.

Entry points (the Evidence / Verdicts objects belong to the caller, lib/checks/c01.py and c17.py):
    run_ieee(tier, ev, verd)            PID C01
    run_ieee_builtins(tier, ev, verd)   PID C17
    replay_ieee(obj)                    re-run one recorded violation (obj = the `replay` object)
Stand-alone: python3 lib/checks/c01ieee.py [--tier quick|thorough] [--part c01|c17|both]   (writes no evidence file)
"""
import json
import os
import random
import struct
import sys
import time
from concurrent.futures import ThreadPoolExecutor

if __name__ == "__main__":
    sys.path.insert(0, os.path.dirname(os.path.dirname(os.path.abspath(__file__))))
import vlib

FM = {32: dict(e=8, f=23, n=4), 64: dict(e=11, f=52, n=8)}
BUILTIN_OPS = ("abs", "sqrt", "floor", "ceil", "round", "is_nan", "is_infinite", "is_finite")
ARITH_OPS = ("add", "sub", "mul", "div")
CMP_OPS = ("eq", "ne", "lt", "le", "gt", "ge", "not_lt", "not_le", "not_gt", "not_ge")
# measured TLC cost per event in ms (only used to balance the parallel validation runs)
COST = {(32, "div"): 7, (64, "div"): 27, (32, "sqrt"): 7, (64, "sqrt"): 21, (32, "div3"): 8, (64, "div3"): 28,
        (32, "div10"): 8, (64, "div10"): 28, (32, "mul0_1"): 10, (64, "mul0_1"): 29, (64, "divmul"): 30,
        (32, "divmul"): 9, (64, "add"): 4, (64, "sub"): 5, (64, "muladd"): 6, (64, "mulsub"): 7, (64, "mix"): 7}
MC_FORMATS = {"quick": [(3, 2), (4, 2)], "thorough": [(3, 2), (4, 2), (4, 3), (2, 5), (3, 4)]}
TLC_PAR = 6          # concurrent single-worker TLC runs


# ------------------------------------------------------------------------------------------- bit patterns

def mk(fmt, s, ef, frac):
    p = FM[fmt]
    return (s << (p["e"] + p["f"])) | (ef << p["f"]) | frac


def tobytes(fmt, bits):
    return list(bits.to_bytes(FM[fmt]["n"], "little"))


def frombytes(b):
    return int.from_bytes(bytes(b), "little")


def of_float(fmt, x):
    """the bit pattern the host's decimal->binary conversion gives (an operand choice, e.g. 0.1-as-rounded)"""
    return frombytes(struct.pack("<f" if fmt == 32 else "<d", x))


def as_float(fmt, bits):
    return struct.unpack("<f" if fmt == 32 else "<d", bits.to_bytes(FM[fmt]["n"], "little"))[0]


def pow2(fmt, k):
    """2^k as a bit pattern (normal or subnormal)"""
    p = FM[fmt]
    bias = (1 << (p["e"] - 1)) - 1
    if k + bias >= 1:
        return mk(fmt, 0, k + bias, 0)
    return 1 << (k + bias - 1 + p["f"])


def neg(fmt, bits):
    return bits ^ (1 << (FM[fmt]["e"] + FM[fmt]["f"]))


def edge_values(fmt, tier):
    p = FM[fmt]
    e, f = p["e"], p["f"]
    emaxf = (1 << e) - 1
    bias = (1 << (e - 1)) - 1
    one = mk(fmt, 0, bias, 0)
    vals = [
        ("+0", 0), ("-0", neg(fmt, 0)),
        ("minsub", 1), ("-minsub", neg(fmt, 1)), ("3minsub", 3), ("maxsub", (1 << f) - 1), ("-maxsub", neg(fmt, (1 << f) - 1)),
        ("minnorm", mk(fmt, 0, 1, 0)), ("minnorm+", mk(fmt, 0, 1, 1)),
        ("1", one), ("-1", neg(fmt, one)), ("1+ulp", one + 1), ("1+3ulp", one + 3), ("1-ulp/2", one - 1),
        ("2", mk(fmt, 0, bias + 1, 0)), ("3", mk(fmt, 0, bias + 1, 1 << (f - 1))), ("10", of_float(fmt, 10.0)),
        ("0.5", mk(fmt, 0, bias - 1, 0)), ("0.5-", mk(fmt, 0, bias - 1, 0) - 1), ("1.5", mk(fmt, 0, bias, 1 << (f - 1))),
        ("2.5", of_float(fmt, 2.5)), ("-2.5", of_float(fmt, -2.5)), ("-0.5", neg(fmt, mk(fmt, 0, bias - 1, 0))),
        ("0.1", of_float(fmt, 0.1)), ("1/3", of_float(fmt, 1.0 / 3.0)),
        ("max", mk(fmt, 0, emaxf - 1, (1 << f) - 1)), ("-max", neg(fmt, mk(fmt, 0, emaxf - 1, (1 << f) - 1))),
        ("max/2+", mk(fmt, 0, emaxf - 2, 1)),
        ("halfulp(max)", pow2(fmt, emaxf - 1 - bias - f - 1)), ("halfulp(1)", pow2(fmt, -f - 1)),
        ("halfulp(1)+", pow2(fmt, -f - 1) + 1), ("quarterulp(1)", pow2(fmt, -f - 2)),
        ("+inf", mk(fmt, 0, emaxf, 0)), ("-inf", mk(fmt, 1, emaxf, 0)),
        ("qnan", mk(fmt, 0, emaxf, 1 << (f - 1))), ("-nan(payload)", mk(fmt, 1, emaxf, (1 << (f - 1)) | 5)),
        ("2^(p-1)", pow2(fmt, f)), ("2^p", pow2(fmt, f + 1)), ("2^p+2", pow2(fmt, f + 1) + 1), ("2^p-1", pow2(fmt, f + 1) - 1),
        ("2^(p-1)+0.5", pow2(fmt, f - 1) + 1), ("2^(p-1)-0.5", pow2(fmt, f) - 1),
        ("4", pow2(fmt, 2)), ("0.25", pow2(fmt, -2)), ("sqrt-max", pow2(fmt, (emaxf - 1 - bias + 1) // 2)),
        ("sqrt-min", pow2(fmt, (1 - bias) // 2)),
    ]
    if tier == "thorough":
        vals += [("-1-ulp", neg(fmt, one + 1)), ("7", of_float(fmt, 7.0)), ("1e10", of_float(fmt, 1e10)), ("1e-10", of_float(fmt, 1e-10)),
                 ("-3", neg(fmt, mk(fmt, 0, bias + 1, 1 << (f - 1)))), ("-10", of_float(fmt, -10.0)), ("2minnorm-", mk(fmt, 0, 2, 0) - 1),
                 ("snan", mk(fmt, 0, emaxf, 1)), ("max-", mk(fmt, 0, emaxf - 1, (1 << f) - 2)), ("minsub*2", 2),
                 ("1.25", mk(fmt, 0, bias, 1 << (f - 2))), ("0.75", mk(fmt, 0, bias - 1, 1 << (f - 1))), ("3.5", of_float(fmt, 3.5)),
                 ("-1.5", neg(fmt, mk(fmt, 0, bias, 1 << (f - 1)))), ("1e30", of_float(fmt, 1e30)), ("1e-30", of_float(fmt, 1e-30))]
    return vals


CMP_EDGE = ("+0", "-0", "minsub", "-minsub", "minnorm", "1", "-1", "1+ulp", "1-ulp/2", "2.5", "-2.5", "max", "-max", "+inf", "-inf",
            "qnan", "-nan(payload)", "0.1")
SMALL_EDGE = ("+0", "-0", "minsub", "1", "1+ulp", "-1", "3", "0.1", "max", "+inf", "qnan", "halfulp(1)")


class Gen:
    """seeded operand generators (operands only; what they give rise to is classified by the spec)"""

    def __init__(self, seed):
        self.r = random.Random(seed)

    def uniform(self, fmt):
        return self.r.getrandbits(8 * FM[fmt]["n"])

    def normal(self, fmt, lo=None, hi=None):
        """random sign and fraction, exponent field uniform in lo..hi (clipped to the normal range)"""
        p = FM[fmt]
        emaxf = (1 << p["e"]) - 1
        lo = 1 if lo is None else max(1, lo)
        hi = emaxf - 1 if hi is None else min(emaxf - 1, hi)
        if lo > hi:
            lo = hi = max(1, min(emaxf - 1, lo))
        return mk(fmt, self.r.getrandbits(1), self.r.randint(lo, hi), self.r.getrandbits(p["f"]))

    def subnormal(self, fmt):
        p = FM[fmt]
        k = self.r.randint(1, p["f"])
        return mk(fmt, self.r.getrandbits(1), 0, self.r.getrandbits(k) | 1)

    def near(self, fmt):
        """exponents differ by less than 60"""
        p = FM[fmt]
        a = self.normal(fmt)
        ea = (a >> p["f"]) & ((1 << p["e"]) - 1)
        d = self.r.choice([0, 0, 1, 1, 2, self.r.randint(0, 8), self.r.randint(0, p["f"] + 5), self.r.randint(0, 59)])
        return a, self.normal(fmt, ea - d, ea - d) if self.r.getrandbits(1) else self.normal(fmt, ea + d, ea + d)

    def add_tie(self, fmt):
        """b is half a unit in the last place of a, or a neighbour of that"""
        p = FM[fmt]
        bias = (1 << (p["e"] - 1)) - 1
        a = self.normal(fmt, p["f"] + 3, None)
        ea = ((a >> p["f"]) & ((1 << p["e"]) - 1)) - bias
        h = pow2(fmt, ea - p["f"] - 1)
        b = h + self.r.choice([0, 0, 0, 1, -1, h >> 1 if h >> p["f"] else 0])
        if self.r.getrandbits(1):
            b = neg(fmt, b)
        return (a, b) if self.r.getrandbits(1) else (b, a)

    def mul_tie(self, fmt):
        """an odd significand times a short one: products with exactly one bit too many"""
        p = FM[fmt]
        bias = (1 << (p["e"] - 1)) - 1
        a = self.normal(fmt, bias - 20, bias + 20) | 1
        b = mk(fmt, self.r.getrandbits(1), bias + self.r.randint(-3, 3), self.r.choice([1, 2, 3, 5, 6, 7]) << (p["f"] - 3))
        return (a, b) if self.r.getrandbits(1) else (b, a)

    def overflow_edge(self, fmt, op):
        p = FM[fmt]
        emaxf = (1 << p["e"]) - 1
        bias = (1 << (p["e"] - 1)) - 1
        if op in ("add", "sub"):
            a = self.normal(fmt, emaxf - 2, emaxf - 1)
            b = self.normal(fmt, emaxf - 2 - self.r.choice([0, 0, 1, p["f"], p["f"] + 1, p["f"] + 2]), None)
            b = (b & ~(1 << (p["e"] + p["f"]))) | (a & (1 << (p["e"] + p["f"])))
            if op == "sub":
                b = neg(fmt, b)
            return a, b
        if op == "mul":
            ea = self.r.randint(bias, emaxf - 1)
            return self.normal(fmt, ea, ea), self.normal(fmt, emaxf - 1 + bias - ea - 1, emaxf - 1 + bias - ea + 1)
        ea = self.r.randint(bias, emaxf - 1)                       # div: ea - eb ~ emax
        eb = ea - (emaxf - 1 - bias)
        return self.normal(fmt, ea, ea), (self.normal(fmt, eb - 1, eb + 1) if eb >= 1 else self.subnormal(fmt))

    def underflow_edge(self, fmt, op):
        p = FM[fmt]
        bias = (1 << (p["e"] - 1)) - 1
        if op in ("add", "sub"):
            a = self.normal(fmt, 1, 3) if self.r.getrandbits(1) else self.subnormal(fmt)
            b = self.normal(fmt, 1, 3) if self.r.getrandbits(1) else self.subnormal(fmt)
            return a, b
        target = self.r.randint(-p["f"] - 2, 2)                    # exponent field of the result around 0
        if op == "mul":
            ea = self.r.randint(1, 2 * bias - 2)
            eb = target + bias - ea
            if not 1 <= eb <= 2 * bias:
                ea = bias - 5
                eb = target + 5
            return self.normal(fmt, ea, ea), (self.normal(fmt, eb, eb) if eb >= 1 else self.subnormal(fmt))
        eb = self.r.randint(bias, 2 * bias)
        ea = target - bias + eb
        return (self.normal(fmt, ea, ea) if ea >= 1 else self.subnormal(fmt)), self.normal(fmt, eb, eb)

    def with_subnormal(self, fmt):
        a = self.subnormal(fmt)
        b = self.r.choice([self.subnormal(fmt), self.normal(fmt, 1, 40), self.normal(fmt), self.near(fmt)[0]])
        return (a, b) if self.r.getrandbits(1) else (b, a)

    def fractional(self, fmt):
        """values with some fraction bits: exponent between 2^-3 and 2^(f+2)"""
        p = FM[fmt]
        bias = (1 << (p["e"] - 1)) - 1
        return self.normal(fmt, bias - 3, bias + p["f"] + 2)

    def half_integer(self, fmt):
        """k + 0.5 for an integer k (ties of round), sometimes one unit in the last place off"""
        p = FM[fmt]
        k = self.r.randint(0, p["f"] - 1)                          # the 0.5 bit is fraction bit f - 1 - k
        bias = (1 << (p["e"] - 1)) - 1
        frac = (self.r.getrandbits(k) << (p["f"] - k)) | (1 << (p["f"] - 1 - k))
        v = mk(fmt, self.r.getrandbits(1), bias + k, frac)
        return v + self.r.choice([0, 0, 0, 1, -1])

    def square(self, fmt):
        """the square of a number with at most half the significand bits (an exact square root)"""
        p = FM[fmt]
        bias = (1 << (p["e"] - 1)) - 1
        half = (p["f"] + 1) // 2 - 1
        m = self.r.getrandbits(half) | (1 << (half - 1)) | 1
        sq = m * m
        n = sq.bit_length()
        frac = (sq << (p["f"] + 1 - n)) & ((1 << p["f"]) - 1)
        ex = 2 * self.r.randint(-(bias // 2) + 8, bias // 2 - 8) + n - 1
        return mk(fmt, 0, ex + bias, frac)


# ------------------------------------------------------------------------------------------------ events

def fn_table():
    r = vlib.run_bin("c01f", ["--list"], timeout=120)
    if r.outcome != "returned":
        raise vlib.ToolError("c01f --list failed: %s %s" % (r.outcome, r.err[-400:]))
    return json.loads(r.out)


def event(fn, a, b=None, c=None):
    fmt = fn["fmt"]
    e = {"fmt": fmt, "fn": fn["fn"], "op": fn["op"], "a": tobytes(fmt, a)}
    if b is not None:
        e["b"] = tobytes(fmt, b)
    if c is not None:
        e["c"] = tobytes(fmt, c)
    return e


def cancel_operand(fmt, op, a, b, g):
    """third operand of a compound form, chosen near the negated intermediate result so that the second operation
    cancels (an operand choice made with host arithmetic; the expected results still come from the spec)"""
    x, y = as_float(fmt, a), as_float(fmt, b)
    try:
        if op in ("muladd", "mulsub"):
            t = x * y
        elif op == "mix":
            t = x + y
        else:
            t = x / y if y != 0 else float("inf")
    except OverflowError:
        t = float("inf")
    if fmt == 32:
        try:
            t = struct.unpack("<f", struct.pack("<f", t))[0]
        except (OverflowError, struct.error):
            t = float("inf")
    if t != t or t in (float("inf"), float("-inf")):
        return g.uniform(fmt)
    if op == "divmul":
        bits = of_float(fmt, y)                                    # (a / b) * b
    elif op == "mulsub":
        bits = of_float(fmt, t)                                    # c - a * b with c ~ a * b
    else:
        bits = of_float(fmt, -t)
    mag = abs_bits(fmt, bits)
    if 2 < mag < mk(fmt, 0, (1 << FM[fmt]["e"]) - 1, 0) - 2:
        bits += g.r.choice([0, 0, 0, 1, -1, 2])       # sometimes a neighbour of the cancelling value
    return bits


def plan_c01(tier, table, g):
    q = tier == "quick"
    nrand = 30 if q else 400
    evs = []
    for fmt in (32, 64):
        edge = dict(edge_values(fmt, tier))
        ev = list(edge.values())
        fns = {f["fn"]: f for f in table if f["fmt"] == fmt and f["op"] not in BUILTIN_OPS}
        sfx = str(fmt)
        pairs = [(a, b) for a in ev for b in ev]
        rnd = {}
        for op in ARITH_OPS:
            ps = []
            for _ in range(nrand):
                ps.append((g.uniform(fmt), g.uniform(fmt)))
                ps.append(g.near(fmt))
                ps.append(g.near(fmt))
                ps.append(g.add_tie(fmt) if op in ("add", "sub") else g.mul_tie(fmt))
                ps.append(g.overflow_edge(fmt, op))
                ps.append(g.underflow_edge(fmt, op))
                ps.append(g.with_subnormal(fmt))
            rnd[op] = ps
        for op in ARITH_OPS:
            for (a, b) in pairs + rnd[op]:
                evs.append(event(fns[op + sfx], a, b))
            # the compound-assignment route: a sample of the edge pairs and all seeded pairs
            step = 5 if q else 1
            for (a, b) in pairs[g.r.randrange(step)::step] + rnd[op]:
                evs.append(event(fns[op + "as" + sfx], a, b))
        cedge = [edge[n] for n in CMP_EDGE] + ([] if q else [g.uniform(fmt) for _ in range(6)])
        cpairs = [(a, b) for a in cedge for b in cedge]
        for _ in range(nrand):
            a = g.uniform(fmt)
            cpairs += [(a, g.uniform(fmt)), (a, a), (a, a + 1 if a & 0xff != 0xff else a - 1), (a, neg(fmt, a)), g.near(fmt),
                       g.with_subnormal(fmt)]
        for f in fns.values():
            if f["op"] in CMP_OPS:
                for (a, b) in cpairs:
                    evs.append(event(f, a, b))
        un = ev + [g.uniform(fmt) for _ in range(nrand)] + [g.subnormal(fmt) for _ in range(5)]
        for a in un:
            evs.append(event(fns["neg" + sfx], a))
        for name in ("div3", "div10", "mul0_1"):
            for a in un + [g.normal(fmt) for _ in range(nrand * 3)] + [g.subnormal(fmt) for _ in range(nrand)] + \
                    [g.normal(fmt, 1, 4) for _ in range(nrand)]:
                evs.append(event(fns[name + sfx], a))
        small = [edge[n] for n in SMALL_EDGE]
        for name in ("muladd", "mulsub", "mix", "divmul"):
            f = fns[name + sfx]
            trip = [(a, b, c) for a in small for b in small for c in small]
            if q:
                trip = g.r.sample(trip, 300)
            for (a, b, c) in trip:
                evs.append(event(f, a, b, c))
            for _ in range(nrand * 4):
                a, b = g.near(fmt) if g.r.getrandbits(2) else (g.normal(fmt), g.normal(fmt))
                k = g.r.randrange(4)
                if k == 0:
                    c = g.near(fmt)[0]
                elif k == 1:
                    c = g.uniform(fmt)
                else:
                    c = cancel_operand(fmt, name, a, b, g)
                evs.append(event(f, a, b, c))
    return evs


def plan_c17(tier, table, g):
    q = tier == "quick"
    nrand = 60 if q else 800
    evs = []
    for fmt in (32, 64):
        ev = [v for (_, v) in edge_values(fmt, tier)]
        fns = {f["op"]: f for f in table if f["fmt"] == fmt and f["op"] in BUILTIN_OPS}
        base = ev + [neg(fmt, v) for v in ev]
        for op in BUILTIN_OPS:
            vals = list(base)
            if op in ("floor", "ceil", "round"):
                for _ in range(nrand):
                    vals += [g.fractional(fmt), g.half_integer(fmt), g.uniform(fmt)]
                vals += [g.subnormal(fmt) for _ in range(5)]
            elif op == "sqrt":
                n = nrand if fmt == 32 else max(20, nrand // 2)
                for _ in range(n):
                    vals += [g.uniform(fmt) & ~(1 << (FM[fmt]["e"] + FM[fmt]["f"])), g.square(fmt), abs_bits(fmt, g.normal(fmt))]
                vals += [g.subnormal(fmt) & ~(1 << (FM[fmt]["e"] + FM[fmt]["f"])) for _ in range(10)] + [g.uniform(fmt) for _ in range(10)]
            else:
                vals += [g.uniform(fmt) for _ in range(nrand)] + [g.subnormal(fmt) for _ in range(5)]
            for a in vals:
                evs.append(event(fns[op], a))
    return evs


def abs_bits(fmt, v):
    return v & ~(1 << (FM[fmt]["e"] + FM[fmt]["f"]))


# ------------------------------------------------------------------------------------------- step 0: MCIeee

def mc_selfcheck(pid, tier):
    """runs the tiny-format self checks; returns a list of (format, TlcResult, evaluations)"""
    d = vlib.workdir(pid, "cfg")
    fmts = MC_FORMATS[tier]
    workers = 3 if len(fmts) <= 2 else 2

    def one(ef):
        e, f = ef
        cfg = os.path.join(d, "MCIeee_%d_%d.cfg" % (e, f))
        with open(cfg, "w") as fh:
            fh.write(open(os.path.join(vlib.SPEC, "MCIeee.cfg")).read().replace("E = 4", "E = %d" % e).replace("F = 2", "F = %d" % f))
        txt = open(cfg).read()
        if "E = %d" % e not in txt or "F = %d" % f not in txt:
            raise vlib.ToolError("MCIeee.cfg does not have the expected shape")
        r = vlib.run_tlc("MCIeee", cfg, workers=workers, coverage=False, timeout=3000, heap="3g",
                         metadir=vlib.workdir("_tlc", "%s_MCIeee_%d_%d" % (pid, e, f), clean=True))
        return ef, r
    ex = ThreadPoolExecutor(max_workers=3)
    futs = [ex.submit(one, ef) for ef in fmts]
    return ex, futs


def mc_collect(ex, futs, ev, info):
    out = []
    for fut in futs:
        (e, f), r = fut.result()
        if r.invariant_violated:
            raise vlib.ToolError("MCIeee: spec/Ieee.tla disagrees with its reference definition on format E=%d F=%d:\n%s" %
                                 (e, f, "\n".join(r.stdout.splitlines()[-60:])))
        vlib.require_tlc_ok(r, "MCIeee E=%d F=%d" % (e, f))
        npat = 1 << (1 + e + f)
        if r.distinct != npat or len(r.replay) != npat:
            raise vlib.ToolError("MCIeee E=%d F=%d visited %d of %d bit patterns" % (e, f, r.distinct, npat))
        n = sum(x["n"] for x in r.replay)
        ev.add_tlc(r)
        r.replay = None
        out.append({"format": "E=%d,F=%d" % (e, f), "bit_patterns": npat, "operator_evaluations_compared": n,
                    "wall_s": round(r.wall, 1)})
    ex.shutdown()
    info["selfcheck_tiny_formats"] = out
    return out


# ---------------------------------------------------------------------------------------- running the harness

def run_events(pid, mode, evs, tag):
    """-> list aligned with evs: {'r': result} or the outcome record of a call that did not return
    ({'panic': ..} | {'hang': ..} | {'crash': ..}: data, reported by the caller)"""
    out = [None] * len(evs)
    size = max(50, (len(evs) + 15) // 16)
    groups = [list(range(i, min(i + size, len(evs)))) for i in range(0, len(evs), size)]
    cases = [{"mode": mode, "evs": [evs[i] for i in gidx]} for gidx in groups]
    res = vlib.run_batch("c01f", cases, nproc=min(8, len(cases)), pid=pid, tag="%s_%s" % (tag, mode), stall=60)
    retry = []
    for gidx, rr in zip(groups, res):
        if "r" in rr:
            if len(rr["r"]) != len(gidx):
                raise vlib.ToolError("c01f returned %d results for %d events" % (len(rr["r"]), len(gidx)))
            for i, v in zip(gidx, rr["r"]):
                out[i] = {"r": v}
        elif str(rr.get("panic", "")).startswith("harness:"):
            raise vlib.ToolError("c01f rejected a case: %s" % rr.get("panic"))
        elif mode == "calib":
            raise vlib.ToolError("native evaluation failed: %s" % str(rr)[:300])
        else:
            retry.extend(gidx)                 # some call in this group did not return: one event per case
    if retry:
        res = vlib.run_batch("c01f", [{"mode": mode, "evs": [evs[i]]} for i in retry], nproc=8, pid=pid,
                             tag="%s_%s_single" % (tag, mode), stall=60)
        for i, rr in zip(retry, res):
            if "r" in rr:
                out[i] = {"r": rr["r"][0]}
            elif str(rr.get("panic", "")).startswith("harness:"):
                raise vlib.ToolError("c01f rejected a case: %s" % rr.get("panic"))
            else:
                rr = dict(rr)
                rr.pop("i", None)
                out[i] = rr
    return out


def spec_key(e, r):
    return json.dumps([e["fmt"], e["op"], e["a"], e.get("b"), e.get("c"), r], separators=(",", ":"))


def spec_event(e, r):
    o = {"fmt": e["fmt"], "op": e["op"], "a": e["a"], "r": r}
    if "b" in e:
        o["b"] = e["b"]
    if "c" in e:
        o["c"] = e["c"]
    return o


# --------------------------------------------------------------------------------------------- TLC validation

def validate_all(pid, tier, uniq, ev, tag):
    """uniq: list of spec events.  Returns (classes, rejects): classes[i] = CLASS record of an accepted event,
    rejects[i] = the spec's answer for a rejected one."""
    d = vlib.workdir(pid, "ieee")
    cfgd = vlib.workdir(pid, "cfg")
    order = sorted(range(len(uniq)), key=lambda i: -COST.get((uniq[i]["fmt"], uniq[i]["op"]), 2))
    nparts = max(1, min(TLC_PAR * (1 if tier == "quick" else 3), len(uniq) // 200 + 1))
    parts = [[] for _ in range(nparts)]
    load = [0.0] * nparts
    for i in order:
        k = load.index(min(load))
        parts[k].append(i)
        load[k] += COST.get((uniq[i]["fmt"], uniq[i]["op"]), 2)
    classes, rejects, tlcs = {}, {}, []

    def one(k):
        idx = parts[k]
        cfg = os.path.join(cfgd, "TraceIeee_%s_%d.cfg" % (tag, k))
        with open(cfg, "w") as fh:
            fh.write(open(os.path.join(vlib.SPEC, "TraceIeee.cfg")).read())
        path = os.path.join(d, "trace_%s_%d.ndjson" % (tag, k))
        cls, rej, runs = {}, {}, []
        off = 0
        # run 1 stops at the first rejected event; run 2 (CONTINUE=1) goes through the rest and lists every
        # rejected event
        for attempt in (1, 2):
            rest = idx[off:]
            if not rest:
                break
            vlib.write_ndjson(path, [uniq[i] for i in rest])
            r = vlib.validate_trace("TraceIeee", cfg, path, timeout=3000, heap="3g", env={"CONTINUE": "1"} if attempt == 2 else None)
            runs.append(r)
            for (t, raw) in r.prints:
                if t == "CLASS":
                    c = json.loads(vlib._unescape_tla(raw))
                    cls[rest[c["i"] - 1]] = c
            for un in r.replay:
                rej[rest[un["line"] - 1]] = un["spec"]
            if r.ok:
                break
            if attempt == 1 and r.postcondition_failed and r.replay:
                off += r.replay[0]["line"]
                continue
            raise vlib.ToolError("trace validation failed to run: %s\n%s" % (r.error, r.stdout[-2000:]))
        vlib.write_ndjson(path, [uniq[i] for i in idx])
        for r in runs:
            r.prints = []
            r.stdout = ""
        return cls, rej, runs

    with ThreadPoolExecutor(max_workers=TLC_PAR) as ex:
        for cls, rej, runs in ex.map(one, range(nparts)):
            classes.update(cls)
            rejects.update(rej)
            tlcs.extend(runs)
    for r in tlcs:
        ev.add_tlc(r)
    missing = [i for i in range(len(uniq)) if i not in classes and i not in rejects]
    if missing:
        raise vlib.ToolError("%d events neither accepted nor rejected by TraceIeee" % len(missing))
    return classes, rejects


def kind_of(c):
    """finer than the signature's class: ties and NaN results are counted separately"""
    if c["n"]:
        return "nan-result"
    if c["t"] and c["c"] in ("inexact", "subnormal"):
        return "tie"
    return c["c"]


def show(fmt, b):
    if isinstance(b, bool):
        return str(b).lower()
    bits = frombytes(b)
    return "0x%0*x (%r)" % (2 * FM[fmt]["n"], bits, as_float(fmt, bits))


# ---------------------------------------------------------------------------------------------------- driver

def run_part(pid, tier, ev, verd, planner, required_kinds, what):
    t0 = time.time()
    info = {}
    vlib.build_harness(["c01f"])
    mc = mc_selfcheck(pid, tier)
    table = fn_table()
    g = Gen(vlib.seed() * 7 + (1 if pid == "C01" else 2))
    evs = planner(tier, table, g)
    wanted = {f["fn"] for f in table if (f["op"] in BUILTIN_OPS) == (pid == "C17")}
    used = {}
    for e in evs:
        used[e["fn"]] = used.get(e["fn"], 0) + 1
    if set(used) != wanted:
        raise vlib.ToolError("script functions never called: %s" % sorted(wanted ^ set(used)))
    roto = run_events(pid, "roto", evs, "ieee")
    native = run_events(pid, "calib", evs, "ieee")
    t_run = time.time() - t0

    # one TLC evaluation per distinct (fmt, op, operands, result)
    uniq, index = [], {}

    def uid(e, r):
        k = spec_key(e, r)
        if k not in index:
            index[k] = len(uniq)
            uniq.append(spec_event(e, r))
        return index[k]
    rid, nid = [], []
    for e, ro, na in zip(evs, roto, native):
        nid.append(uid(e, na["r"]))
        rid.append(uid(e, ro["r"]) if "r" in ro else None)
    classes, rejects = validate_all(pid, tier, uniq, ev, "%s_%s" % (pid, tier))
    t_tlc = time.time() - t0 - t_run

    # calibration: the hardware's results must be accepted by the spec
    bad = sorted({i for i in nid if i in rejects})
    if bad:
        u = uniq[bad[0]]
        raise vlib.ToolError("spec not calibrated: Ieee.tla rejects the hardware's result on %d vector(s), e.g. fmt=%d op=%s a=%s b=%s c=%s: "
                             "hardware %s, spec %s" % (len(bad), u["fmt"], u["op"], u["a"], u.get("b"), u.get("c"), u["r"],
                                                       json.dumps(rejects[bad[0]])))
    per_op, per_kind, per_fn = {}, {}, {}
    accepted = 0
    for e, ro, na, i in zip(evs, roto, native, rid):
        fmt = e["fmt"]
        rep = {"part": "ieee", "fmt": fmt, "fn": e["fn"], "op": e["op"], "a": e["a"], "b": e.get("b"), "c": e.get("c")}
        args = ", ".join(show(fmt, e[k]) for k in ("a", "b", "c") if k in e)
        if i is None:
            oc = vlib.outcome_of(ro)
            verd.report({"part": "ieee", "fmt": str(fmt), "op": e["op"], "kind_of_failure": oc.split(":")[0], "class": oc},
                        "%s(%s) [%s] did not return normally: %s %s" % (e["fn"], args, e["op"], oc, str(ro)[:200]), dict(rep, result=ro))
            continue
        if i in rejects:
            sp = rejects[i]
            rep.update(r=ro["r"], spec=sp, hardware=na["r"])
            want = "a NaN" if sp["nan"] else show(fmt, sp["v"])
            verd.report({"part": "ieee", "fmt": str(fmt), "op": e["op"], "kind_of_failure": "wrong-result", "class": sp["cls"]},
                        "%s(%s): IEEE-754 (%s, round to nearest even; spec/Ieee.tla) gives %s, the compiled script returned %s "
                        "[spec class: %s%s]" % (e["fn"], args, e["op"], want, show(fmt, ro["r"]), sp["cls"], ", tie" if sp["tie"] else ""),
                        rep)
            continue
        c = classes[i]
        accepted += 1
        k = kind_of(c)
        per_kind[k] = per_kind.get(k, 0) + 1
        key = "%s%d" % (e["op"], fmt)
        per_op.setdefault(key, {})
        per_op[key][k] = per_op[key].get(k, 0) + 1
        per_fn[e["fn"]] = per_fn.get(e["fn"], 0) + 1
        ev.case({"fn": e["fn"], "a": e["a"], "b": e.get("b"), "c": e.get("c"), "r": ro["r"], "class": k}, c["c"] != "exact" or c["n"],
                key=vlib.shash([e["fn"], e["a"], e.get("b"), e.get("c")]))
        ev.impl_actions.add("ieee:" + e["op"])
    ev.traces += accepted
    mc_collect(mc[0], mc[1], ev, info)
    # anti-vacuity: every kind of case must really have been validated
    if not verd.violations:
        miss = [k for k in required_kinds if per_kind.get(k, 0) == 0]
        if miss:
            raise vlib.ToolError("%s: no validated case of kind %s" % (what, miss))
        unex = sorted(f for f in wanted if per_fn.get(f, 0) == 0)
        if unex:
            raise vlib.ToolError("%s: script functions without an accepted event: %s" % (what, unex))
    info.update({
        "what": what,
        "script_functions": len(wanted),
        "events_recorded": len(evs),
        "events_accepted": accepted,
        "distinct_spec_events_evaluated_by_tlc": len(uniq),
        "calibration_vectors_hardware_result_accepted_by_spec": len(evs),
        "calibration_disagreements": 0,
        "hardware_and_roto_bitwise_equal": sum(1 for a, b in zip(rid, nid) if a == b),
        "validated_cases_by_kind": dict(sorted(per_kind.items())),
        "validated_cases_by_op_and_kind": {k: dict(sorted(v.items())) for k, v in sorted(per_op.items())},
        "validated_cases_by_script_function": dict(sorted(per_fn.items())),
        "rule": "case = one call of a compiled script function on operand bit patterns, accepted by TraceIeee.tla; kinds as "
                "classified by the spec (tie = exactly half-way, nan-result = the specified result is a NaN); non-trivial = "
                "the spec does not classify the case as `exact`",
        "wall_s": {"harness": round(t_run, 1), "tlc_validation": round(t_tlc, 1), "total": round(time.time() - t0, 1)},
        "nan_results": "only `is a NaN` is asserted for NaN results (sign and payload are not specified)",
    })
    ev.extra["ieee"] = info
    return info


C01_KINDS = ("exact", "inexact", "tie", "subnormal", "overflow", "special", "nan-result")
C17_KINDS = ("exact", "inexact", "tie", "subnormal", "special", "nan-result")


def run_ieee(tier, ev, verd):
    """C01: + - * / (also as compound assignment), unary minus, the comparisons (as values, as branch conditions,
    negated), compound expressions and literal constants as operands, for f32 and f64"""
    return run_part("C01", tier, ev, verd, plan_c01, C01_KINDS, "float arithmetic and comparisons (Ieee.tla)")


def run_ieee_builtins(tier, ev, verd):
    """C17: abs floor ceil round sqrt is_nan is_infinite is_finite of f32 and f64 (pow is not specified)"""
    return run_part("C17", tier, ev, verd, plan_c17, C17_KINDS, "float built-ins (Ieee.tla)")


def replay_ieee(obj, pid="C01"):
    """re-run one recorded violation: call the script function again and let TLC judge the result"""
    vlib.build_harness(["c01f"])
    e = {k: obj[k] for k in ("fmt", "fn", "op", "a", "b", "c") if obj.get(k) is not None}
    ro = run_events(pid, "roto", [e], "ieee_replay")[0]
    if "r" not in ro:
        print("replay: %s did not return normally: %s" % (e["fn"], ro))
        return 1
    d = vlib.workdir(pid, "ieee")
    p = os.path.join(d, "replay.ndjson")
    vlib.write_ndjson(p, [spec_event(e, ro["r"])])
    r = vlib.validate_trace("TraceIeee", "TraceIeee.cfg", p)
    if r.ok:
        print("replay: %s returned %s, accepted by Ieee.tla" % (e["fn"], show(e["fmt"], ro["r"])))
        return 0
    if r.postcondition_failed and r.replay:
        sp = r.replay[0]["spec"]
        print("replay: %s returned %s, Ieee.tla specifies %s [%s]" %
              (e["fn"], show(e["fmt"], ro["r"]), "a NaN" if sp["nan"] else show(e["fmt"], sp["v"]), sp["cls"]))
        return 1
    raise vlib.ToolError("trace validation failed to run: %s" % r.error)


def main():
    import argparse
    ap = argparse.ArgumentParser()
    ap.add_argument("--tier", default="quick", choices=["quick", "thorough"])
    ap.add_argument("--part", default="both", choices=["c01", "c17", "both"])
    a = ap.parse_args()
    rc = 0
    try:
        for part, pid, fn in (("c01", "C01", run_ieee), ("c17", "C17", run_ieee_builtins)):
            if a.part not in (part, "both"):
                continue
            ev = vlib.Evidence(pid, a.tier)          # never written: stand-alone runs leave no evidence file
            verd = vlib.Verdicts(pid)
            info = fn(a.tier, ev, verd)
            print(json.dumps(info, indent=1))
            print("states=%d transitions=%d traces=%d evaluations=%d distinct_nontrivial=%d" %
                  (ev.states, ev.transitions, ev.traces, ev.evaluations, len(ev.distinct)))
            rc = max(rc, verd.finish())
    except vlib.ToolError as ex:
        print("TOOL-ERROR %s" % ex, file=sys.stderr)
        return 2
    return rc


if __name__ == "__main__":
    sys.exit(main())
