"""C13 - names resolve to the item the module rules designate.

Spec: spec/Scopes.tla (file discovery -> module tree, scope graph, lookup rules with an
      order-independent import table), spec/MCScopes.tla (case generation), spec/TraceScopes.tla.
S->I: TLC enumerates configurations (file set x placement of the same-named items f/g/k x probing
      module x reference form x block levels) and computes for each the item the reference must
      designate (or err), the module tree and the set of exported functions.  Every configuration is
      rendered as a package, given to the real compiler in memory (FileSpec) and on disk
      (FileTree::read of a temporary directory); the tag returned through the reference, compile
      ok/err and get_function by module path for every function are compared with the spec.
I->S: seeded random configurations (deeper trees, three module names, up to four imports in
      arbitrary scopes and orders) are compiled by the harness; each observation is one trace event
      that TLC accepts iff Scopes.Expected of the logged configuration equals it (TraceScopes.tla).
This module only maps representations (abstract item <-> integer tag, configuration -> source text).
"""
import json
import os
import random

import vlib
from vlib import Evidence, Verdicts, run_tlc, require_tlc_ok

PID = "C13"
FAMILIES = ["path", "imp1", "list", "modimp", "chain", "shadow", "two", "other"]
CHAIN_TREES = ["c3full", "c3nob", "c3noa", "c3none"]
CHAIN_ORDERS = ["ZXY", "ZYX", "XZY", "XYZ", "YZX", "YXZ"]
FN_NAMES = ("f", "g")
PARAM_TAG = 950

# every lookup rule / outcome class of Scopes.Rule that must occur in the generated cases
REQUIRED_RULES = [
    "decl@0:ok",        # declaration of the innermost scope (local variable / parameter in the block of the reference)
    "import@0:ok",      # import of the innermost scope
    "decl@1:ok", "import@1:ok", "decl@2:ok", "import@2:ok", "decl@3:ok", "import@3:ok",  # outward
    "decl@1:err", "none:err",   # later segment is not a member / first segment not reachable
    "pkg:ok", "pkg:err", "super:ok", "super:err", "too-many-supers:err",
    "bad-import:err", "dup-module:err", "dup-alias:unspec",
]


# ------------------------------------------------------------------ representation mapping

def P(x):
    return tuple(x)


def file_path(e):
    d = list(e["dir"])
    return "/".join(d + [e["name"] + ".roto"]) if e["kind"] == "file" else "/".join(d + [e["name"], "mod.roto"])


def tag_table(case):
    """abstract item (module path, name) <-> integer tag (pure renaming)."""
    items = sorted((P(it["p"]), it["n"]) for it in case["items"])
    return {it: 100 + k for k, it in enumerate(items)}


def local_tag(case, i):
    for l in case["locals"]:
        if l["i"] == i:
            return PARAM_TAG if l["param"] else 900 + i
    return None


def tag_of(case, tags, it):
    """tag the probe returns when the reference designates abstract value `it`."""
    if it["k"] == "item":
        return tags[(P(it["p"]), it["n"])]
    if it["k"] == "local":
        return local_tag(case, it["i"])
    return None


def scope_key(sc):
    return (sc["t"], P(sc["p"]), sc["i"])


def render_imports(case, key, variant):
    """import statements of one scope in source order; grp > 0 = one list import."""
    imps = [im for im in case["imps"] if scope_key(im["sc"]) == key]
    out = []
    k = 0
    while k < len(imps):
        im = imps[k]
        if im["grp"] > 0:
            grp = [im]
            while k + 1 < len(imps) and imps[k + 1]["grp"] == im["grp"]:
                k += 1
                grp.append(imps[k])
            paths = [g["path"] for g in grp]
            n = 0
            while all(len(p) > n + 1 for p in paths) and len(set(p[n] for p in paths)) == 1:
                n += 1
            pre = paths[0][:n]
            leaves = []
            for j, p in enumerate(paths):
                rest = p[n:]
                if len(rest) > 1 and (variant + j) % 2 == 0:
                    leaves.append(".".join(rest[:-1]) + ".{" + rest[-1] + "}")   # nested list, same meaning
                else:
                    leaves.append(".".join(rest))
            out.append("import %s{%s};" % (".".join(pre) + "." if pre else "", ", ".join(leaves)))
        else:
            out.append("import %s;" % ".".join(im["path"]))
        k += 1
    return out


def render_ref(case):
    ref = case["ref"]
    s = ".".join(ref)
    return s + "()" if ref[-1] in FN_NAMES else s


SIB_FORMS = ["plain", "else", "then", "arm1", "arm2", "after"]


def place(form, inner_b, inner_s):
    """B(i) and its sibling scope S(i) inside the enclosing block, as the construct `form` (B is executed and is the
    value of the construct; S is type checked but never run or run for nothing)."""
    if form == "plain":
        return ("{ %s }; " % inner_s if inner_s else "") + "{ %s }" % inner_b
    s = inner_s or "0"
    if form == "else":
        return "if 1 == 2 { %s } else { %s }" % (s, inner_b)
    if form == "then":
        return "if 1 == 1 { %s } else { %s }" % (inner_b, s)
    if form == "arm1":
        return "match Option.Some(1) { Some(w9) => { %s } None => { %s } }" % (inner_b, s)
    if form == "arm2":
        return "match Option.Some(1) { None => { %s } Some(w9) => { %s } }" % (s, inner_b)
    if form == "after":
        return "let r9 = { %s }; { %s }; r9" % (inner_b, s)
    raise ValueError(form)


def render_probe(case, variant):
    depth = case["depth"]
    forms = case.get("forms") or ["plain"] * 3
    sibs = case.get("sibs") or []

    def stuff(i):
        s = render_imports(case, ("b", (), i), variant)
        for l in case["locals"]:
            if l["i"] == i and not l["param"]:
                s.append("let %s = %d;" % (l["n"], 900 + i))
        return s

    def sib_stuff(i):
        s = render_imports(case, ("s", (), i), variant)
        for l in sibs:
            if l["i"] == i:
                s.append("let %s = %d;" % (l["n"], 960 + i))
        return " ".join(s + ["0"]) if s else ""

    def has_stuff_from(i):
        return any(stuff(j) or sib_stuff(j) for j in range(i, 4))

    def closed(i):
        s = stuff(i)
        if i < 3 and has_stuff_from(i + 1):
            s.append(place("plain", closed(i + 1), sib_stuff(i + 1)) + ";")
        s.append("0")
        return " ".join(s)

    def block(i):
        s = stuff(i)
        if i == depth:
            if i < 3 and has_stuff_from(i + 1):
                s.append(place("plain", closed(i + 1), sib_stuff(i + 1)) + ";")
            s.append(render_ref(case))
        else:
            s.append(place(forms[i], block(i + 1), sib_stuff(i + 1)))     # forms[i]: the construct of level i + 1
        return " ".join(s)

    param = "p0"
    for l in case["locals"]:
        if l["param"]:
            param = l["n"]
    return "fn probe(%s: i32) -> i32 { %s }" % (param, block(1))


def module_source(case, tags, mp, variant):
    lines = []
    lines += render_imports(case, ("m", mp, 0), variant)
    for (p, n), t in sorted(tags.items()):
        if p == mp:
            lines.append("fn %s() -> i32 { %d }" % (n, t) if n in FN_NAMES else "const %s: i32 = %d;" % (n, t))
    if mp == P(case["site"]):
        lines.append(render_probe(case, variant))
    return "\n".join(lines) + "\n"


def harness_case(case, variant=0):
    tags = tag_table(case)
    site = P(case["site"])
    files = [{"path": "pkg.roto", "src": module_source(case, tags, (), variant)}]
    for e in sorted(case["files"], key=file_path):
        files.append({"path": file_path(e), "src": module_source(case, tags, P(e["dir"]) + (e["name"],), variant)})
    # in-memory route: the module tree the specification derived from the files
    mods = set(P(m) for m in case["mods"])

    def node(mp, name, kind):
        ch = []
        for e in sorted(case["files"], key=file_path):
            emp = P(e["dir"]) + (e["name"],)
            if P(e["dir"]) == mp and emp in mods and (kind == "mod" or mp == ()):
                ch.append(node(emp, e["name"], e["kind"]))
        return {"name": name, "src": module_source(case, tags, mp, variant), "dir": kind == "mod", "children": ch}

    mem = node((), "pkg", "mod")
    get = [".".join(list(e["p"]) + [e["n"]]) for e in case["exports"]]
    arg = PARAM_TAG
    return {"files": files, "mem": mem, "probe": ".".join(site + ("probe",)), "arg": arg, "get": sorted(get)}


def describe(case):
    return "%s: tree=%s site=%s imports=%s locals=%s depth=%d ref=%s" % (
        case.get("fam", "?"), sorted(file_path(e) for e in case["files"]), ".".join(["pkg"] + list(case["site"])),
        [(".".join(i["path"]), i["sc"]["t"] + str(i["sc"]["i"] or ".".join(["pkg"] + list(i["sc"]["p"]))))
         for i in case["imps"]],
        [(l["n"], l["i"], "param" if l["param"] else "let") for l in case["locals"]], case["depth"],
        ".".join(case["ref"])) + (" sibling-lets=%s forms=%s" % ([(l["n"], l["i"]) for l in case.get("sibs") or []], case.get("forms"))
                                  if (case.get("sibs") or (case.get("forms") or ["plain"] * 3) != ["plain"] * 3) else "")


def abstract(it):
    if it["k"] == "item":
        return "item %s" % ".".join(["pkg"] + list(it["p"]) + [it["n"]])
    if it["k"] == "local":
        return "local %s at block level %d" % (it["n"], it["i"])
    if it["k"] == "sib":
        return "local %s of the SIBLING scope of block level %d" % (it["n"], it["i"])
    return it["k"]


# ------------------------------------------------------------------------- comparison

def observed(case, tags, o):
    """observation of one route as an abstract value (inverse of tag_of); None = not expressible."""
    if o["compile"] == "err":
        kinds = o.get("kinds", [])
        if kinds != ["type"]:
            raise vlib.ToolError("rendered package was rejected with %s (%s): renderer bug?\n%s" %
                                 (kinds, o.get("msg"), json.dumps(harness_case(case))[:1500]))
        return {"k": "err", "p": [], "n": "", "i": 0}
    t = o["probe"]
    if not isinstance(t, int):
        return None
    for (p, n), v in tags.items():
        if v == t:
            return {"k": "item", "p": list(p), "n": n, "i": 0}
    for l in case["locals"]:
        if local_tag(case, l["i"]) == t:
            return {"k": "local", "p": [], "n": l["n"], "i": l["i"]}
    for l in case.get("sibs") or []:
        if 960 + l["i"] == t:
            return {"k": "sib", "p": [], "n": l["n"], "i": l["i"]}
    return None


def same(a, b):
    return a is not None and b is not None and a["k"] == b["k"] and list(a["p"]) == list(b["p"]) and a["n"] == b["n"] and a["i"] == b["i"]


def deviation_of(case, obs):
    """which deviation switch of the specification explains the observation (names the finding)"""
    alts = case.get("alts") or []
    if not alts:
        return "none"
    a = alts[0]
    if not isinstance(a, dict) or "impl" not in a:
        return "none"
    for key, nm in (("super", "super-lookup"), ("seq", "import-order"), ("pkg", "pkg-shadowed"), ("impl", "combination")):
        if same(a[key], obs):
            return nm
    return "none"


def compare(case, res, verd, stats):
    """Compare the observation of both routes with the specification's expectation."""
    oc = vlib.outcome_of(res)
    rep = {"case": case, "result": res}
    if oc != "returned":
        verd.report({"kind_of_failure": oc.split(":")[0], "fam": case.get("fam", "?")},
                    "compiler did not return normally (%s) on %s" % (oc, describe(case)), rep)
        return False
    tags = tag_table(case)
    exp = case["exp"]
    ok = True
    for route in ("mem", "disk"):
        o = res["r"][route]
        obs = observed(case, tags, o)
        if o["compile"] == "err":
            m = o.get("msg", "")
            cls = ("not-found" if "cannot find" in m else "supers" if "too many leading" in m else
                   "declared-twice" if "declared multiple times" in m else "other")
            stats["errmsg"][cls] = stats["errmsg"].get(cls, 0) + 1
        if exp["k"] == "unspec":
            continue
        if obs is None:
            verd.report({"kind_of_failure": "probe", "route": route},
                        "probe function not callable or returned an unknown tag %r on %s" % (o.get("probe"), describe(case)), rep)
            ok = False
            continue
        if not same(obs, exp):
            dev = deviation_of(case, obs)
            verd.report({"kind_of_failure": "wrong-resolution", "deviation": dev, "expected": exp["k"], "observed": obs["k"]},
                        "%s (%s): the rules designate %s, the compiler gives %s%s" %
                        (describe(case), route, abstract(exp), abstract(obs),
                         (" [" + o.get("msg", "") + "]") if obs["k"] == "err" else ""), rep)
            stats["dev"][dev] = stats["dev"].get(dev, 0) + 1
            ok = False
        if o["compile"] == "ok":
            for e in case["exports"]:
                name = ".".join(list(e["p"]) + [e["n"]])
                want = tags[(P(e["p"]), e["n"])] if e["present"] else None
                got = o["get"].get(name)
                if got != want:
                    verd.report({"kind_of_failure": "export", "route": route, "present": str(e["present"])},
                                "%s (%s): get_function(%r) must %s, got %r" %
                                (describe(case), route, name, "return the function with tag %s" % want if e["present"]
                                 else "fail (the file is not part of the module tree)", got), rep)
                    ok = False
    return ok


def rule_key(r):
    if r["first"] in ("decl", "import"):
        return "%s@%d:%s" % (r["first"], r["hops"], "ok" if r["ok"] else r["hit"])
    return "%s:%s" % (r["first"], "ok" if r["ok"] else r["hit"])


# ------------------------------------------------------------------------------ S -> I

def mc_cfg(path, trees, fams, disc, gmodes, nslices, slc):
    q = lambda xs: "{" + ", ".join('"%s"' % x for x in xs) + "}"
    with open(path, "w") as f:
        f.write("""SPECIFICATION MCSpec
CONSTANTS
  TreeIds = %s
  Families = %s
  Disc = "%s"
  GModes = %s
  NSlices = %d
  Slice = %d
INVARIANT Emit
CHECK_DEADLOCK FALSE
""" % (q(trees), q(fams), disc, q(gmodes), nslices, slc))


def plan(tier):
    """(name, trees, families, disc, gmodes, nslices, slice); nslices = 1: the bound is enumerated completely"""
    s = vlib.seed()
    if tier == "quick":
        return [("deep3", ["deep3"], FAMILIES, "small", ["same"], 1, 0),
                ("alias4", ["alias4"], FAMILIES, "none", ["same"], 16, s % 16),
                ("pkgdir", ["pkgdir"], ["path", "modimp"], "none", ["same"], 4, s % 4),
                ("chain3", CHAIN_TREES, ["chain3"], "none", ["same"], 1, 0),
                ("inout", ["io4"], ["inout"], "none", ["same"], 1, 0),
                ("sib", ["io4"], ["sib"], "none", ["same"], 8, s % 8),
                ("dotted", [], [], "dotted", ["same"], 1, 0),
                ("cycle", ["cyc4", "alias4"], ["cycle"], "none", ["same"], 4, s % 4)]
    return [("t3", ["deep3", "wide3", "dir3"], FAMILIES, "none", ["same"], 1, 0),
            ("wide3g", ["wide3"], ["list", "imp1"], "none", ["all"], 1, 0),
            ("alias4", ["alias4"], FAMILIES, "none", ["same"], 1, 0),
            ("pkgdir", ["pkgdir"], ["path", "imp1", "modimp", "chain"], "none", ["same"], 1, 0),
            ("chain3", CHAIN_TREES, ["chain3"], "none", ["same"], 1, 0),
            ("inout", ["io4"], ["inout"], "none", ["same"], 1, 0),
            ("sib", ["io4", "deep3"], ["sib"], "none", ["same"], 1, 0),
            ("mix4", ["mix4"], FAMILIES, "none", ["same"], 2, s % 2),
            ("full6", ["full6"], FAMILIES, "none", ["same"], 12, s % 12),
            ("full7", ["full7"], FAMILIES, "none", ["same"], 32, s % 32),
            ("disc", [], [], "full", ["same"], 1, 0),
            ("dotted", [], [], "dotted", ["same"], 1, 0),
            ("cycle", ["cyc4", "mix4", "alias4", "full6"], ["cycle"], "none", ["same"], 1, 0)]


def spec_to_impl(tier, ev, verd, stats):
    d = vlib.workdir(PID, "cfg")
    cases = []
    parts = []
    for (name, trees, fams, disc, gmodes, ns, sl) in plan(tier):
        cfg = os.path.join(d, "mc_%s_%s.cfg" % (tier, name))
        mc_cfg(cfg, trees, fams, disc, gmodes, ns, sl)
        r = run_tlc("MCScopes", cfg, workers=6, timeout=1800, heap="8g", coverage=False)
        require_tlc_ok(r, "MCScopes " + name)
        ev.add_tlc(r)
        cases.extend(r.replay)
        parts.append("%s: trees=%s disc=%s slice %d/%d -> %d configurations" % (name, trees, disc, sl, ns, len(r.replay)))
        vlib.log("C13: TLC %s: %d configurations in %.1fs" % (name, len(r.replay), r.wall))
    ev.extra["tlc_runs"] = parts
    # anti-vacuity: every family, every lookup rule / outcome class
    fam_count, rule_count, chain_count, ivo_count = {}, {}, {}, {}
    for c in cases:
        fam, _, order = c["fam"].partition(":")
        fam_count[fam] = fam_count.get(fam, 0) + 1
        k = rule_key(c["rule"])
        rule_count[k] = rule_count.get(k, 0) + 1
        if c["exp"]["k"] in ("item", "local") and c["rule"]["first"] == "import" and c["ivo"]["t"] != "none":
            # the reference is decided by an import although enclosing scopes DECLARE the same name (spec: InnerVsOuter)
            kind = "module" if len(c["ref"]) > 1 else c["ref"][0]
            where = "module-level" if c["ivo"]["t"] == "m" else "block-depth-%d" % c["ivo"]["i"]
            for dk in c["ivo"]["kinds"]:
                key = "%s:import@%s:outer-%s" % (kind, where, {"item": "module-item", "mod": "child-module", "local": "local"}[dk])
                ivo_count[key] = ivo_count.get(key, 0) + 1
        if fam == "chain3" and c["exp"]["k"] == "item":
            # which of the names the chain introduces are also reachable from the enclosing scope (spec: OuterNamesakes)
            lvl = "module" if c["imps"][0]["sc"]["t"] == "m" else "block"
            for nm in (sorted(c["outer"]) or ["none"]):
                key = "%s:%s:outer-%s" % (order, lvl, nm)
                chain_count[key] = chain_count.get(key, 0) + 1
    # sibling scopes: for every construct, cases in which a lookup leaking into the sibling would change the outcome
    sib_count = {}
    for c in cases:
        if c["fam"] == "sib" and c["sibsens"]:
            for lvl in (2, 3):
                f = c["forms"][lvl - 1]
                if f != "plain" or any(l["i"] == lvl for l in c["sibs"]) or any(im["sc"]["t"] == "s" and im["sc"]["i"] == lvl for im in c["imps"]):
                    key = "%s@%d:%s" % (f, lvl, c["exp"]["k"])
                    sib_count[key] = sib_count.get(key, 0) + 1
    ev.extra["sibling_scope_classes"] = sib_count
    missing = [f for f in FAMILIES + ["disc", "chain3", "chain2", "inout", "sib", "cycle"] if not fam_count.get(f)]
    missing += ["sibling " + k for k in ["%s@%d:%s" % (f, lvl, e) for f in SIB_FORMS for lvl in (2, 3) for e in ("item", "err")]
                if not sib_count.get(k)] + [r for r in REQUIRED_RULES if not rule_count.get(r)]
    # chain-3 x all six orders x same-named module/item in the enclosing scope for each introduced name (block level;
    # the enclosing scope of a module is the global scope, which holds none of these names), and without any
    missing += ["chain3 " + k for k in ["%s:block:outer-%s" % (o, nm) for o in CHAIN_ORDERS for nm in ("a", "b", "f", "none")]
                + ["%s:module:outer-none" % o for o in CHAIN_ORDERS] if not chain_count.get(k)]
    # inner import against outer declaration: every item kind, import in the function body (depth 1) and in a
    # nested block (depth 2), outer declaration at module level (fn / const / child module) and as a local
    need = []
    for kind, modlevel in (("f", "module-item"), ("g", "module-item"), ("k", "module-item"), ("module", "child-module")):
        need += ["%s:import@block-depth-1:outer-%s" % (kind, modlevel), "%s:import@block-depth-2:outer-%s" % (kind, modlevel),
                 "%s:import@block-depth-2:outer-local" % kind, "%s:import@block-depth-3:outer-local" % kind]
    missing += ["inner-import-vs-outer-declaration " + k for k in need if not ivo_count.get(k)]
    ev.extra["inner_import_vs_outer_declaration"] = ivo_count
    if missing:
        raise vlib.ToolError("reference forms / lookup rules never generated (vacuous run): %s (have %s)" % (missing, sorted(rule_count)))
    ev.extra["chain3_classes"] = chain_count
    ev.extra["reference_forms"] = fam_count
    ev.extra["lookup_rule_classes"] = rule_count
    hc = [harness_case(c, k) for k, c in enumerate(cases)]
    results = vlib.run_batch("c13", hc, nproc=8, pid=PID, tag="mc_" + tier, stall=60)
    for c, res in zip(cases, results):
        compare(c, res, verd, stats)
        small = {k: c[k] for k in ("fam", "files", "items", "site", "imps", "locals", "depth", "ref", "exp")}
        nontrivial = len(c["ref"]) > 1 or bool(c["imps"]) or bool(c["locals"]) or c["exp"]["k"] == "err"
        ev.case(small, nontrivial, key=vlib.shash(small))
        ev.traces += 1
    return len(cases)


# ------------------------------------------------------------------------------ I -> S

NAMES3 = ["a", "b", "c"]


def random_config(rng):
    """Seeded random configuration (no expectation): deeper trees, three names, more imports."""
    files, mods = [], [()]

    def grow(dirp, depth):
        for nm in NAMES3:
            x = rng.random()
            if x < 0.45:
                continue
            mp = dirp + (nm,)
            if depth < 3 and x > 0.72:
                files.append({"dir": list(dirp), "name": nm, "kind": "mod"})
                mods.append(mp)
                grow(mp, depth + 1)
            else:
                files.append({"dir": list(dirp), "name": nm, "kind": "file"})
                mods.append(mp)
                if rng.random() < 0.08 and depth < 3:   # stray directory without mod.roto next to name.roto
                    files.append({"dir": list(mp), "name": rng.choice(NAMES3), "kind": "file"})
    grow((), 1)
    if rng.random() < 0.04 and len(mods) > 1:   # name.roto and name/mod.roto
        m = rng.choice(mods[1:])
        kinds = {f["kind"] for f in files if P(f["dir"]) + (f["name"],) == m}
        files.append({"dir": list(m[:-1]), "name": m[-1], "kind": "mod" if "file" in kinds else "file"})
    if rng.random() < 0.1:    # directory without mod.roto
        free = [n for n in NAMES3 if (n,) not in mods]
        if free:
            files.append({"dir": [rng.choice(free)], "name": rng.choice(NAMES3), "kind": "file"})
    filemods = sorted({P(f["dir"]) + (f["name"],) for f in files} | {()})
    items = [{"p": list(m), "n": n} for m in filemods for n in ("f", "g", "k") if rng.random() < 0.75]
    has = {}
    for it in items:
        if P(it["p"]) in mods:
            has.setdefault(P(it["p"]), []).append(it["n"])
    site = rng.choice(mods)

    def pick_target():
        rich = [m for m in mods if m in has]
        if rich and rng.random() < 0.8:
            t = rng.choice(rich)
            return t, rng.choice(has[t])
        return rng.choice(mods), rng.choice(["f", "g", "k"])

    def write(t, frm):
        """some way of writing module t from module frm (often valid)"""
        x = rng.random()
        if x < 0.35 or (not frm and x < 0.5):
            return ["pkg"] + list(t)
        if x < 0.65 and frm:
            n = rng.randint(1, len(frm) + (1 if rng.random() < 0.08 else 0))
            anc = frm[:max(0, len(frm) - n)]
            rest = list(t[len(anc):]) if t[:len(anc)] == anc else list(t)
            return ["super"] * n + rest
        if t[:len(frm)] == frm:
            return list(t[len(frm):])
        return list(t[-1:]) if t else ["pkg"]

    def scope_mod(sc):
        return P(sc["p"]) if sc["t"] == "m" else site

    imps, aliases = [], []
    grp = 0

    def add(sc, path, g=0):
        if len(path) >= 2 and path[-1] not in ("pkg", "super"):
            imps.append({"sc": sc, "path": path, "grp": g})
            aliases.append(path[-1])

    for _ in range(rng.choice([0, 1, 1, 2, 2, 3])):
        x = rng.random()
        if x < 0.25:
            sc = {"t": "m", "p": list(rng.choice(mods)), "i": 0}
        elif x < 0.5:
            sc = {"t": "m", "p": list(site), "i": 0}
        else:
            sc = {"t": "b", "p": [], "i": rng.randint(1, 3)}
        frm = scope_mod(sc)
        t, name = pick_target()
        y = rng.random()
        if y < 0.12 and len(t) >= 2:
            # chain of three dependent imports in one scope, in any order
            trio = [write(t[:-1], frm), [t[-2], t[-1]], [t[-1], name]]
            rng.shuffle(trio)
            for pth in trio:
                add(sc, pth)
        elif y < 0.2 and t:
            # dependent imports: a module and an item through its alias, in either order
            pair = [write(t, frm), [t[-1], name]]
            if rng.random() < 0.5:
                pair.reverse()
            for p in pair:
                add(sc, p)
        elif y < 0.35 and t:
            add(sc, write(t, frm))                      # whole module
        elif y < 0.55:
            grp += 1
            mp = write(t, frm)
            for n2 in rng.sample(["f", "g", "k"], 2):
                add(sc, mp + [n2], grp)
        else:
            add(sc, write(t, frm) + [name])
    # sibling scopes: the other branch / another arm / a block before or after block level i
    sibs, forms = [], ["plain", "plain", "plain"]
    if rng.random() < 0.35:
        for i in rng.sample([2, 3], rng.choice([1, 1, 2])):
            forms[i - 1] = rng.choice(SIB_FORMS)
            if rng.random() < 0.6:
                sibs.append({"i": i, "n": rng.choice(["k", "k", "f", "a", "b"])})
            if rng.random() < 0.5:
                t, name = pick_target()
                sc = {"t": "s", "p": [], "i": i}
                add(sc, write(t, site) + ([name] if rng.random() < 0.75 or not t else []))
    locals_ = []
    if rng.random() < 0.3:
        for i in rng.sample([1, 2, 3], rng.choice([1, 1, 2])):
            locals_.append({"i": i, "n": rng.choice(["k", "k", "f", "a", "b"]), "param": i == 1 and rng.random() < 0.5})
    depth = rng.randint(1, 3)
    x = rng.random()
    t, name = pick_target()
    if locals_ and rng.random() < 0.6:
        name = rng.choice([l["n"] for l in locals_ if l["n"] in ("f", "k")] or ["k"])
    elif sibs and rng.random() < 0.6:
        name = rng.choice([l["n"] for l in sibs if l["n"] in ("f", "k")] or ["k"])
        if rng.random() < 0.7:
            depth = max(depth, max(l["i"] for l in sibs))
    mod_aliases = [a for a in aliases if a in NAMES3]
    item_aliases = [a for a in aliases if a not in NAMES3]
    up = [im for im in imps if im["sc"]["t"] == "m" and site and P(im["sc"]["p"]) == site[:len(P(im["sc"]["p"]))]
          and len(im["sc"]["p"]) < len(site)]
    if x < 0.12 and up:
        # through leading supers into an ancestor, naming something the ancestor imports
        im = rng.choice(up)
        al = im["path"][-1]
        ref = ["super"] * (len(site) - len(im["sc"]["p"])) + [al] + ([name] if al in NAMES3 else [])
    elif x < 0.35 and item_aliases:
        ref = [rng.choice(item_aliases)]
    elif x < 0.5 and mod_aliases:
        ref = [rng.choice(mod_aliases)] + ([rng.choice(NAMES3)] if rng.random() < 0.2 else []) + [name]
    elif x < 0.6:
        ref = [name]
    else:
        ref = write(t, site) + [name]
    return {"fam": "random", "files": files, "mods": [list(m) for m in mods], "items": items, "site": list(site),
            "imps": imps, "locals": locals_, "depth": depth, "ref": ref, "sibs": sibs, "forms": forms,
            "exports": [{"p": it["p"], "n": it["n"], "present": True} for it in items if it["n"] in FN_NAMES]}


def impl_to_spec(tier, ev, verd, stats):
    rng = random.Random(vlib.seed() * 13 + 5)
    n = 1500 if tier == "quick" else 12000
    cfgs = [random_config(rng) for _ in range(n)]
    # the in-memory route needs a module tree: the generator's own construction (strays excluded);
    # TLC checks the observation of BOTH routes against Modules(files) of the specification
    hc = [harness_case(c, k) for k, c in enumerate(cfgs)]
    results = vlib.run_batch("c13", hc, nproc=8, pid=PID, tag="rec_" + tier, stall=60)
    events = []
    for c, res in zip(cfgs, results):
        if vlib.outcome_of(res) != "returned":
            verd.report({"kind_of_failure": vlib.outcome_of(res).split(":")[0], "fam": "random"},
                        "compiler did not return normally (%s) on %s" % (vlib.outcome_of(res), describe(c)),
                        {"case": c, "result": res})
            continue
        tags = tag_table(c)
        for route in ("mem", "disk"):
            o = res["r"][route]
            obs = observed(c, tags, o)
            if obs is None:
                verd.report({"kind_of_failure": "probe", "route": route},
                            "probe function not callable or unknown tag %r on %s" % (o.get("probe"), describe(c)),
                            {"case": c, "result": res})
                continue
            got = []
            if o["compile"] == "ok":
                for e in c["exports"]:
                    name = ".".join(list(e["p"]) + [e["n"]])
                    t = o["get"].get(name)
                    if t is not None and t != tags[(P(e["p"]), e["n"])]:
                        verd.report({"kind_of_failure": "export", "route": route, "present": "wrong-tag"},
                                    "get_function(%r) returned another function (tag %r) on %s" % (name, t, describe(c)),
                                    {"case": c, "result": res})
                    got.append({"p": e["p"], "n": e["n"], "present": t is not None})
            events.append({"route": route, "files": c["files"], "items": c["items"], "site": c["site"], "imps": c["imps"],
                           "locals": c["locals"], "depth": c["depth"], "ref": c["ref"], "sibs": c["sibs"], "forms": c["forms"],
                           "obs": obs, "got": got})
            ev.impl_actions.add("observe:" + obs["k"])
    d = vlib.workdir(PID, "trace")
    path = os.path.join(d, "trace_%s.ndjson" % tier)
    accepted = 0
    start = 0
    guard = 0
    while start < len(events):
        guard += 1
        if guard > 8:
            # many rejected events (each is already reported as a violation): stop validating, never hide them
            ev.extra["trace_events_not_validated"] = len(events) - start
            break
        part = events[start:]
        vlib.write_ndjson(path, part)
        r = vlib.validate_trace("TraceScopes", "TraceScopes.cfg", path, timeout=1500, heap="6g")
        ev.add_tlc(r)
        for (tg, txt) in r.prints:
            if tg != "DEVIATION":
                continue
            dv = json.loads(vlib._unescape_tla(txt))
            e = dv["ev"]
            stats["dev"][dv["which"]] = stats["dev"].get(dv["which"], 0) + 1
            verd.report({"kind_of_failure": "wrong-resolution", "deviation": dv["which"], "expected": dv["exp"]["k"],
                         "observed": e["obs"]["k"]},
                        "recorded observation (%s) %s: the rules designate %s, the compiler gives %s" %
                        (e["route"], describe(dict(e, fam="random")), abstract(dv["exp"]), abstract(e["obs"])),
                        {"trace_event": e, "expected": dv["exp"]})
        if r.ok:
            accepted += len(part)
            break
        if r.postcondition_failed and r.replay:
            un = r.replay[0]
            accepted += un["line"] - 1
            e = un["ev"]
            verd.report({"kind_of_failure": "trace-rejected", "deviation": "none", "expected": un["exp"]["k"],
                         "observed": e["obs"]["k"]},
                        "recorded observation (%s) is not allowed by Scopes: %s: the rules designate %s (and these exports), "
                        "the compiler gives %s, exports %s" %
                        (e["route"], describe(dict(e, fam="random")), abstract(un["exp"]), abstract(e["obs"]), e["got"]),
                        {"trace_event": e, "expected": un["exp"]})
            start += un["line"]
            continue
        raise vlib.ToolError("trace validation failed to run: %s\n%s" % (r.error, r.stdout[-2000:]))
    ev.traces += accepted
    ev.extra["trace_events"] = len(events)
    ev.extra["trace_events_accepted"] = accepted
    return accepted


# -------------------------------------------------------------------------------- entry

def run(tier):
    ev = Evidence(PID, tier)
    verd = Verdicts(PID)
    stats = {"dev": {}, "errmsg": {}}
    vlib.build_harness(["c13"])
    ev.rule = ("case = one configuration (file set, placement of same-named f/g/k, probing module, imports with their "
               "scopes, locals, block depth, referenced path) emitted by TLC with Scopes.Expected, compiled in memory and "
               "from disk; distinct = distinct configurations; non-trivial = the reference has more than one segment, or "
               "an import or a local variable is in play, or the rules make it an error (i.e. everything except a bare "
               "name that is declared nowhere but in scope)")
    n = spec_to_impl(tier, ev, verd, stats)
    vlib.log("C13: replayed %d configurations" % n)
    impl_to_spec(tier, ev, verd, stats)
    ev.exhaustive = any(p[5] == 1 and p[1] for p in plan(tier))
    ev.extra["exhaustive_parts"] = [p[0] for p in plan(tier) if p[5] == 1]
    ev.extra["deviation_counts"] = stats["dev"]
    ev.extra["compile_error_headlines"] = stats["errmsg"]
    ev.assumptions = [
        "module names a/b (c in random traces), item names f, g (functions) and k (constant); names do not collide "
        "with runtime items or keywords",
        "exhaustive over the stated trees / file universes, reference families and block levels (bases sliced by "
        "VERIF_SEED where evidence.tlc_runs says slice k/n with n > 1); larger trees only by seeded random traces",
        "two imports of one scope introducing the same name: unspecified by the manual, only required not to crash",
        "types, enum variants, runtime modules and `std`/`dep` paths are not modelled",
    ]
    rc = verd.finish()
    ev.write(len(verd.violations))
    return rc


def replay(path):
    obj = json.load(open(path))["replay"]
    vlib.build_harness(["c13"])
    verd = Verdicts(PID)
    stats = {"dev": {}, "errmsg": {}}
    if "case" in obj:
        c = obj["case"]
        res = vlib.run_batch("c13", [harness_case(c)], nproc=1, pid=PID, tag="replay")
        for f in harness_case(c)["files"]:
            print("--- %s\n%s" % (f["path"], f["src"]), end="")
        print("expected:", abstract(c["exp"]), " observed:", json.dumps(res[0].get("r", res[0])))
        compare(c, res[0], verd, stats)
    elif "trace_event" in obj:
        d = vlib.workdir(PID, "trace")
        p = os.path.join(d, "replay.ndjson")
        # run the recorded configuration again (from disk: that route needs no module tree from python) and let TLC judge
        # the fresh observation
        e0 = obj["trace_event"]
        c = dict(e0, fam="random", mods=[[]], sibs=e0.get("sibs", []), forms=e0.get("forms", ["plain"] * 3),
                 exports=[{"p": it["p"], "n": it["n"], "present": True} for it in e0["items"] if it["n"] in FN_NAMES])
        res = vlib.run_batch("c13", [harness_case(c)], nproc=1, pid=PID, tag="replay")
        ev = dict(e0)
        if vlib.outcome_of(res[0]) == "returned":
            o = res[0]["r"]["disk"]
            obs = observed(c, tag_table(c), o)
            got = []
            if o["compile"] == "ok":
                for x in c["exports"]:
                    t = o["get"].get(".".join(list(x["p"]) + [x["n"]]))
                    got.append({"p": x["p"], "n": x["n"], "present": t is not None})
            if obs is not None:
                ev = dict(e0, route="disk", obs=obs, got=got, sibs=c["sibs"], forms=c["forms"])
                print("replay: fresh observation from disk:", abstract(obs))
        obj = dict(obj, trace_event=ev)
        vlib.write_ndjson(p, [obj["trace_event"]])
        r = vlib.validate_trace("TraceScopes", "TraceScopes.cfg", p)
        dev = [t for t in r.prints if t[0] == "DEVIATION"]
        if not r.ok or dev:
            verd.report({"kind_of_failure": "trace-rejected" if not r.ok else "wrong-resolution",
                         "deviation": json.loads(vlib._unescape_tla(dev[0][1]))["which"] if dev else "none",
                         "expected": obj["expected"]["k"], "observed": obj["trace_event"]["obs"]["k"]},
                        "recorded observation rejected by Scopes", obj)
    return verd.finish()
