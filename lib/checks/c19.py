"""C19 - the test runner and the CLI report outcomes truthfully.

Spec: spec/TestRunner.tla (+ MCTestRunner.tla, TraceTestRunner.tla).
S->I: TLC enumerates every package of two bounded families (api: 0..3 test blocks x
      accept/reject x declaration orders x 1-2 modules x functions of the same name x
      a call `n()` in a test body; cli: packages x broken scripts x variants of `main`
      x check/test/run invocations) and emits, per package, what TestRunner says must be
      observed: does it compile, the log of marks (order and multiplicity), the verdict of
      run_tests, the exit status class and the number of entry runs.  The packages are
      rendered to source, run through Package::run_tests in the harness (mark(k) host
      calls) or through the roto CLI built from /repo (marker lines on stdout) and the
      observations are compared.
      Disk families (disk / diskcli): the package is a DIRECTORY.  TLC enumerates the shape of
      the directory (subsets of MCTestRunner!DiskUniverse: pkg.roto, name.roto, name/mod.roto,
      nested module directories, files inside them, several sub-directories next to files,
      directories without mod.roto, files that are not Roto files, empty directories, no
      pkg.roto) x the order in which the entries are created x what is wrong in which file
      (rejecting test, missing test, type / syntax error; inside and outside the package) and
      computes from the documented discovery rules (TestRunner!LiveMods) which blocks run, the
      verdict and the exit status.  The directory is written (on a tmpfs if there is one: the
      listing order is then the reverse creation order), read back by FileTree::read in the
      harness / given to `roto check|test|run <dir>`.  The listing order the file system really
      produced is observed and must contain 'sub-directory before another module' and the converse.
I->S: seeded random packages (more tests, deeper module trees, more name collisions) are
      run the same way; the observed events (compile result, marks per test body, verdict,
      exit status) must be a behaviour of TestRunner (TLC trace validation).  A part of them are
      random package directories (random file / directory form per module, files outside the
      package, random creation order) read back from disk.
"""
import os
import random
import re
import shutil

import vlib
from vlib import Evidence, Verdicts, run_tlc, require_tlc_ok

PID = "C19"
MARK_RE = re.compile(r"C19MARK<(\d+)>")


# ----------------------------------------------------------------- rendering
# (representation mapping only: abstract package of TestRunner -> source text)

def nm(codes):
    return "".join(chr(c) for c in codes)


def mark_stmt(k, mode):
    return "mark(%d);" % k if mode == "api" else 'print("C19MARK<%d>");' % k


HELPERS = {
    "dbl": "fn c19_dbl(x: i32) -> i32 {\n    2 * x\n}\n",
    "maybe": "fn c19_maybe(x: i32) -> i32? {\n    Option.Some(x)\n}\n",
    "rec": "record C19Rec { x: i32 }\n",
}
BODY_NEEDS = {"fstr_i32": ["dbl"], "helper_call": ["dbl"], "fstr_option": ["maybe"], "match": ["maybe"],
              "fstr_record": ["rec"]}
FSTR_VALID = ("fstr_i32", "fstr_bool", "fstr_string")
FSTR_INVALID = ("fstr_option", "fstr_record", "fstr_list")


def body_form(form, i):
    """-> (statements, condition or None).  A valid form's condition holds in the language
    semantics; the block ends in its `out` when it holds and in the opposite verdict otherwise.
    Invalid forms (interpolation of a type without to_string) have no condition."""
    if form == "plain":
        return [], None
    if form == "fstr_i32":
        return ['let s = f"v={c19_dbl(%d)}";' % i], 's == "v=%d"' % (2 * i)
    if form == "fstr_bool":
        return ['let s = f"{%d > 0}!";' % i], 's == "true!"'
    if form == "fstr_string":
        return ['let w = "ab%d";' % i, 'let s = f"<{w}>";'], 's == "<ab%d>"' % i
    if form == "strcmp":
        return ['let a = "x" + "y%d";' % i], 'a == "xy%d" && a != "yx"' % i
    if form == "let_if":
        return ["let v = if %d > 0 { %d + 1 } else { 0 };" % (i, i)], "v == %d" % (i + 1)
    if form == "match":
        return ["let v = match c19_maybe(%d) {\n        Some(x) => x,\n        None => 0,\n    };" % i], "v == %d" % i
    if form == "helper_call":
        return [], "c19_dbl(%d) == %d" % (i, 2 * i)
    if form == "list_ops":
        return ["let l = [%d];" % i, "l.push(%d);" % (i + 1)], "l.len() == 2 && l.contains(%d)" % (i + 1)
    if form == "fstr_option":
        return ['let s = f"{c19_maybe(%d)}";' % i], None
    if form == "fstr_record":
        return ["let r = C19Rec { x: %d };" % i, 'let s = f"{r}";'], None
    if form == "fstr_list":
        return ["let l = [%d];" % i, 'let s = f"{l}";'], None
    raise vlib.ToolError("unknown body form %r" % form)


def render_test(i, t, mode):
    body = ["    " + mark_stmt(i, mode)]
    if t["call"]:
        body.append("    %s();" % nm(t["call"]))
    stmts, cond = body_form(t.get("body", "plain"), i)
    body += ["    " + x for x in stmts]
    if cond is None:
        body.append("    " + t["out"])
    else:
        other = "reject" if t["out"] == "accept" else "accept"
        body.append("    if %s {\n        %s\n    } else {\n        %s\n    }" % (cond, t["out"], other))
    return "test %s {\n%s\n}\n" % (nm(t["name"]), "\n".join(body))


def render_fn(j, f, mode):
    m = mark_stmt(100 + j, mode)
    n = nm(f["name"])
    if f["sig"] == "unit":
        return "fn %s() {\n    %s\n}\n" % (n, m)
    if f["sig"] == "param":
        return "fn %s(x: i32) {\n    %s\n}\n" % (n, m)
    if f["sig"] == "ret":
        return "fn %s() -> i32 {\n    %s\n    0\n}\n" % (n, m)
    raise vlib.ToolError("unknown sig %r" % (f,))


def layout(pkg, mode):
    """-> list of (module path, [(kind, index, text)]), root first, parents before children.
    kind: "test" | "fn" | "helper" | "type" | "broken".  Tests keep their declaration order (the
    order of pkg.tests).  pkg.fnpos says where functions and helper declarations stand: before all
    tests of the file ("first"), after them ("last") or at pseudo-random places between them
    ("mixed"); sibling module files are in shuffled order.  None of this may influence what the
    specification expects."""
    disk = pkg.get("disk") or []
    # (the seed of the in-memory packages does not depend on the fields that only disk packages use)
    rng = random.Random(vlib.shash(pkg if disk else {k: v for k, v in pkg.items() if k not in ("disk", "brokenAt")}))
    if disk:
        # a package directory: the texts are those of the FILES of pkg.disk (entry.mod names the file)
        mods = [tuple(nm(x) for x in e["mod"]) for e in disk if e["ext"] != "dir"]
    else:
        mods = [tuple(nm(x) for x in m) for m in pkg["mods"]]
    tests = {m: [] for m in mods}
    others = {m: [] for m in mods}
    needs = {m: [] for m in mods}
    for i, t in enumerate(pkg["tests"], start=1):
        m = tuple(nm(x) for x in t["mod"])
        tests[m].append(("test", i, render_test(i, t, mode)))
        for h in BODY_NEEDS.get(t.get("body", "plain"), []):
            if h not in needs[m]:
                needs[m].append(h)
    for j, f in enumerate(pkg["funcs"], start=1):
        others[tuple(nm(x) for x in f["mod"])].append(("fn", j, render_fn(j, f, mode)))
    for m in mods:
        for h in needs[m]:
            others[m].append(("type" if h == "rec" else "helper", 0, HELPERS[h]))
        rng.shuffle(others[m])
    items = {}
    fnpos = pkg.get("fnpos", "mixed")
    for m in mods:
        if fnpos == "first":
            items[m] = others[m] + tests[m]
        elif fnpos == "last":
            items[m] = tests[m] + others[m]
        else:
            items[m] = list(tests[m])
            for o in others[m]:
                items[m].insert(rng.randrange(len(items[m]) + 1), o)
    if pkg["broken"] != "none":
        m = tuple(nm(x) for x in pkg["brokenAt"]) if disk else rng.choice(mods)
        bad = "fn broken_( {\n" if pkg["broken"] == "syntax" else "fn broken_() -> u64 {\n    true\n}\n"
        items[m].insert(rng.randrange(len(items[m]) + 1), ("broken", 0, bad))
    if disk:
        return [(m, items[m]) for m in mods]          # the order of pkg.disk
    # parents before children, siblings in shuffled order
    order = []

    def visit(m):
        order.append(m)
        kids = [c for c in mods if len(c) == len(m) + 1 and c[:len(m)] == m]
        rng.shuffle(kids)
        for c in kids:
            visit(c)
    visit(())
    if len(order) != len(mods):
        raise vlib.ToolError("module tree not closed under parents: %r" % (mods,))
    return [(m, items[m]) for m in order]


def render_pkg(pkg, mode):
    """-> list of {"mod": [names], "src": text} (see layout)"""
    return [{"mod": list(m), "src": "\n".join(x[2] for x in its)} for m, its in layout(pkg, mode)]


def entry_path(e):
    """relative path of a directory entry of a disk package"""
    name = nm(e["stem"]) + ("" if e["ext"] == "dir" else "." + e["ext"])
    return "/".join([nm(x) for x in e["dir"]] + [name])


def render_disk(pkg, mode):
    """disk package -> [{"path": relative path, "kind": "file"|"dir", "src": text}] in the order of
    pkg.disk (= the order in which the entries are to be created)."""
    texts = {m: "\n".join(x[2] for x in its) for m, its in layout(pkg, mode)}
    out = []
    for e in pkg["disk"]:
        if e["ext"] == "dir":
            out.append({"path": entry_path(e), "kind": "dir", "src": ""})
        else:
            out.append({"path": entry_path(e), "kind": "file", "src": texts[tuple(nm(x) for x in e["mod"])]})
    return out


def render_any(pkg, mode):
    return render_disk(pkg, mode) if pkg.get("disk") else render_pkg(pkg, mode)


def api_case(pkg, tmpfs=True):
    """the harness case of a package: in-memory tree, or a directory written below disk_base() (or in the
    system's temporary directory) and read back"""
    if pkg.get("disk"):
        return {"disk": render_disk(pkg, "api"), "base": disk_base() if tmpfs else None}
    return {"files": render_pkg(pkg, "api")}


_DISK_BASE = []


def disk_base():
    """Where package directories are written: a tmpfs when there is one (there the file system lists
    a directory in the reverse order of creation, so the creation order TLC enumerates is the listing
    order), else the work directory (ext4: hash order of the names).  What order really occurred is
    observed, see listing_features."""
    if not _DISK_BASE:
        import atexit
        import tempfile
        d = None
        if os.path.isdir("/dev/shm") and os.access("/dev/shm", os.W_OK) and os.environ.get("VERIF_C19_NO_TMPFS") != "1":
            try:
                d = tempfile.mkdtemp(prefix="verif_c19_", dir="/dev/shm")
                atexit.register(shutil.rmtree, d, True)
            except OSError:
                d = None
        if d is None:
            d = vlib.workdir(PID, "disk", clean=True)
        _DISK_BASE.append(d)
    return _DISK_BASE[0]


def scan_listing(root):
    """{relative directory: names in the order the file system lists them} (an observation)"""
    out = {}
    todo = [""]
    while todo:
        rel = todo.pop()
        names = []
        with os.scandir(os.path.join(root, rel) if rel else root) as it:
            for ent in it:
                names.append(ent.name)
                if ent.is_dir(follow_symlinks=False):
                    todo.append(rel + "/" + ent.name if rel else ent.name)
        out[rel] = names
    return out


def positions(pkg):
    """where the test blocks ended up: {test index: set of "first"|"middle"|"last"|"only" within
    its file (among items that are type checked: tests, functions)}, and the index of the test
    that is the last such item of the last file (or None)."""
    lay = layout(pkg, "api")
    pos = {}
    for m, its in lay:
        chk = [x for x in its if x[0] != "type"]
        for k, x in enumerate(chk):
            if x[0] == "test":
                pos[x[1]] = ("only" if len(chk) == 1 else "first" if k == 0 else
                             "last" if k == len(chk) - 1 else "middle")
    last = None
    for m, its in reversed(lay):
        chk = [x for x in its if x[0] != "type"]
        if chk:
            last = chk[-1][1] if chk[-1][0] == "test" else None
            break
    return pos, last


LISTINGS = {}       # package directory written for the CLI -> scan_listing


def write_cli_pkg(pkg, root, key):
    """Write the package below `root`; returns the path to pass to the CLI."""
    if pkg.get("disk"):
        d = os.path.join(root, "k_%s" % key)
        os.makedirs(d)
        for ent in render_disk(pkg, "cli"):
            p = os.path.join(d, ent["path"])
            if ent["kind"] == "dir":
                os.makedirs(p, exist_ok=True)
            else:
                os.makedirs(os.path.dirname(p), exist_ok=True)
                with open(p, "w") as f:
                    f.write(ent["src"])
        LISTINGS[d] = scan_listing(d)
        return d
    files = render_pkg(pkg, "cli")
    rng = random.Random(key)
    if len(files) == 1 and rng.random() < 0.7:
        p = os.path.join(root, "s_%s.roto" % key)
        with open(p, "w") as f:
            f.write(files[0]["src"])
        return p
    d = os.path.join(root, "d_%s" % key)
    os.makedirs(d, exist_ok=True)
    have_children = {tuple(f["mod"][:-1]) for f in files if f["mod"]}
    for fl in files:
        m = fl["mod"]
        if not m:
            p = os.path.join(d, "pkg.roto")
        elif tuple(m) in have_children:
            p = os.path.join(d, *m, "mod.roto")
        else:
            p = os.path.join(d, *m[:-1], m[-1] + ".roto")
        os.makedirs(os.path.dirname(p), exist_ok=True)
        with open(p, "w") as f:
            f.write(fl["src"])
    return d


# ------------------------------------------------------------- classification

def entry_class(e, live):
    """where a file of a package directory sits (classification only; `live` is TLC's)"""
    depth = len(e["dir"])
    stem = nm(e["stem"])
    if not live:
        return "outside_" + e["ext"]
    if stem == "pkg":
        return "root"
    if stem == "mod":
        return "dirmod" if depth == 1 else "nested_dirmod"
    return "file" if depth == 0 else "file_in_dir" if depth == 1 else "deep_file"


def module_dirs(pkg, live):
    """{directory (tuple of names) that is a module directory: (names of the entries in it that are
    modules: x.roto / x, names of all sub-directories)}: from the entries and TLC's `live`"""
    disk = pkg["disk"]
    mdirs = {()}
    for e, lv in zip(disk, live):
        if lv and nm(e["stem"]) == "mod":
            mdirs.add(tuple(nm(x) for x in e["dir"]))
    out = {d: (set(), set()) for d in mdirs}
    for e, lv in zip(disk, live):
        d = tuple(nm(x) for x in e["dir"])
        stem = nm(e["stem"])
        for k in range(len(d)):                       # every directory on the way exists
            if d[:k] in out:
                out[d[:k]][1].add(d[k])
        if e["ext"] == "dir" and d in out:
            out[d][1].add(stem)
        if lv and stem == "mod" and d[:-1] in out:
            out[d[:-1]][0].add(d[-1])
        elif lv and stem != "pkg" and d in out:
            out[d][0].add(stem + ".roto")
    return out


def disk_features(case):
    """situations of the disk families (shape of the directory, where what is wrong)"""
    pkg, cmd, live = case["pkg"], case["cmd"], case["live"]
    disk = pkg["disk"]
    fs = set()
    cls = {}
    for e, lv in zip(disk, live):
        if e["ext"] == "dir":
            fs.add("disk:made_dir")
            continue
        c = entry_class(e, lv)
        cls[tuple(map(tuple, e["mod"]))] = c
        fs.add("disk:has:" + c)
    if not any(nm(e["stem"]) == "pkg" for e in disk):
        fs.add("disk:no_root")
    for d, (mods, subdirs) in module_dirs(pkg, live).items():
        msub = {x for x in mods if x in subdirs}
        mfile = mods - msub
        if len(msub) >= 2:
            fs.add("disk:two_module_subdirs")
        if msub and mfile:
            fs.add("disk:module_subdir_next_to_module_file")
        if (subdirs - msub) and mods:
            fs.add("disk:other_subdir_next_to_module")
        if len(subdirs) >= 2 and mfile:
            fs.add("disk:several_subdirs_next_to_files")
        if d and mods:
            fs.add("disk:modules_inside_module_dir")
    # what is wrong where
    wrong = []
    for t in pkg["tests"]:
        if t["out"] == "reject":
            wrong.append("reject@" + cls[tuple(map(tuple, t["mod"]))])
    if pkg["broken"] != "none":
        wrong.append(pkg["broken"] + "@" + cls[tuple(map(tuple, pkg["brokenAt"]))])
    have = {tuple(map(tuple, t["mod"])) for t in pkg["tests"]}
    for m, c in cls.items():
        if m not in have:
            wrong.append("notest@" + c)
    for w in wrong:
        fs.add("disk:" + w)
    if len(wrong) >= 2:
        fs.add("disk:two_wrong")
    kind = cmd["kind"]
    if kind != "api":
        what = ("no_root" if "disk:no_root" in fs else
                "entry@" + cls[tuple(map(tuple, cmd["mod"]))] if cmd["explicit"] else
                "+".join(sorted(wrong)) if wrong else "clean")
        fs.add("diskcli:%s%s:%s:%s" % (kind, "+path" if cmd["explicit"] else "", case["exit"], what))
    elif case["compiles"]:
        fs.add("disk:verdict_" + case["verdict"])
        if len(case["log"]) >= 2:
            fs.add("two_or_more_run")
    else:
        fs.add("disk:rejected")
    return fs


def listing_features(pkg, live, listing):
    """In which order the file system really listed the entries of the module directories (an
    observation of the operating system, made by the harness / by python after writing)."""
    fs = set()
    for d, (mods, subdirs) in module_dirs(pkg, live).items():
        names = listing.get("/".join(d))
        if names is None:
            continue
        pos = {n: k for k, n in enumerate(names)}
        for sd in subdirs:
            for m in mods:
                if m == sd or sd not in pos or m not in pos:
                    continue
                fs.add("listing:subdir_before_module" if pos[sd] < pos[m] else "listing:module_before_subdir")
                if m in subdirs:
                    fs.add("listing:subdir_before_module_subdir")
    return fs


LIVE_CLASSES = ["root", "file", "dirmod", "file_in_dir", "nested_dirmod"]
OUTSIDE_CLASSES = ["outside_roto", "outside_txt"]
DISK_SHAPES_REQUIRED = ["disk:has:" + c for c in LIVE_CLASSES + OUTSIDE_CLASSES] + [
    "disk:made_dir", "disk:no_root", "disk:two_module_subdirs", "disk:module_subdir_next_to_module_file",
    "disk:other_subdir_next_to_module", "disk:several_subdirs_next_to_files", "disk:modules_inside_module_dir"]
LISTING_REQUIRED = ["listing:subdir_before_module", "listing:module_before_subdir",
                    "listing:subdir_before_module_subdir"]


def disk_required(fam, badkinds):
    req = list(DISK_SHAPES_REQUIRED)
    if fam == "disk":
        req += ["disk:%s@%s" % (k, c) for k in badkinds for c in LIVE_CLASSES + OUTSIDE_CLASSES]
        req += ["disk:verdict_ok", "disk:verdict_err", "disk:rejected"]
        return req
    req = [r for r in req if r not in ("disk:has:nested_dirmod", "disk:made_dir")]
    live, out = ["root", "file", "dirmod", "file_in_dir"], OUTSIDE_CLASSES
    for k in ("check", "test", "run"):
        req += ["diskcli:%s:success:clean" % k, "diskcli:%s:failure:no_root" % k]
        if "type" in badkinds:
            req += ["diskcli:%s:failure:type@%s" % (k, c) for c in live]
            req += ["diskcli:%s:success:type@%s" % (k, c) for c in out]
    if "reject" in badkinds:
        req += ["diskcli:test:failure:reject@%s" % c for c in live]
        req += ["diskcli:test:success:reject@%s" % c for c in out]
        req += ["diskcli:check:success:reject@%s" % c for c in live]
        req += ["diskcli:run:success:reject@%s" % c for c in live]
    req += ["diskcli:run+path:success:entry@%s" % c for c in live]
    req += ["diskcli:run+path:failure:entry@%s" % c for c in out]
    return req


def features(case):
    """Which situations of the property a TLC-generated case exercises (anti-vacuity)."""
    if case["pkg"].get("disk"):
        return disk_features(case)
    pkg, cmd = case["pkg"], case["cmd"]
    tests, funcs = pkg["tests"], pkg["funcs"]
    fs = set()
    tkeys = [(tuple(map(tuple, t["mod"])), tuple(t["name"])) for t in tests]
    fkeys = {(tuple(map(tuple, f["mod"])), tuple(f["name"])): f for f in funcs}
    dup = len(set(tkeys)) != len(tkeys)
    if dup:
        fs.add("dup_test")
    if not tests:
        fs.add("zero_tests")
    if any(t["out"] == "reject" for t in tests):
        fs.add("some_reject")
    if tests and all(t["out"] == "accept" for t in tests):
        fs.add("all_accept")
    if len({k[0] for k in tkeys}) > 1:
        fs.add("tests_in_two_modules")
    if len(pkg["mods"]) > 1:
        fs.add("multi_module")
    if any(k in fkeys for k in tkeys):
        fs.add("fn_named_like_test")
    for t, k in zip(tests, tkeys):
        if t["call"]:
            ck = (k[0], tuple(t["call"]))
            has_test = ck in tkeys
            if ck in fkeys and has_test:
                fs.add("call_fn_shadowing_test_name")
            elif ck in fkeys:
                fs.add("call_fn")
            elif has_test:
                fs.add("call_test_only")
            else:
                fs.add("call_unknown")
    if pkg["broken"] != "none":
        fs.add("broken_" + pkg["broken"])
    bodies = [t.get("body", "plain") for t in tests]
    bad_body = any(b in FSTR_INVALID for b in bodies)
    interp_last = None
    if any(b != "plain" for b in bodies):
        pos, last = positions(pkg)
        for i, (t, b) in enumerate(zip(tests, bodies), start=1):
            if b != "plain":
                fs.add("body:" + b)
                fs.add("body_pos_" + pos[i])
                fs.add("body_%s_%s" % ("invalid" if b in FSTR_INVALID else "valid", t["out"]))
        if last is not None and bodies[last - 1] in FSTR_VALID + FSTR_INVALID:
            interp_last = "interp_last_" + ("valid" if bodies[last - 1] in FSTR_VALID else "invalid")
            if cmd["kind"] == "api":
                fs.add(interp_last)
                if len(pkg["mods"]) > 1 and tests[last - 1]["mod"]:
                    fs.add(interp_last + "_in_last_module")
            elif len(pkg["mods"]) == 1:       # directory packages: the CLI's file order is the OS's
                fs.add("cli:%s:%s" % (cmd["kind"], interp_last))
    if case["compiles"]:
        tm = [k for k in case["log"] if k < 100]
        if tm and tm != sorted(tm):
            fs.add("order_differs_from_declaration")
        if len(tm) >= 2:
            fs.add("two_or_more_run")
            mods_run = [len(tests[k - 1]["mod"]) for k in tm]
            if mods_run[0] > 0 and 0 in mods_run:
                fs.add("submodule_before_root")
            if mods_run[0] == 0 and any(mods_run):
                fs.add("root_before_submodule")
    kind = cmd["kind"]
    if kind != "api":
        cause = "ok"
        if not case["compiles"]:
            cause = "compile_" + ("dup_test" if dup else "broken" if pkg["broken"] != "none" else
                                  "body" if bad_body else "bad_call")
        elif kind == "test" and case["exit"] == "failure":
            cause = "reject"
        elif kind == "run" and cmd["explicit"] and cmd.get("mod"):
            # entry given as a module path: which function, if any, does it designate
            en = tuple(cmd["fn"])
            emod = tuple(map(tuple, cmd["mod"]))
            modset = {tuple(map(tuple, m)) for m in pkg["mods"]}
            f = fkeys.get((emod, en))
            if f is not None:
                cause = ("ok_" if f["sig"] == "unit" else "mistyped_") + (
                    "fn_also_in_root" if ((), en) in fkeys else
                    "fn_only_there" if sum(1 for k in fkeys if k[1] == en) == 1 else "fn_also_elsewhere")
                if len(emod) >= 2:
                    fs.add("cli:run+path:nested_ok")
            elif emod not in modset:
                cause = "missing_module" + ("_root_has_fn" if ((), en) in fkeys else "")
            elif (emod, en) in tkeys:
                cause = "is_a_test"
            elif ((), en) in fkeys:
                cause = "fn_only_in_root"
            elif any(k[1] == en for k in fkeys):
                cause = "fn_only_in_other_module"
            else:
                cause = "missing_fn"
            fs.add("cli:run+path:%s" % cause)
            return fs
        elif kind == "run" and case["exit"] == "failure":
            en = tuple(cmd["fn"]) if cmd["explicit"] else tuple(map(ord, "main"))
            f = fkeys.get(((), en))
            if f is not None:
                cause = "entry_" + f["sig"]
            elif ((), en) in tkeys:
                cause = "entry_is_a_test"
            elif any(k[1] == en for k in fkeys):
                cause = "entry_only_in_submodule"
            else:
                cause = "entry_missing"
        fs.add("cli:%s%s:%s" % (kind, "+fn" if cmd["explicit"] else "", cause))
    return fs


API_REQUIRED = ["dup_test", "zero_tests", "some_reject", "all_accept", "tests_in_two_modules", "multi_module",
                "fn_named_like_test", "call_fn_shadowing_test_name", "call_fn", "call_test_only",
                "order_differs_from_declaration", "submodule_before_root", "root_before_submodule"]
ALL_BODIES = ["plain", "fstr_i32", "fstr_bool", "fstr_string", "strcmp", "let_if", "match", "helper_call", "list_ops",
              "fstr_option", "fstr_record", "fstr_list"]
API_REQUIRED += ["body:" + b for b in ALL_BODIES if b != "plain"] + [
    "body_pos_first", "body_pos_middle", "body_pos_last", "body_pos_only",
    "body_valid_accept", "body_valid_reject", "body_invalid_accept", "body_invalid_reject",
    "interp_last_valid", "interp_last_invalid", "interp_last_valid_in_last_module",
    "interp_last_invalid_in_last_module"]
CLI_REQUIRED = ["cli:check:ok", "cli:check:compile_broken", "cli:check:compile_dup_test", "cli:check:compile_bad_call",
                "cli:test:ok", "cli:test:reject", "cli:test:compile_broken", "cli:test:compile_dup_test",
                "cli:test:compile_bad_call",
                "cli:run:ok", "cli:run:compile_broken", "cli:run:compile_dup_test", "cli:run:compile_bad_call",
                "cli:run:entry_missing", "cli:run:entry_param", "cli:run:entry_ret", "cli:run:entry_is_a_test",
                "cli:run:entry_only_in_submodule", "cli:run+fn:ok", "cli:run+fn:entry_missing",
                "broken_syntax", "broken_type", "multi_module", "some_reject",
                "cli:check:compile_body", "cli:test:compile_body", "cli:run:compile_body",
                "cli:check:interp_last_valid", "cli:check:interp_last_invalid",
                "cli:test:interp_last_valid", "cli:test:interp_last_invalid",
                "cli:run:interp_last_valid", "body_valid_reject", "body_valid_accept",
                "cli:run+path:ok_fn_also_in_root", "cli:run+path:ok_fn_only_there", "cli:run+path:missing_module",
                "cli:run+path:missing_module_root_has_fn", "cli:run+path:fn_only_in_root", "cli:run+path:missing_fn",
                "cli:run+path:is_a_test", "cli:run+path:nested_ok", "cli:run+path:fn_only_in_other_module"]


def nontrivial(case):
    """A case exercises the mechanism if at least two tests exist (order matters), or a
    function shares the name of a test, or a test body contains a call, or the package is
    rejected for a duplicate test; for CLI cases also whenever failure must be reported."""
    fs = features(case)
    if case["pkg"].get("disk"):
        # a package directory exercises the discovery whenever it holds more than pkg.roto
        return len(case["pkg"]["disk"]) >= 2
    if any(f.startswith("body:") for f in fs):
        return True
    if fs & {"two_or_more_run", "fn_named_like_test", "dup_test", "call_fn", "call_test_only",
             "call_fn_shadowing_test_name", "call_unknown"}:
        return True
    return case["cmd"]["kind"] != "api" and (case["exit"] == "failure" or bool(case["log"]))


# ------------------------------------------------------------------ TLC cases

def mc_cfg(path, family, max1, max2, tnames, subnames, fnnames, callnames, brokens=("none",),
           mainsigs=("none",), runnames=(), submain=(False,), bodies=("plain",), fnpos=("mixed",), nodups=False,
           modshapes=("single", "sub"), subfnnames=(), runmods=("",), diskopt=(), diskmaxopt=0,
           diskorders=("fwd",), diskroots=(True,), badkinds=(), diskmaxbad=1, disktnames=("a",)):
    def sset(xs):
        return "{%s}" % ", ".join('"%s"' % x for x in xs)

    def bset(xs):
        return "{%s}" % ", ".join("TRUE" if b else "FALSE" for b in xs)
    with open(path, "w") as f:
        f.write("""SPECIFICATION MCSpec
CONSTANTS
  Family = "%s"
  MaxTests1 = %d
  MaxTests2 = %d
  TNames = %s
  SubNames = %s
  FnNames = %s
  CallNames = %s
  Brokens = %s
  MainSigs = %s
  RunNames = %s
  SubMain = {%s}
  BodyForms = %s
  FnPositions = %s
  NoDups = %s
  ModShapes = %s
  SubFnNames = %s
  RunMods = %s
  DiskOpt = {%s}
  DiskMaxOpt = %d
  DiskOrders = %s
  DiskRoots = %s
  BadKinds = %s
  DiskMaxBad = %d
  DiskTNames = %s
INVARIANTS MCInv Emit
CHECK_DEADLOCK FALSE
""" % (family, max1, max2, sset(tnames), sset(subnames), sset(fnnames), sset(callnames), sset(brokens),
       sset(mainsigs), sset(runnames), ", ".join("TRUE" if b else "FALSE" for b in submain),
       sset(bodies), sset(fnpos), "TRUE" if nodups else "FALSE", sset(modshapes), sset(subfnnames), sset(runmods),
       ", ".join(str(k) for k in diskopt), diskmaxopt, sset(diskorders), bset(diskroots), sset(badkinds),
       diskmaxbad, sset(disktnames)))


def plans(tier):
    """(tag, family, cfg-arguments) per TLC run."""
    if tier == "quick":
        api = [("api_ab", dict(max1=3, max2=3, tnames=["a", "b"], subnames=["m", "u"], fnnames=["a"],
                               callnames=["a"])),
               ("api_test", dict(max1=3, max2=2, tnames=["a", "tesu"], subnames=["t", "test"], fnnames=["a", "tesu"],
                                 callnames=["a"]))]
        cli = [("cli", dict(max1=2, max2=1, tnames=["a", "main"], subnames=["m"], fnnames=["a"], callnames=["a"],
                            brokens=["none", "syntax", "type"], mainsigs=["none", "unit", "param", "ret"],
                            runnames=["a"], submain=[False, True]))]
    else:
        api = [("api_ab", dict(max1=3, max2=3, tnames=["a", "b"], subnames=["m", "u"], fnnames=["a", "b"],
                               callnames=["a", "b"])),
               ("api_test", dict(max1=3, max2=3, tnames=["a", "tesu"], subnames=["t", "test"], fnnames=["a", "tesu"],
                                 callnames=["a"])),
               ("api_case", dict(max1=3, max2=3, tnames=["A", "a_", "a"], subnames=["A"], fnnames=["a_"],
                                 callnames=["a_"])),
               ("api_broken", dict(max1=2, max2=2, tnames=["a", "b"], subnames=["m"], fnnames=["a"], callnames=["a"],
                                   brokens=["none", "syntax", "type"]))]
        cli = [("cli", dict(max1=2, max2=2, tnames=["a", "main"], subnames=["m", "u"], fnnames=["a"], callnames=["a"],
                            brokens=["none", "syntax", "type"], mainsigs=["none", "unit", "param", "ret"],
                            runnames=["a"], submain=[False, True]))]
    # test bodies from the grammar of statement forms x position of the block x its verdict
    pos3 = ["first", "last", "mixed"]
    big = tier != "quick"
    api.append(("api_body", dict(max1=2, max2=2 if big else 1, tnames=["a", "b"], subnames=["m"], fnnames=[],
                                 callnames=[], bodies=ALL_BODIES, fnpos=pos3, nodups=True)))
    cli.append(("cli_body", dict(max1=2 if big else 1, max2=1, tnames=["a"] if not big else ["a", "b"], subnames=["m"],
                                 fnnames=[], callnames=[], brokens=["none"], mainsigs=["unit"], runnames=[],
                                 submain=[False], bodies=ALL_BODIES, fnpos=pos3, nodups=True)))
    # `run` with an entry name that is a module path, over multi-module packages
    cli.append(("cli_entry", dict(max1=0, max2=1, tnames=["a"], subnames=["m"], fnnames=["a"], callnames=[],
                                  brokens=["none"], mainsigs=["none", "unit"], runnames=["main", "a", "b"],
                                  submain=[False], modshapes=["sub"], subfnnames=["main", "b"] + (["a"] if big else []),
                                  runmods=["", "m", "x"] + (["u"] if big else []))))
    cli.append(("cli_entry_nested", dict(max1=0, max2=0, tnames=["a"], subnames=["m"], fnnames=["a"] if big else [],
                                         callnames=[], brokens=["none"], mainsigs=["none", "unit"],
                                         runnames=["main", "b"], submain=[False], modshapes=["nested"],
                                         subfnnames=["main", "b"], runmods=["", "m", "m.u", "x", "m.x", "u", "u.m"])))
    return api, cli


def disk_plans(tier):
    """package DIRECTORIES: shapes (subsets of MCTestRunner!DiskUniverse) x creation orders x what is
    wrong in which file; indices: 2 b.roto, 3 a/mod.roto, 4 a/s.roto, 5 a/d/mod.roto, 6 c/mod.roto,
    7 n/r.txt, 8 e/, 9 r.txt, 10 n/g.roto, 11 a/d/t.roto, 12 c/u.roto, 13 a/e/, 14 n/m/mod.roto"""
    none = dict(max1=0, max2=0, tnames=["a"], subnames=["m"], fnnames=[], callnames=[])
    both = ["fwd", "rev"]
    if tier == "quick":
        disk = [("disk", dict(none, diskopt=[2, 3, 4, 5, 6, 7, 8, 10], diskmaxopt=3, diskorders=both,
                              diskroots=[True, False], badkinds=["reject", "type", "notest"]))]
        dcli = [("diskcli", dict(none, diskopt=[2, 3, 4, 6, 7], diskmaxopt=3, diskorders=both,
                                 diskroots=[True, False], badkinds=["reject", "type"]))]
    else:
        disk = [("disk", dict(none, diskopt=list(range(2, 15)), diskmaxopt=4, diskorders=both,
                              diskroots=[True, False], badkinds=["reject", "type", "syntax", "notest"])),
                ("disk_two", dict(none, diskopt=[2, 3, 4, 5, 6, 7, 10, 12], diskmaxopt=3, diskorders=both,
                                  diskroots=[True], badkinds=["reject", "type", "notest"], diskmaxbad=2,
                                  disktnames=["a", "tesu"]))]
        dcli = [("diskcli", dict(none, diskopt=[2, 3, 4, 5, 6, 7, 8, 9, 10, 12], diskmaxopt=3, diskorders=both,
                                 diskroots=[True, False], badkinds=["reject", "type", "syntax"]))]
    return disk, dcli


def generate(tier, ev):
    d = vlib.workdir(PID, "cfg")
    api_plans, cli_plans = plans(tier)
    dsk_plans, dcli_plans = disk_plans(tier)
    out = {"api": [], "cli": [], "disk": [], "diskcli": []}
    parts = []
    for fam, pl in (("api", api_plans), ("cli", cli_plans), ("disk", dsk_plans), ("diskcli", dcli_plans)):
        for tag, kw in pl:
            cfg = os.path.join(d, "mc_%s.cfg" % tag)
            mc_cfg(cfg, fam, **kw)
            r = run_tlc("MCTestRunner", cfg, workers=6, timeout=1500, heap="6g", coverage=True)
            require_tlc_ok(r, "MCTestRunner %s" % tag)
            ev.add_tlc(r)
            need = ["Compile"] + (["RunSome", "Finish"] if kw["max1"] + kw["max2"] > 0 or fam.startswith("disk")
                                  else []) + (["CheckDone", "RunEntry"] if fam in ("cli", "diskcli") else [])
            vlib.require_coverage(r, need, "MCTestRunner %s" % tag)
            for c in r.replay:
                c["plan"] = tag
            out[fam].extend(r.replay)
            parts.append("%s: %d packages x invocations, all enumerated (%s)" % (
                tag, len(r.replay), ", ".join("%s=%s" % kv for kv in sorted(kw.items()))))
    # anti-vacuity: every situation the property talks about must be among the cases
    for fam, req in (("api", API_REQUIRED), ("cli", CLI_REQUIRED)):
        cnt = {}
        for c in out[fam]:
            for f in features(c):
                cnt[f] = cnt.get(f, 0) + 1
        missing = [f for f in req if cnt.get(f, 0) == 0]
        if missing:
            raise vlib.ToolError("C19 %s cases never contain: %s" % (fam, missing))
        ev.extra.setdefault("case_family_counts", {})[fam] = dict(sorted(cnt.items()))
    # the disk families: every shape class of a package directory, everything that can be wrong in a
    # file at every kind of place in the tree (inside and outside the package)
    for fam, pl in (("disk", dsk_plans), ("diskcli", dcli_plans)):
        cnt = {}
        for c in out[fam]:
            for f in features(c):
                cnt[f] = cnt.get(f, 0) + 1
        kinds = sorted({k for _, kw in pl for k in kw["badkinds"]})
        missing = [f for f in disk_required(fam, kinds) if cnt.get(f, 0) == 0]
        if fam == "disk" and any(kw.get("diskmaxbad", 1) >= 2 for _, kw in pl) and not cnt.get("disk:two_wrong"):
            missing.append("disk:two_wrong")
        if missing:
            raise vlib.ToolError("C19 %s cases never contain: %s" % (fam, missing))
        ev.extra.setdefault("case_family_counts", {})[fam] = dict(sorted(cnt.items()))
        ev.extra.setdefault("disk_classes", {})[fam] = {
            "package_directories": len({vlib.shash(c["pkg"]["disk"]) for c in out[fam]}),
            "shapes": len({vlib.shash(sorted(entry_path(e) for e in c["pkg"]["disk"])) for c in out[fam]}),
            "cases": len(out[fam])}
    ev.extra["exhaustive_parts"] = parts
    return out


# ------------------------------------------------------------------ comparison

class Lazy(dict):
    """replay object built only when a violation is actually reported"""

    def __init__(self, make):
        super().__init__()
        self._make = make


def report(verd, sig, desc, rep):
    return verd.report(sig, desc, rep._make() if isinstance(rep, Lazy) else rep)


def sig_of(case, failure, **kw):
    s = {"family": "cli" if case["cmd"]["kind"] != "api" else "api", "cmd": case["cmd"]["kind"],
         "kind_of_failure": failure}
    s.update(kw)
    return s


def compare_api(case, res, verd):
    rep = Lazy(lambda: {"case": case, "files": render_any(case["pkg"], "api"), "result": res})
    oc = vlib.outcome_of(res)
    if oc != "returned":
        step = {0: "compile", 1: "get_tests", 2: "run_tests", 3: "run_tests_again"}.get(res.get("step"), "?")
        report(verd, sig_of(case, oc.split(":")[0], step=step),
                    "package did not return normally (%s during %s): %s" % (oc, step, str(res)[:300]), rep)
        return False
    r = res["r"]
    if (r["compile"] == "ok") != case["compiles"]:
        report(verd, sig_of(case, "compile-accepts" if r["compile"] == "ok" else "compile-rejects"),
                    "spec says the package %s, roto %s it: %s" % (
                        "compiles" if case["compiles"] else "must be rejected",
                        "compiled" if r["compile"] == "ok" else "rejected", r.get("text", "")[:300]), rep)
        return False
    if r["compile_marks"]:
        report(verd, sig_of(case, "ran-during-compile"), "bodies ran during compilation: %s" % r["compile_marks"], rep)
        return False
    if not case["compiles"]:
        return True
    if len(r["names"]) != case["ntests"]:
        report(verd, sig_of(case, "discovery-count"),
                    "get_tests yields %d tests %s, the package has %d" % (len(r["names"]), r["names"], case["ntests"]), rep)
        return False
    for which, log, result in (("first", r["log"], r["result"]), ("second", r["log2"], r["result2"])):
        if log != case["log"]:
            exp_t = [k for k in case["log"] if k < 100]
            got_t = [k for k in log if k < 100]
            kind = ("multiplicity" if sorted(exp_t) != sorted(got_t) else
                    "order" if exp_t != got_t else "called-function")
            report(verd, sig_of(case, "log-" + kind, run=which),
                        "%s run_tests: spec log %s, observed %s" % (which, case["log"], log), rep)
            return False
        if result != case["verdict"]:
            report(verd, sig_of(case, "verdict", run=which, expected=case["verdict"]),
                        "%s run_tests: spec verdict %s, observed %s (log %s)" % (which, case["verdict"], result, log), rep)
            return False
    return True


def cli_args(case, path):
    cmd = case["cmd"]
    a = [cmd["kind"], path]
    if cmd["explicit"]:
        a.append(".".join([nm(x) for x in cmd.get("mod", [])] + [nm(cmd["fn"])]))
    return a


def cli_status(rr):
    """exit status class of one CLI process, or (None, abnormal outcome)"""
    oc = rr.outcome
    if oc == "returned":
        return "success", None
    if oc.startswith("exit:"):
        if oc == "exit:101":
            return None, "panic"
        return "failure", None
    return None, oc.split(":")[0]          # signal / timeout


def compare_cli(case, rr, path, verd):
    rep = Lazy(lambda: {"case": case, "cli": cli_args(case, path), "files": render_any(case["pkg"], "cli"),
                        "listing": LISTINGS.get(path), "outcome": rr.outcome, "stdout": rr.out[-1500:],
                        "stderr": rr.err[-1500:]})
    status, abnormal = cli_status(rr)
    if abnormal:
        report(verd, sig_of(case, abnormal), "roto %s ended abnormally (%s): %s" % (
            " ".join(cli_args(case, path)), rr.outcome, rr.err[-300:]), rep)
        return False
    if status != case["exit"]:
        report(verd, sig_of(case, "exit-status", expected=case["exit"]),
                    "roto %s: spec says exit %s, observed %s (%s)" % (
                        " ".join(cli_args(case, path)), case["exit"], status, rr.outcome), rep)
        return False
    marks = [int(x) for x in MARK_RE.findall(rr.out)]
    if marks != case["log"]:
        report(verd, sig_of(case, "executed", expected_runs=str(len(case["log"]))),
                    "roto %s: spec says marks %s on stdout, observed %s" % (
                        " ".join(cli_args(case, path)), case["log"], marks), rep)
        return False
    return True


def run_cli_cases(cases, tag, verd, tmpfs=True):
    """-> list of (case, RunResult, path); package directories are written below disk_base(), or
    (tmpfs=False) below the work directory like the single files"""
    root = vlib.workdir(PID, "cli_" + tag, clean=True)
    droot = None
    paths = {}
    jobs = []
    for c in cases:
        key = vlib.shash(c["pkg"])
        if key not in paths:
            if c["pkg"].get("disk") and droot is None:
                droot = os.path.join(disk_base() if tmpfs else root, "cli_" + tag)
                shutil.rmtree(droot, ignore_errors=True)
                os.makedirs(droot)
            paths[key] = write_cli_pkg(c["pkg"], droot if c["pkg"].get("disk") else root, key)
        jobs.append(("c19cli", cli_args(c, paths[key]), {"timeout": 120, "cwd": root}))
    results = vlib.run_parallel(jobs, nproc=12)
    return [(c, rr, paths[vlib.shash(c["pkg"])]) for c, rr in zip(cases, results)]


# ----------------------------------------------------------------------- I->S

NAMES = ["a", "b", "A", "a_", "a1", "main", "t", "tesu", "zz", "_a", "tes", "u"]
MODNAMES = ["a", "m", "t", "test", "tesu", "u", "A", "z9", "_x", "main"]


def codes(s):
    return [ord(c) for c in s]


def random_pkg(rng, flat, big):
    """Seeded random abstract package (inputs only; nothing expected is computed here)."""
    nmods = rng.choice([1, 1, 2, 3, 4, 6]) if big else rng.choice([1, 2, 3])
    mods = [()]
    while len(mods) < nmods:
        parent = () if flat else rng.choice([m for m in mods if len(m) < 3])
        m = parent + (rng.choice(MODNAMES),)
        if m not in mods:
            mods.append(m)
    ntests = rng.choice([0, 1, 2, 3, 5, 8, 12]) if big else rng.choice([0, 1, 2, 4])
    tests, used = [], set()
    nfuncs = rng.choice([0, 1, 2, 4, 6])
    funcs, fused = [], set()
    for _ in range(nfuncs):
        m = rng.choice(mods)
        n = rng.choice(NAMES)
        if (m, n) in fused and rng.random() < 0.9:
            continue
        if m + (n,) in mods:        # a function named like a child module: outside the model (C13)
            continue
        fused.add((m, n))
        funcs.append({"mod": [codes(x) for x in m], "name": codes(n),
                      "sig": rng.choices(["unit", "param", "ret"], [8, 1, 1])[0]})
    for _ in range(ntests):
        m = rng.choice(mods)
        n = rng.choice(NAMES)
        if (m, n) in used and rng.random() < 0.97:
            continue
        used.add((m, n))
        call = []
        here = [f for f in funcs if f["mod"] == [codes(x) for x in m] and f["sig"] != "param"]
        if here and rng.random() < 0.5:
            call = rng.choice(here)["name"]
        elif rng.random() < 0.04:
            call = codes(rng.choice(NAMES))      # mostly unresolvable (possibly the name of a test)
        body = rng.choices(["plain", rng.choice(ALL_BODIES[1:9]), rng.choice(ALL_BODIES[9:])], [50, 47, 3])[0]
        tests.append({"mod": [codes(x) for x in m], "name": codes(n),
                      "out": rng.choices(["accept", "reject"], [4, 1])[0], "call": call, "body": body})
    broken = rng.choices(["none", "syntax", "type"], [38, 1, 1])[0]
    return {"mods": [[codes(x) for x in m] for m in mods], "tests": tests, "funcs": funcs, "broken": broken,
            "fnpos": rng.choice(["first", "first", "last", "mixed"]), "disk": [], "brokenAt": []}


def diskify(rng, pkg):
    """Give a random package a random representation as a package DIRECTORY (inputs only): every module
    without children is name.roto or name/mod.roto, modules with children are directories; plus files
    and directories that are not part of the package (a directory without mod.roto holding Roto files
    with test blocks, functions and possibly the unrelated error, a module directory below it, a file
    that does not end in .roto, an empty directory); created in a random order."""
    mods = [tuple(nm(x) for x in m) for m in pkg["mods"]]

    def entry(d, stem, ext, mod):
        return {"dir": [codes(x) for x in d], "stem": codes(stem), "ext": ext, "mod": [codes(x) for x in mod]}
    disk = [entry((), "pkg", "roto", ())]
    moddirs = [()]
    for m in mods[1:]:
        if any(len(c) > len(m) and c[:len(m)] == m for c in mods) or rng.random() < 0.4:
            disk.append(entry(m, "mod", "roto", m))
            moddirs.append(m)
        else:
            disk.append(entry(m[:-1], m[-1], "roto", m))
    outside = []
    for k in range(rng.choice([0, 1, 1, 2, 3])):
        d = rng.choice(moddirs)
        kind = rng.choice(["roto_in_plain_dir", "moddir_in_plain_dir", "txt", "empty"])
        if kind == "roto_in_plain_dir":
            m = d + ("gh%d" % k, rng.choice(["x", "a", "main"]))
            disk.append(entry(m[:-1], m[-1], "roto", m))
        elif kind == "moddir_in_plain_dir":
            m = d + ("gh%d" % k, "sub")
            disk.append(entry(m, "mod", "roto", m))
        elif kind == "txt":
            m = d + ("notes%d" % k,)
            disk.append(entry(d, m[-1], "txt", m))
        else:
            disk.append(entry(d, "empty%d" % k, "dir", d + ("empty%d" % k,)))
            continue
        outside.append(m)
    for m in outside:
        mc = [codes(x) for x in m]
        for _ in range(rng.choice([0, 1, 1, 2])):
            n = rng.choice(NAMES)
            if any(t["mod"] == mc and t["name"] == codes(n) for t in pkg["tests"]):
                continue
            pkg["tests"].insert(rng.randrange(len(pkg["tests"]) + 1),
                                {"mod": mc, "name": codes(n), "out": rng.choice(["accept", "reject", "reject"]),
                                 "call": [], "body": "plain"})
        if rng.random() < 0.4:
            pkg["funcs"].append({"mod": mc, "name": codes(rng.choice(["main", "a", "b"])), "sig": "unit"})
    if outside and pkg["broken"] == "none" and rng.random() < 0.3:
        pkg["broken"] = rng.choice(["syntax", "type"])
        pkg["brokenAt"] = [codes(x) for x in rng.choice(outside)]
    elif pkg["broken"] != "none":
        pkg["brokenAt"] = rng.choice([e["mod"] for e in disk if e["ext"] != "dir"])
    rng.shuffle(disk)
    pkg["disk"] = disk
    return pkg


def chunk_marks(marks):
    """cut the flat log in front of every test mark (< 100); a leading function mark stays alone"""
    out = []
    for k in marks:
        if k < 100 or not out:
            out.append([k])
        else:
            out[-1].append(k)
    return out


def impl_to_spec(tier, ev, verd, corrupt=None):
    rng = random.Random(vlib.seed() * 19 + 3)
    napi, ncli = (300, 120) if tier == "quick" else (4000, 1500)
    d = vlib.workdir(PID, "trace")
    events = []
    owners = []          # event index -> description of the run it belongs to
    nruns = 0

    # --- Package::run_tests from a host
    pkgs = [random_pkg(rng, False, True) for _ in range(napi)]
    api_cmd0 = {"kind": "api"}
    nlast = sum(1 for p in pkgs if any(f.startswith("interp_last") for f in features(
        {"pkg": p, "cmd": api_cmd0, "compiles": False, "log": []})))
    ev.extra["recorded_packages_ending_in_interpolating_test"] = nlast
    if nlast == 0:
        raise vlib.ToolError("no random package ends in a test block with a string interpolation")
    # package directories (random shapes, random creation order), read back from the system's
    # temporary directory; their own random stream, so the packages above do not depend on them
    rngd = random.Random(vlib.seed() * 19 + 5)
    ndapi, ndcli = (100, 60) if tier == "quick" else (1500, 600)
    dpk = [diskify(rngd, random_pkg(rngd, False, rngd.random() < 0.7)) for _ in range(ndapi)]
    pkgs += dpk
    cases = [api_case(p, tmpfs=False) for p in pkgs]
    results = vlib.run_batch("c19", cases, nproc=8, pid=PID, tag="rec", stall=60)
    dstat = {"api_packages": ndapi, "cli_packages": ndcli, "api_compiled_with_2_tests_run": 0,
             "with_files_outside_the_package": sum(1 for p in dpk if any(
                 e["ext"] == "txt" or any(nm(x).startswith("gh") for x in e["dir"]) for e in p["disk"])),
             "with_nested_module_directories": sum(1 for p in dpk if any(
                 nm(e["stem"]) == "mod" and len(e["dir"]) >= 2 and not any(nm(x).startswith("gh") for x in e["dir"])
                 for e in p["disk"]))}
    api_cmd = {"kind": "api", "explicit": False, "mod": [], "fn": codes("main")}
    for p, c, res in zip(pkgs, cases, results):
        pseudo = {"pkg": p, "cmd": api_cmd}
        if vlib.outcome_of(res) != "returned":
            compare_api(dict(pseudo, compiles=True, ntests=len(p["tests"]), log=[], verdict="?"), res, verd)
            continue
        r = res["r"]
        run = [{"op": "Load", "pkg": p, "cmd": api_cmd}, {"op": "Compile", "ok": r["compile"] == "ok"}]
        ev.impl_actions.add("Compile")
        if r["compile"] == "ok":
            for ch in chunk_marks(r["compile_marks"] + r["log"]):
                run.append({"op": "RunTest", "marks": ch})
                ev.impl_actions.add("RunTest")
            run.append({"op": "Finish", "verdict": r["result"]})
            ev.impl_actions.add("Finish")
        for e in run:
            owners.append({"pkg": p, "cmd": api_cmd, "files": c.get("files") or c.get("disk"), "result": r})
        events.extend(run)
        nruns += 1
        if p["disk"] and r["compile"] == "ok" and len([k for k in r["log"] if k < 100]) >= 2:
            dstat["api_compiled_with_2_tests_run"] += 1
    ev.extra["recorded_disk_packages"] = dstat
    if not (dstat["api_compiled_with_2_tests_run"] and dstat["with_files_outside_the_package"]
            and dstat["with_nested_module_directories"]):
        raise vlib.ToolError("recorded package directories are degenerate: %s" % dstat)

    # --- the roto binary
    cmds = []
    cpk = []
    for _ in range(ncli):
        p = random_pkg(rng, True, rng.random() < 0.5)
        if (rng.random() < 0.6 and [codes("main")] not in p["mods"]
                and not any(f["mod"] == [] and f["name"] == codes("main") for f in p["funcs"])):
            p["funcs"].append({"mod": [], "name": codes("main"), "sig": rng.choices(["unit", "param", "ret"], [6, 1, 1])[0]})
        kind = rng.choice(["check", "test", "test", "run", "run"])
        explicit = kind == "run" and rng.random() < 0.4
        fn = codes(rng.choice(NAMES)) if explicit else codes("main")
        emod = []
        if explicit and rng.random() < 0.6:
            # entry given as a module path: mostly an existing function of a module below the root
            subs = [f for f in p["funcs"] if f["mod"]]
            if subs and rng.random() < 0.7:
                f = rng.choice(subs)
                emod, fn = f["mod"], f["name"]
            elif rng.random() < 0.7:
                emod = rng.choice(p["mods"])
            else:
                emod = [codes("nosuch")]
        cmds.append({"kind": kind, "explicit": explicit, "mod": emod, "fn": fn})
        cpk.append(p)
    # package directories through the CLI (written below the work directory)
    for _ in range(ndcli):
        p = random_pkg(rngd, False, rngd.random() < 0.5)
        if (rngd.random() < 0.7 and [codes("main")] not in p["mods"]
                and not any(f["mod"] == [] and f["name"] == codes("main") for f in p["funcs"])):
            p["funcs"].append({"mod": [], "name": codes("main"), "sig": rngd.choices(["unit", "param", "ret"], [8, 1, 1])[0]})
        diskify(rngd, p)
        kind = rngd.choice(["check", "test", "test", "run", "run"])
        explicit = kind == "run" and rngd.random() < 0.5
        emod, fn = [], codes("main")
        if explicit:
            fs_ = [f for f in p["funcs"] if f["mod"]]
            if fs_ and rngd.random() < 0.8:
                f = rngd.choice(fs_)             # a function of a file below the root (inside or outside the package)
                emod, fn = f["mod"], f["name"]
            else:
                fn = codes(rngd.choice(NAMES))
        cmds.append({"kind": kind, "explicit": explicit, "mod": emod, "fn": fn})
        cpk.append(p)
    pseudo_cases = [{"pkg": p, "cmd": c} for p, c in zip(cpk, cmds)]
    for case, rr, path in run_cli_cases(pseudo_cases, "rec", verd, tmpfs=False):
        status, abnormal = cli_status(rr)
        if abnormal:
            compare_cli(dict(case, exit="?", log=[]), rr, path, verd)
            continue
        marks = [int(x) for x in MARK_RE.findall(rr.out)]
        run = [{"op": "Load", "pkg": case["pkg"], "cmd": case["cmd"]}, {"op": "Internal"}]
        ev.impl_actions.add("Compile")
        if case["cmd"]["kind"] == "test":
            for ch in chunk_marks(marks):
                run.append({"op": "RunTest", "marks": ch})
                ev.impl_actions.add("RunTest")
            marks = []
        run.append({"op": "Exit", "status": status, "marks": marks})
        if status == "success":
            ev.impl_actions.add({"check": "CheckDone", "test": "Finish", "run": "RunEntry"}[case["cmd"]["kind"]])
        for e in run:
            owners.append({"pkg": case["pkg"], "cmd": case["cmd"], "cli": cli_args(case, path),
                           "files": render_any(case["pkg"], "cli"), "outcome": rr.outcome, "stdout": rr.out[-1500:]})
        events.extend(run)
        nruns += 1

    if corrupt:
        corrupt(events)
    path = os.path.join(d, "trace.ndjson")
    vlib.write_ndjson(path, events)
    r = vlib.validate_trace("TraceTestRunner", "TraceTestRunner.cfg", path, timeout=1500, heap="6g")
    ev.add_tlc(r)
    ev.extra["trace_events"] = len(events)
    if r.ok:
        ev.traces += nruns
    elif r.postcondition_failed and r.replay:
        un = r.replay[0]
        own = owners[un["line"] - 1] if 0 < un["line"] <= len(owners) else {}
        evn = un["ev"]
        verd.report({"family": "cli" if own.get("cmd", {}).get("kind", "api") != "api" else "api",
                     "cmd": own.get("cmd", {}).get("kind", "?"), "kind_of_failure": "trace-rejected",
                     "event": evn.get("op", "?")},
                    "observed run is not a behaviour of TestRunner: first unmatched event (line %s): %s" % (
                        un["line"], str({k: v for k, v in evn.items() if k != "pkg"})[:300]),
                    {"trace": path, "unmatched_line": un["line"], "event": evn, "run": own})
    else:
        raise vlib.ToolError("trace validation failed to run: %s\n%s" % (r.error or r.invariant_violated, r.stdout[-2500:]))
    return nruns


# ------------------------------------------------------------------------ run

def run(tier):
    ev = Evidence(PID, tier)
    verd = Verdicts(PID)
    vlib.build_harness(["c19", "c19cli"])
    ev.rule = ("cases = (package, invocation) pairs enumerated by TLC from MCTestRunner (every package of the bounded "
               "families), each rendered to source and executed once (api: Package::run_tests twice in the harness; "
               "cli: one process of the roto CLI); distinct = distinct (package, invocation); non-trivial = at least "
               "two tests run (order matters), or a function shares a test's name, or a test body contains a call, "
               "or a duplicate test name must be rejected, or (cli) failure must be reported / something must run; "
               "a package directory (disk families) is non-trivial when it holds more than pkg.roto")
    cases = generate(tier, ev)

    # samples for the evidence file: readable source + what the spec expects
    def sample(c, mode):
        inv = "Package::run_tests" if mode == "api" else "roto " + " ".join(cli_args(c, "<path>"))
        exp = ({"compiles": c["compiles"], "marks": c["log"], "verdict": c["verdict"]} if mode == "api" else
               {"exit": c["exit"], "marks": c["log"]})
        return {"files": render_any(c["pkg"], mode), "invocation": inv, "expected": exp}

    def pick(lst, pred):
        return next((c for c in lst if pred(c)), None)
    chosen = [(pick(cases["api"], lambda c: len(c["log"]) >= 4 and "order_differs_from_declaration" in features(c)
                    and "fn_named_like_test" in features(c)), "api"),
              (pick(cases["api"], lambda c: "call_test_only" in features(c) and len(c["pkg"]["tests"]) >= 2
                    and "dup_test" not in features(c)), "api"),
              (pick(cases["api"], lambda c: "dup_test" in features(c)), "api"),
              (pick(cases["cli"], lambda c: "cli:run:entry_is_a_test" in features(c)), "cli"),
              (pick(cases["cli"], lambda c: "cli:test:reject" in features(c) and len(c["log"]) >= 2), "cli")]
    chosen[2:3] = [(pick(cases["api"], lambda c: "interp_last_valid" in features(c) and len(c["log"]) >= 2), "api"),
                   (pick(cases["cli"], lambda c: "cli:check:interp_last_invalid" in features(c)), "cli")]
    chosen += [(pick(cases["disk"], lambda c: len(c["pkg"]["disk"]) >= 4 and c["verdict"] == "err"
                     and "disk:two_module_subdirs" in features(c)), "api"),
               (pick(cases["diskcli"], lambda c: "diskcli:check:success:type@outside_roto" in features(c)
                     and len(c["pkg"]["disk"]) >= 3), "cli")]
    ev.samples = [sample(c, m) for c, m in chosen if c is not None]

    # S->I, api families (in-memory trees; package directories written to disk and read by FileTree::read)
    api = cases["api"] + cases["disk"]
    batch = [api_case(c["pkg"]) for c in api]
    results = vlib.run_batch("c19", batch, nproc=8, pid=PID, tag="api", stall=60)
    lcnt = {}
    for c, res in zip(api, results):
        compare_api(c, res, verd)
        ev.case(None, nontrivial(c), key=vlib.shash([c["pkg"], c["cmd"]]))
        ev.traces += 1
        if c["pkg"].get("disk") and "r" in res:
            for f in listing_features(c["pkg"], c["live"], res["r"].get("listing") or {}):
                lcnt["api:" + f] = lcnt.get("api:" + f, 0) + 1
    # S->I, cli families
    clis = cases["cli"] + cases["diskcli"]
    for c, rr, path in run_cli_cases(clis, "mc", verd):
        compare_cli(c, rr, path, verd)
        ev.case(None, nontrivial(c), key=vlib.shash([c["pkg"], c["cmd"]]))
        ev.traces += 1
        if c["pkg"].get("disk"):
            for f in listing_features(c["pkg"], c["live"], LISTINGS.get(path) or {}):
                lcnt["cli:" + f] = lcnt.get("cli:" + f, 0) + 1
    ev.extra["cli_processes"] = len(clis)
    # the order dimension must be real: in the directories that were actually read, the file system
    # listed a sub-directory before another module of the same directory, and the other way round
    ev.extra["disk_listing_counts"] = dict(sorted(lcnt.items()))
    ev.extra["disk_base"] = disk_base()
    if not verd.violations:
        missing = [r + ":" + f for r in ("api", "cli") for f in LISTING_REQUIRED if not lcnt.get(r + ":" + f)]
        if missing:
            raise vlib.ToolError("C19 disk families: the directories read never had the listing orders %s" % missing)

    impl_to_spec(tier, ev, verd)
    if not verd.violations:
        missing = [a for a in ("Compile", "RunTest", "Finish", "CheckDone", "RunEntry") if a not in ev.impl_actions]
        if missing:
            raise vlib.ToolError("recorded runs never exercised the TestRunner actions %s" % missing)
    ev.exhaustive = True
    ev.assumptions = [
        "names are ASCII identifiers (the sort key is compared byte-wise; non-ASCII names are not modelled)",
        "the execution order asserted is the implementation's key: full name pkg[.module]*.test#name in byte order "
        "(documentation only promises that the runner finds and runs the tests)",
        "a test body is `mark; [call();] accept|reject`: bodies that diverge or trap are out of scope (C10)",
        "CLI output is only searched for the marker lines the scripts print themselves; exit status is classified "
        "as success (0) / failure (non-zero, not a panic or signal)",
        "submodule directories use mod.roto as the code does (the documentation says lib.roto)",
        "package directories: names are those of MCTestRunner!DiskUniverse; a pkg.roto outside the package "
        "directory, a mod.roto in it, x.roto next to x/mod.roto, symbolic links and unreadable entries are not "
        "modelled; the listing orders exercised are those the file system under the scratch directory produces "
        "(counted in disk_listing_counts)",
        "exhaustive for the stated bounds only (<= 3 tests, <= 2 modules; package directories: the subsets of the "
        "universe named in exhaustive_parts); larger packages are seeded random",
    ]
    rc = verd.finish()
    ev.write(len(verd.violations))
    return rc


def replay(path):
    import json
    obj = json.load(open(path))["replay"]
    vlib.build_harness(["c19", "c19cli"])
    verd = Verdicts(PID)
    if "case" in obj and "cli" not in obj:
        case = obj["case"]
        res = vlib.run_batch("c19", [api_case(case["pkg"])], nproc=1, pid=PID, tag="replay")
        compare_api(case, res[0], verd)
    elif "case" in obj:
        case = obj["case"]
        for c, rr, p in run_cli_cases([case], "replay", verd):
            compare_cli(c, rr, p, verd)
    elif "trace" in obj:
        r = vlib.validate_trace("TraceTestRunner", "TraceTestRunner.cfg", obj["trace"], timeout=1500, heap="6g")
        if not r.ok:
            un = r.replay[0] if r.replay else {"line": "?", "ev": {}}
            verd.report({"kind_of_failure": "trace-rejected", "event": un["ev"].get("op", "?")},
                        "trace rejected at line %s" % un["line"], obj)
    return verd.finish()
