"""C05 - values cross the host boundary unchanged in both directions.

Spec: spec/Layout.tla (the representation rule: C layout of enums with a u8 tag, by value / by pointer /
      dropped, return pointer; memory images Encode / Decode), spec/Boundary.tla (routes = sequences of
      crossings rust_arg, rust_ret, host_arg, host_ret, ctx, const and the script-side construct / match /
      select; the only transition is Transfer, after which received = sent), spec/MCBoundary.tla,
      spec/TraceLayout.tla, spec/TraceBoundary.tla.
S->I: TLC enumerates the configuration space (route x types x position x value class): every boundary type of
      the depth <= 1 grammar (thorough: restricted depth 2) on the routes id / hecho (host function) / hmeth
      (method) / hgive / const / build (constructors, list literals) / buildf (accept, reject) / match / index
      (`l.get(i)` on a list Rust built; lists of enums whose size hinges on the final rounding) / constm, consth
      (the registered constant of every non-leaf type taken apart by the script / handed on to a registered
      function) / lvec, lcollect, lpush, larray (a list put together on the Rust side by List::from(Vec), collect(),
      List::new + push, List::from([..]), read back with to_vec and iterated by the script; element types: every
      Option whose Rust type and mirror have the same size and alignment but another encoding); seven-parameter
      vectors with the type under test at every position 1..7 and with 2..6 slot-occupying parameters (Rust ->
      script `pick`, script -> host function `hpick`, zero-sized parameters at every position); context
      structs in every declared field order.  For every type and value TLC also checks the layout invariants
      and that the memory image decodes to the value.  Every emitted configuration carries the observations
      the receiving side must show; the harness (compiled-in type table generated from TLC's UNIVERSE by
      tools/gen_c05_types.py) makes the values, sends them through the real crate and reports what arrived,
      mapped back to descriptors; python compares.
I->S: (a) rustc's size/align/payload offsets of `<T as Value>::Transformed` and the way `T::AsParam` travels,
      for every table type, must be what Layout says (TraceLayout.tla); (b) seeded random configurations with
      random values (beyond TLC's classes) are executed and the recorded transfers must be behaviours of
      Boundary (TraceBoundary.tla).
"""
import json
import os
import random
from concurrent.futures import ThreadPoolExecutor

import vlib
from vlib import Evidence, Verdicts, run_tlc, require_tlc_ok

PID = "C05"
PARTS = ["types", "pick", "hpick", "ctx", "layout"]
CONST_ROUTES = ["const", "constm", "consth"]              # registered constant: returned / taken apart / handed on
LIST_ROUTES = ["lvec", "lcollect", "lpush", "larray"]     # construction routes of a list on the Rust side
ROUTES = (["id", "hecho", "hmeth", "hgive", "const", "ctx", "build", "buildf", "match", "index", "pick", "hpick"] +
          CONST_ROUTES[1:] + LIST_ROUTES)
CROSSINGS = ["rust_arg", "rust_ret", "host_arg", "host_ret", "ctx", "const"]
SCRIPT_OPS = ["construct", "match", "select", "index", "rconstruct", "rread"]
LEAVES = ["bool", "u8", "u16", "u32", "u64", "i8", "i16", "i32", "i64", "f32", "f64", "char", "Asn", "IpAddr", "Prefix",
          "String", "()", "Z0", "C1", "T24"]
CTORS = ["Option", "List", "Result", "Verdict"]
ITEMS_PER_CASE = 60

# ------------------------------------------------------------------ representation mapping


def term_id(t):
    if len(t) == 1:
        return t[0]
    return "%s<%s>" % (t[0], ",".join(term_id(x) for x in t[1:]))


def entry_id(c):
    """table entry that executes a configuration"""
    r = c["route"]
    if r in ("pick", "hpick"):
        return "%s:%d:%s" % (r, c["k"], ",".join(term_id(t) for t in c["vec"]))
    if r == "ctx":
        return "ctx:" + ",".join(term_id(t) for t in c["vec"])
    return "ty:" + term_id(c["vec"][0])


def item_of(c):
    r = c["route"]
    if r in ("pick", "hpick"):
        return {"route": r, "vals": c["vals"]}
    if r == "ctx":
        return {"route": r, "vals": c["vals"], "pos": c["pos"]}
    if r == "index":
        return {"route": r, "val": c["vals"][0], "k": c["k"]}
    return {"route": r, "val": c["vals"][0]}


def symbols(t, out):
    out.add(t[0])
    for x in t[1:]:
        symbols(x, out)


def zero_sized(t):
    return len(t) == 1 and t[0] in ("()", "Z0")


def zst_val_arg_before(c):
    """a registered zero-sized type is passed as an argument in front of an argument that occupies a slot"""
    if c["route"] not in ("pick", "hpick"):
        return "no"
    vec = c["vec"]
    for i, t in enumerate(vec):
        if t == ["Z0"] and any(not zero_sized(u) for u in vec[i + 1:]):
            return "yes"
    return "no"


def sig_of(c, failure):
    return {"route": c["route"], "kind_of_failure": failure, "ty": term_id(c["vec"][c["pos"] - 1]),
            "zst_val_arg_before": zst_val_arg_before(c)}


# ------------------------------------------------------------------------------- harness

_table = None


def table():
    global _table
    if _table is None:
        r = vlib.run_bin("c05", ["--list"], timeout=120)
        if r.outcome != "returned":
            raise vlib.ToolError("c05 --list failed: %s %s" % (r.outcome, r.err[-500:]))
        _table = {}
        for line in r.out.splitlines():
            if line.strip():
                e = json.loads(line)
                _table[e["id"]] = e
    return _table


def group_cases(cfgs):
    """configurations -> harness cases (one table entry per case, at most ITEMS_PER_CASE items)"""
    tab = table()
    by_entry = {}
    for n, c in enumerate(cfgs):
        by_entry.setdefault(entry_id(c), []).append(n)
    missing = [e for e in by_entry if e not in tab]
    if missing:
        raise vlib.ToolError("%d configurations have no entry in the compiled table (e.g. %s): run "
                             "tools/gen_c05_types.py and rebuild" % (len(missing), missing[0]))
    cases, index = [], []
    for e in sorted(by_entry):
        ns = by_entry[e]
        for i in range(0, len(ns), ITEMS_PER_CASE):
            part = ns[i:i + ITEMS_PER_CASE]
            cases.append({"e": e, "items": [item_of(cfgs[n]) for n in part]})
            index.append(part)
    return cases, index


def execute(cfgs, tag, nproc=8):
    """Run the configurations; returns one result per configuration:
    {'o':..,'sent':..} | {'panic':..} | {'crash':..} | {'hang':True} | {'compile_error':..} | {'setup_error':..}
    Configurations in the scope of the known zero-sized-argument defect pass wild pointers around; they run in worker
    processes of their own so that a damaged heap cannot disturb the verdict on any other configuration."""
    wild = [n for n, c in enumerate(cfgs) if zst_val_arg_before(c) == "yes"]
    if wild and len(wild) < len(cfgs):
        tame = [n for n in range(len(cfgs)) if n not in set(wild)]
        out = [None] * len(cfgs)
        for ns, t in ((tame, tag), (wild, tag + "_zst")):
            for n, r in zip(ns, execute([cfgs[n] for n in ns], t, nproc)):
                out[n] = r
        return out
    cases, index = group_cases(cfgs)
    results = vlib.run_batch("c05", cases, nproc=nproc, pid=PID, tag=tag, stall=60)
    out = [None] * len(cfgs)
    redo = []
    for case, ns, res in zip(cases, index, results):
        oc = vlib.outcome_of(res)
        if oc == "returned":
            r = res["r"]
            if "obs" in r:
                for n, o in zip(ns, r["obs"]):
                    out[n] = o
            else:
                for n in ns:
                    out[n] = r                      # compile_error / setup_error for the whole entry
        elif oc == "panic":
            for n in ns:
                out[n] = {"panic": res["panic"]}
        elif len(ns) == 1:
            out[ns[0]] = {"hang": True} if oc == "hang" else {"crash": res.get("crash")}
        else:
            redo.extend(ns)                         # crash / hang somewhere in the case: run its items one by one
    if redo:
        singles = [{"e": entry_id(cfgs[n]), "items": [item_of(cfgs[n])]} for n in redo]
        results = vlib.run_batch("c05", singles, nproc=nproc, pid=PID, tag=tag + "_single", stall=60)
        for n, res in zip(redo, results):
            oc = vlib.outcome_of(res)
            if oc == "returned":
                r = res["r"]
                out[n] = r["obs"][0] if "obs" in r else r
            elif oc == "panic":
                out[n] = {"panic": res["panic"]}
            elif oc == "hang":
                out[n] = {"hang": True}
            else:
                out[n] = {"crash": res.get("crash")}
    return out


def failure_of(res):
    for k in ("panic", "crash", "hang", "compile_error", "setup_error"):
        if k in res:
            return k
    return None


# ---------------------------------------------------------------------------------- S->I

def tlc_part(part, depth):
    d = vlib.workdir(PID, "cfg")
    cfg = os.path.join(d, "mc_%s_%d.cfg" % (part, depth))
    with open(cfg, "w") as f:
        f.write('SPECIFICATION MCSpec\nCONSTANTS\n  Part = "%s"\n  Depth = %d\n'
                'INVARIANTS Unchanged RuleSound SlotsAgree Emit\nCHECK_DEADLOCK FALSE\n' % (part, depth))
    r = run_tlc("MCBoundary", cfg, workers=3 if part in ("types", "layout") else 2, timeout=2400, heap="4g", coverage=False)
    require_tlc_ok(r, "MCBoundary " + part)
    return r


def judge(c, res, verd, stats):
    """compare what the receiving side showed with what the specification says it shows"""
    rep = {"config": {k: c[k] for k in ("route", "vec", "vals", "pos", "k")}, "expected_obs": c["obs"], "result": res}
    what = "route %s, type %s at position %d of (%s), sent %s" % (
        c["route"], term_id(c["vec"][c["pos"] - 1]), c["pos"], ", ".join(term_id(t) for t in c["vec"]),
        json.dumps(c["vals"][c["pos"] - 1]))
    f = failure_of(res)
    if f:
        verd.report(sig_of(c, f), "%s: the transfer did not complete (%s): %s" % (what, f, json.dumps(res)[:400]), rep)
        return False
    # the representation mapping of the harness must be invertible, else the comparison means nothing
    sent = res["sent"]
    want_sent = c["vals"] if c["route"] in ("pick", "hpick", "ctx") else c["vals"][0]
    if sent != want_sent:
        # on a sound tree the mapping is the identity for every descriptor (checked on every run); a difference means
        # the process state of the harness was damaged by an earlier transfer of this case
        verd.report(sig_of(c, "sent-value-corrupted"), "%s: the harness made %s from descriptor %s (memory of the host "
                    "process damaged by an earlier transfer)" % (what, json.dumps(sent)[:300], json.dumps(want_sent)[:300]), rep)
        return False
    stats["observations"] += len(c["obs"])
    if res["o"] != c["obs"]:
        verd.report(sig_of(c, "mismatch"), "%s: the receiving side shows %s, Boundary says %s" %
                    (what, json.dumps(res["o"])[:500], json.dumps(c["obs"])[:500]), rep)
        return False
    if c["route"] == "ctx" and res.get("after") != c["vals"]:
        verd.report(sig_of(c, "context-disturbed"), "%s: reading the field changed the context to %s" %
                    (what, json.dumps(res.get("after"))[:500]), rep)
        return False
    return True


def count_cfg(c, stats):
    stats["routes"][c["route"]] = stats["routes"].get(c["route"], 0) + 1
    for h in c["hops"]:
        stats["hops"][h] = stats["hops"].get(h, 0) + 1
    if c["route"] in ("pick", "hpick"):
        key = "%s_pos" % c["route"]
        stats[key][c["pos"]] = stats[key].get(c["pos"], 0) + 1
        stats["ks"][c["k"]] = stats["ks"].get(c["k"], 0) + 1
        if zero_sized(c["vec"][c["pos"] - 1]):
            stats["zst_args"][c["pos"]] = stats["zst_args"].get(c["pos"], 0) + 1
    if c["route"] == "ctx":
        stats["ctx_pos"][c["pos"]] = stats["ctx_pos"].get(c["pos"], 0) + 1
        stats["ctx_structs"].add(entry_id(c))
    syms = set()
    symbols(c["vec"][c["pos"] - 1], syms)
    for s in syms:
        stats["symbols"][s] = stats["symbols"].get(s, 0) + 1
    stats["types"].add(term_id(c["vec"][c["pos"] - 1]))
    if c["route"] in CONST_ROUTES + LIST_ROUTES:
        stats["family"].append((c["route"], c["vec"][0], c["vals"][0]))


def contains(t, heads):
    return t[0] in heads or any(contains(x, heads) for x in t[1:])


def rust_side(stats):
    """what rustc says about the Rust side of every table type (measured by the harness): id -> layout event"""
    if "rust_side" not in stats:
        r = vlib.run_bin("c05", ["--layouts"], timeout=300)
        if r.outcome != "returned":
            raise vlib.ToolError("c05 --layouts failed: %s %s" % (r.outcome, r.err[-300:]))
        evs = [json.loads(l) for l in r.out.splitlines() if l.strip()]
        stats["rust_side"] = {term_id(e["ty"]): e for e in evs}
    return stats["rust_side"]


def same_shape(e):
    """the Rust type and its mirror are different types of the same size and alignment"""
    return (not e["own_mirror"]) and e["rust_size"] == e["size"] and e["rust_align"] == e["align"] and e["size"] > 0


def family_guard(stats):
    """the registered-constant direction and the Rust-side construction routes must really occur, on the types where
    the Rust representation and the Roto representation differ, with values that tell the two apart"""
    rs = rust_side(stats)
    fam = {"const_classes": {}, "construction_classes": {}}
    for route in CONST_ROUTES:
        cs = [(t, v) for (r, t, v) in stats["family"] if r == route]
        for h in ("Option", "Result", "Verdict", "List"):
            n = sum(1 for t, v in cs if contains(t, (h,)))
            fam["const_classes"]["%s/%s" % (route, h)] = n
            if not n:
                raise vlib.ToolError("no registered constant of a type with %s on route %s (vacuous)" % (h, route))
        diff = [(t, v) for t, v in cs if not rs[term_id(t)]["own_mirror"]]
        shape = [(t, v) for t, v in diff if same_shape(rs[term_id(t)])]
        fam["const_classes"][route + "/mirror-differs"] = len(diff)
        fam["const_classes"][route + "/mirror-differs-same-size-and-alignment"] = len(shape)
        fam["const_classes"][route + "/types"] = len({term_id(t) for t, v in cs})
        for k in ("Some", "None"):
            if not any(v["k"] == k for t, v in shape):
                raise vlib.ToolError("no registered constant %s of an Option type whose mirror has the same size and "
                                     "alignment on route %s (vacuous)" % (k, route))
    for route in LIST_ROUTES:
        cs = [(t, v) for (r, t, v) in stats["family"] if r == route]
        shape = [(t, v) for t, v in cs if same_shape(rs[term_id(t[1])])]
        both = [(t, v) for t, v in shape if {"Some", "None"} <= {e["k"] for e in v["e"]}]
        ctrl = [(t, v) for t, v in cs if not same_shape(rs[term_id(t[1])])]
        fam["construction_classes"][route] = {
            "lists": len(cs), "element_types": len({term_id(t) for t, v in cs}),
            "element_types_same_size_and_alignment_other_encoding": len({term_id(t) for t, v in shape}),
            "lists_of_those_with_some_and_none": len(both), "controls": len(ctrl)}
        if len({term_id(t) for t, v in both}) < 3 or not ctrl:
            raise vlib.ToolError("construction route %s: fewer than 3 element types whose Rust type and mirror have the same "
                                 "size and alignment with a list holding Some and None, or no control (vacuous)" % route)
    stats["family_classes"] = fam


def vacuity_guard(stats, depth):
    for r in ROUTES:
        if not stats["routes"].get(r):
            raise vlib.ToolError("no configuration on route %s (vacuous)" % r)
    for h in CROSSINGS + SCRIPT_OPS:
        if not stats["hops"].get(h):
            raise vlib.ToolError("no configuration crosses %s (vacuous)" % h)
    for s in LEAVES + CTORS:
        if not stats["symbols"].get(s):
            raise vlib.ToolError("no configuration whose type under test mentions %s (vacuous)" % s)
    for p in range(1, 8):
        if not stats["pick_pos"].get(p) or not stats["hpick_pos"].get(p) or not stats["ks"].get(p):
            raise vlib.ToolError("argument position %d never under test (vacuous)" % p)
        if not stats["zst_args"].get(p):
            raise vlib.ToolError("no zero-sized argument at position %d (vacuous)" % p)
    for p in range(1, 5):
        if not stats["ctx_pos"].get(p):
            raise vlib.ToolError("no context field at position %d read (vacuous)" % p)
    if depth == 2 and not any(t.count("<") >= 2 for t in stats["types"]):
        raise vlib.ToolError("no type of depth 2 (vacuous)")


def spec_to_impl(tier, ev, verd, stats):
    depth = 1 if tier == "quick" else 2
    with ThreadPoolExecutor(max_workers=2) as ex:
        futs = [(p, ex.submit(tlc_part, p, depth)) for p in PARTS]
        runs = [(p, f.result()) for p, f in futs]
    cfgs = []
    for part, r in runs:
        ev.add_tlc(r)
        stats["tlc"][part] = {"states": r.distinct, "configurations": len(r.replay), "wall_s": round(r.wall, 1)}
        if part == "layout":
            stats["layout_root_types_checked_by_tlc"] = r.distinct - 13      # root + 12 block states
            # thorough: every root of depth <= 1 is also checked inside each one-level wrapper (MCBoundary!Wrapped)
            stats["layout_wrappers_per_root"] = 0 if depth == 1 else 2 + 4 * len(LEAVES)
        cfgs.extend(r.replay)
    for c in cfgs:
        count_cfg(c, stats)
    vacuity_guard(stats, depth)
    family_guard(stats)
    results = execute(cfgs, "replay")
    ok = 0
    for c, res in zip(cfgs, results):
        good = judge(c, res, verd, stats)
        ok += good
        nontrivial = c["vals"][c["pos"] - 1].get("c") not in ("unit", "z")
        ev.case({"route": c["route"], "vec": [term_id(t) for t in c["vec"]], "pos": c["pos"], "k": c["k"],
                 "sent": c["vals"][c["pos"] - 1], "obs": c["obs"]}, nontrivial,
                key=vlib.shash([c["route"], c["vec"], c["vals"], c["pos"], c["k"]]))
        ev.traces += 1
    stats["configurations"] = len(cfgs)
    stats["configurations_ok"] = ok
    return cfgs


# ---------------------------------------------------------------------------------- I->S

def validate_events(module, events, path, ev, on_reject, timeout=2400, heap="4g", max_rejects=8):
    """TLC trace validation; an event TLC rejects (or cannot even evaluate: malformed observation) is handed to
    `on_reject`, removed, and the rest is validated again.  Returns the number of accepted events."""
    for _ in range(max_rejects):
        vlib.write_ndjson(path, events)
        t = vlib.validate_trace(module, module + ".cfg", path, timeout=timeout, heap=heap)
        ev.add_tlc(t)
        if t.ok:
            return len(events), events
        if t.postcondition_failed and t.replay:
            line, e, why = t.replay[0]["line"], t.replay[0]["ev"], "rejected"
        elif t.error and 1 <= t.diameter <= len(events):
            # TLC threw while evaluating the next event (the observation does not even have the shape of a value):
            # `diameter` states were reached, so events 1..diameter-1 were matched
            line, e, why = t.diameter, events[t.diameter - 1], "not evaluable (%s)" % t.error[:120]
        else:
            raise vlib.ToolError("%s failed to run: %s\n%s" % (module, t.error, t.stdout[-2000:]))
        on_reject(line, e, why)
        events = [x for x in events if x != e]
    return 0, events


def layout_trace(ev, verd, stats):
    """rustc's layout of every table type must be what Layout says"""
    r = vlib.run_bin("c05", ["--layouts"], timeout=300)
    if r.outcome != "returned":
        verd.report({"route": "layout", "kind_of_failure": r.outcome.split(":")[0], "ty": "?", "zst_val_arg_before": "no"},
                    "measuring the layouts did not return normally: %s %s" % (r.outcome, r.err[-400:]), {"cmd": "c05 --layouts"})
        return
    events = [json.loads(l) for l in r.out.splitlines() if l.strip()]
    stats["layout_events"] = len(events)
    stats["layout_enum_events"] = sum(1 for e in events if e["offs"])
    path = os.path.join(vlib.workdir(PID, "trace"), "layout.ndjson")

    def rejected(line, e, why):
        verd.report({"route": "layout", "kind_of_failure": "layout-rejected", "ty": term_id(e["ty"]),
                     "zst_val_arg_before": "no", "passby": e.get("passby", "?")},
                    "rustc and the layout rule disagree on %s (%s): measured size %s align %s payload offsets %s, passed as %s "
                    "(%s bytes)" % (term_id(e["ty"]), why, e.get("size"), e.get("align"), e.get("offs"), e.get("passby"),
                                    e.get("param_size")), {"event": e, "trace": path})

    accepted, _ = validate_events("TraceLayout", events, path, ev, rejected, timeout=900)
    ev.traces += accepted
    stats["layout_events_accepted"] = accepted
    ev.impl_actions.add("Measured")


def gen_value(rng, t, depth=0):
    """generator only: the shape of a random value; leaves are drawn by the harness from the seed"""
    h = t[0]
    if len(t) == 1:
        return {"k": "v", "c": "?%d" % rng.randrange(1 << 40)}
    if h == "Option":
        return {"k": "None"} if rng.random() < 0.3 else {"k": "Some", "p": gen_value(rng, t[1], depth + 1)}
    if h == "List":
        n = rng.choice([0, 1, 2, 3, 5, 9]) if depth == 0 else rng.choice([0, 1, 3])
        return {"k": "L", "e": [gen_value(rng, t[1], depth + 1) for _ in range(n)]}
    names = ("Ok", "Err") if h == "Result" else ("Accept", "Reject")
    i = rng.randrange(2)
    return {"k": names[i], "p": gen_value(rng, t[1 + i], depth + 1)}


def random_configs(rng, n):
    tab = table()
    tys = sorted(i for i in tab if tab[i]["kind"] == "ty")
    vecs = sorted(i for i in tab if tab[i]["kind"] in ("pick", "hpick"))
    ctxs = sorted(i for i in tab if tab[i]["kind"] == "ctx")
    cfgs = []
    while len(cfgs) < n:
        x = rng.random()
        if x < 0.6:
            e = tab[rng.choice(tys)]
            t = e["term"]
            routes = (["id", "hecho", "hgive", "const"] + ([] if len(t) == 1 else ["build", "match", "constm", "consth"]) +
                      (["hmeth"] if len(t) == 1 and t != ["()"] else []) + (["buildf"] if t[0] == "Verdict" else []))
            if t[0] == "List":
                routes.append("index")
                routes.extend(LIST_ROUTES)
            r = rng.choice(routes)
            c = {"route": r, "vec": [t], "vals": [gen_value(rng, t)], "pos": 1, "k": rng.randrange(1, 4) if r == "index" else 1}
        elif x < 0.85:
            e = tab[rng.choice(vecs)]
            vec = e["term"]["vec"]
            c = {"route": e["kind"], "vec": vec, "vals": [gen_value(rng, t) for t in vec], "pos": e["term"]["k"], "k": e["term"]["k"]}
            if zst_val_arg_before(c) == "yes":
                continue        # known finding: it would stop the trace; the S->I part keeps it visible
        else:
            e = tab[rng.choice(ctxs)]
            fs = e["term"]["fields"]
            p = rng.randrange(len(fs)) + 1
            c = {"route": "ctx", "vec": fs, "vals": [gen_value(rng, t) for t in fs], "pos": p, "k": p}
        cfgs.append(c)
    return cfgs


def boundary_trace(tier, ev, verd, stats):
    rng = random.Random(vlib.seed() * 13 + 5)
    n = 3000 if tier == "quick" else 60000
    cfgs = random_configs(rng, n)
    results = execute(cfgs, "random")
    events = []
    for c, res in zip(cfgs, results):
        f = failure_of(res)
        if f:
            c2 = dict(c, obs=None)
            verd.report(sig_of(c, f), "random configuration (route %s, types %s): the transfer did not complete (%s): %s" %
                        (c["route"], [term_id(t) for t in c["vec"]], f, json.dumps(res)[:400]),
                        {"config": c2, "result": res})
            continue
        sent = res["sent"] if c["route"] in ("pick", "hpick", "ctx") else [res["sent"]]
        events.append({"route": c["route"], "vec": c["vec"], "vals": sent, "pos": c["pos"], "k": c["k"], "obs": res["o"]})
        ev.impl_actions.add("Transfer/" + c["route"])
    path = os.path.join(vlib.workdir(PID, "trace"), "boundary.ndjson")

    def rejected(line, e, why):
        c = {"route": e["route"], "vec": e["vec"], "vals": e["vals"], "pos": e["pos"], "k": e["k"]}
        verd.report(sig_of(c, "trace-rejected"),
                    "recorded transfer is not a behaviour of Boundary (line %s, %s): route %s, types %s, sent %s, the receiving "
                    "side showed %s" % (line, why, e["route"], [term_id(t) for t in e["vec"]], json.dumps(e["vals"])[:400],
                                        json.dumps(e["obs"])[:400]), {"event": e, "trace": path})

    accepted, events = validate_events("TraceBoundary", events, path, ev, rejected, heap="6g")
    ev.traces += accepted
    stats["random_events"] = len(events)
    stats["random_events_accepted"] = accepted
    for need in ROUTES:
        if "Transfer/" + need not in ev.impl_actions and not verd.violations:
            raise vlib.ToolError("the random trace has no transfer on route %s (vacuous)" % need)


# ----------------------------------------------------------------------------------- run

def new_stats():
    return {"routes": {}, "hops": {}, "pick_pos": {}, "hpick_pos": {}, "ks": {}, "zst_args": {}, "ctx_pos": {},
            "ctx_structs": set(), "symbols": {}, "types": set(), "tlc": {}, "observations": 0, "family": []}


def probe_exclusions(stats):
    """context field types outside the documented set: recorded, not asserted"""
    r = vlib.run_bin("c05", ["--probe-ctx"], timeout=120)
    if r.outcome == "returned" and r.out.strip():
        try:
            p = json.loads(r.out.strip().splitlines()[-1])
            stats["context_field_types_not_supported"] = {
                k: (v.get("panic") or v.get("setup_error") or v.get("compile_error") or "works")[:120] for k, v in p.items()}
        except ValueError:
            pass


def run(tier):
    ev = Evidence(PID, tier)
    verd = Verdicts(PID)
    vlib.build_harness(["c05"])
    table()
    stats = new_stats()
    ev.rule = ("case = one configuration emitted by TLC (route, types that travel, position under test, values sent) with the "
               "observations Boundary prescribes, executed on the real crate; distinct = distinct (route, types, values, "
               "position, observed position); non-trivial = the value under test is not the single value of a zero-sized type "
               "(those only show something through their neighbours)")
    try:
        spec_to_impl(tier, ev, verd, stats)
        layout_trace(ev, verd, stats)
        boundary_trace(tier, ev, verd, stats)
    except vlib.ToolError as e:
        if not verd.violations:
            raise
        # never let a tool problem hide violations that were already found
        vlib.log("TOOL-ERROR after violations were found: %s" % e)
    probe_exclusions(stats)
    ev.exhaustive = True
    ev.extra["tlc_parts"] = stats["tlc"]
    ev.extra["configurations"] = stats.get("configurations")
    ev.extra["configurations_received_equals_sent"] = stats.get("configurations_ok")
    ev.extra["observations_compared"] = stats["observations"]
    ev.extra["configurations_by_route"] = stats["routes"]
    ev.extra["hops_by_kind"] = stats["hops"]
    ev.extra["types_under_test"] = len(stats["types"])
    ev.extra["registered_constant_and_construction_route_classes"] = stats.get("family_classes")
    ev.extra["types_under_test_mentioning"] = stats["symbols"]
    ev.extra["pick_position_counts"] = stats["pick_pos"]
    ev.extra["hpick_position_counts"] = stats["hpick_pos"]
    ev.extra["observed_position_counts"] = stats["ks"]
    ev.extra["zero_sized_argument_position_counts"] = stats["zst_args"]
    ev.extra["context_structs"] = len(stats["ctx_structs"])
    ev.extra["context_field_position_counts"] = stats["ctx_pos"]
    ev.extra["layout_root_types_checked_by_tlc"] = stats.get("layout_root_types_checked_by_tlc")
    ev.extra["layout_wrappers_checked_per_root_of_depth_le_1"] = stats.get("layout_wrappers_per_root")
    ev.extra["layout_events"] = stats.get("layout_events")
    ev.extra["layout_events_of_enums_with_measured_offsets"] = stats.get("layout_enum_events")
    ev.extra["layout_events_accepted"] = stats.get("layout_events_accepted")
    ev.extra["random_transfers_recorded"] = stats.get("random_events")
    ev.extra["random_transfers_accepted"] = stats.get("random_events_accepted")
    ev.extra["context_field_types_not_supported"] = stats.get("context_field_types_not_supported")
    ev.assumptions = [
        "types: 20 leaves (13 scalars, String, IpAddr, Prefix, (), three registered Val types of 0 / 1 / 24 bytes); every Option / "
        "List of a leaf; Result / Verdict of a leaf and one of {u8,u16,u32,u64,(),Z0,T24} in either order (522 types); element-stride "
        "types: Option[IpAddr] and Result / Verdict of IpAddr with one of {u32,u64,String,T24} in either order (the enums whose size "
        "is decided by the final rounding of the union, and their controls), each alone and as the element type of a list built by "
        "the script / indexed by the script (543 types in quick); thorough: "
        "plus depth 2 over {u8,T24} (a binary constructor with at most one non-leaf argument) and 8 hand-picked nestings (650)",
        "registered constants: returned (const), taken apart by the script (constm) and handed on to a registered function "
        "(consth) for every non-leaf type; not compared in the script (`==` on enum / list operands is undocumented); "
        "construction routes of a list on the Rust side (List::from(Vec), collect(), List::new + push, List::from([A; N]) with "
        "N <= 16, read back with to_vec) for every list type of the run, element types: Option of each of the 13 leaves "
        "without a niche (Rust type and mirror of the same size and alignment, measured by the harness), controls "
        "Option[String], Option[bool], u32, Result[u32,u32], Result[u64,u8], Verdict[u32,u64]",
        "argument positions: seven-parameter vectors (an all-integer base and a mixed base) with the type under test (20 leaves + 9 "
        "compound types) at every position; other arities only as the one-parameter routes",
        "context fields: registered leaf types only ((), Option, List fields are refused or panic at compile time: recorded in "
        "context_field_types_not_supported, not asserted); 75 structs = every declared order of 8 field sets",
        "values: the edge classes of Boundary!ClassSeq per leaf, every variant, lists of length 0 / 1 / all classes; random values "
        "only in the recorded trace; signalling NaNs are not sent; floats are compared by bits, lists by content",
        "leaf sizes / alignments of opaque types (IpAddr 17/1, Prefix 32/16, String 16/8, List 8/8) are constants of Layout, "
        "validated against rustc by the layout trace; x86-64 only",
        "script literals as a source of values (C01/C09) and methods (`impl` blocks) are not exercised: host functions are free "
        "functions",
    ]
    rc = verd.finish()
    ev.write(len(verd.violations))
    return rc


def replay(path):
    obj = json.load(open(path))["replay"]
    vlib.build_harness(["c05"])
    verd = Verdicts(PID)
    stats = new_stats()
    if "config" in obj:
        c = dict(obj["config"])
        if obj.get("expected_obs") is not None:
            c["obs"] = obj["expected_obs"]
            res = execute([c], "replay1", nproc=1)[0]
            print(json.dumps(res)[:2000])
            judge(c, res, verd, stats)
        else:
            ev = Evidence(PID, "quick")
            res = execute([c], "replay1", nproc=1)[0]
            print(json.dumps(res)[:2000])
            f = failure_of(res)
            if f:
                verd.report(sig_of(c, f), "the transfer did not complete (%s)" % f, obj)
    elif "event" in obj and "route" in obj["event"]:
        e = obj["event"]
        p = os.path.join(vlib.workdir(PID, "trace"), "replay.ndjson")
        vlib.write_ndjson(p, [e])
        t = vlib.validate_trace("TraceBoundary", "TraceBoundary.cfg", p)
        if not t.ok:
            c = {"route": e["route"], "vec": e["vec"], "vals": e["vals"], "pos": e["pos"], "k": e["k"]}
            verd.report(sig_of(c, "trace-rejected"), "recorded transfer is not a behaviour of Boundary: %s" % json.dumps(e)[:600], obj)
    elif "event" in obj:
        r = vlib.run_bin("c05", ["--layouts"], timeout=300)
        want = obj["event"]["ty"]
        evs = [json.loads(l) for l in r.out.splitlines() if l.strip()]
        evs = [e for e in evs if e["ty"] == want]
        p = os.path.join(vlib.workdir(PID, "trace"), "replay.ndjson")
        vlib.write_ndjson(p, evs)
        t = vlib.validate_trace("TraceLayout", "TraceLayout.cfg", p)
        print(json.dumps(evs))
        if not t.ok:
            e = evs[0]
            verd.report({"route": "layout", "kind_of_failure": "layout-rejected", "ty": term_id(e["ty"]), "zst_val_arg_before": "no",
                         "passby": e.get("passby", "?")}, "rustc and the layout rule disagree on %s" % term_id(e["ty"]), obj)
    return verd.finish()
