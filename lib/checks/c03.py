"""C03 - every host value a script owns is released exactly once on every path.

Two bindings, both decided by TLC:

(a) artefact -> spec (ALL paths): the cfg-guarded hook roto::verif::mir_json exports the MIR that the
    real compiler emitted for seeded random programs (and for the scripts of roto's own test suite
    that compile against the harness runtime); spec/MirOwn.tla takes those control-flow graphs as its
    constant program and TLC explores every path of every function under an abstract ownership
    state: no read/clone/move/drop of a value that is not (fully) initialised on that path (double
    drop, use after move, dropping a half-built aggregate), no overwrite of a value that still owns
    something (leak), nothing droppable left at return.
(b) implementation -> spec (executed paths): the same programs run natively with a drop-tracked
    registered host type (values created by mk(), stored in records / enums / options / lists,
    copied, passed, returned from helper functions, discarded on early return, ? on None, failed
    guards, loops); the create/clone/drop events of every call are validated by TLC against
    spec/Own.tla (TraceOwn.tla: every drop hits a live instance, nothing is alive when the call
    ends), and the mk/use host-call log and results against RotoSem (TraceSem.tla: a use after drop
    reads a poisoned value).
"""
import json
import os
import re

import mirlib
import semlib
import vlib

PID = "C03"
FEATS = ["ints", "bool", "str", "rec", "enum", "opt", "list", "loops", "calls", "ret", "copymut", "tr", "fstr", "filtermap", "generic", "shadow", "kconst", "mods"]


def corpus_scripts():
    """scripts of roto's own test suite (src/codegen/tests.rs): those that compile with the harness
    runtime are analysed statically"""
    path = os.path.join(vlib.REPO, "src", "codegen", "tests.rs")
    try:
        text = open(path).read()
    except OSError:
        return []
    out = []
    for m in re.finditer(r'src!\(\s*r?#*"(.*?)"#*\s*\)', text, re.S):
        s = m.group(1)
        if len(s) < 4000:
            out.append(s.replace('\\"', '"').replace("\\n", "\n").replace("\\\\", "\\"))
    return out


def own_trace(cases, results, verd, ev):
    """TraceOwn validation of the ownership events of every call"""
    d = vlib.workdir(PID, "own")
    events = []
    index = []          # event line -> (case, call)
    ncalls = 0
    for c, res in zip(cases, results):
        if "r" not in res or res["r"].get("compile") != "ok":
            continue
        for k, call in enumerate(res["r"]["calls"]):
            if "own" not in call:
                continue
            events.append({"ev": "reset"})
            index.append((c, k))
            for (kind, i, src) in call["own"]:
                events.append({"ev": kind, "id": i, "src": src})
                index.append((c, k))
            events.append({"ev": "end"})
            index.append((c, k))
            ncalls += 1
            ev.impl_actions.update(x[0] for x in call["own"])
    nvalid = 0
    start = 0
    guard = 0
    while start < len(events) and guard < 50:
        guard += 1
        path = os.path.join(d, "own_%d.ndjson" % start)
        vlib.write_ndjson(path, events[start:])
        r = vlib.validate_trace("TraceOwn", "TraceOwn.cfg", path, timeout=1800, heap="4g")
        ev.add_tlc(r)
        if r.ok:
            nvalid += sum(1 for e in events[start:] if e["ev"] == "end")
            break
        if r.postcondition_failed and r.replay:
            line = start + r.replay[0]["line"] - 1
            c, k = index[line]
            e = events[line]
            kind = {"drop": "drop-of-dead-or-unknown-instance", "clone": "clone-from-dead-instance",
                    "end": "instances-alive-at-return", "create": "id-reused"}.get(e["ev"], e["ev"])
            verd.report({"part": "dynamic", "kind_of_failure": kind},
                        "ownership events of a native call are not a behaviour of Own: %s at event %s\n%s" %
                        (kind, e, c["src"][:2500]), {"src": c["src"], "ins": c["runs"][k], "event": e})
            nvalid += sum(1 for x in events[start:line] if x["ev"] == "end")
            # resume after the call that failed
            nxt = line + 1
            while nxt < len(events) and events[nxt]["ev"] != "reset":
                nxt += 1
            start = nxt
            continue
        raise vlib.ToolError("TraceOwn failed to run: %s\n%s" % (r.error, r.stdout[-1500:]))
    return nvalid, ncalls


def run(tier):
    ev = vlib.Evidence(PID, tier)
    verd = vlib.Verdicts(PID)
    vlib.build_harness(["sem"])
    nprog = 500 if tier == "quick" else 8000
    cases = semlib.make_cases(vlib.seed(), nprog, 2, FEATS, 3, tagp=PID)
    cases += semlib.make_cases(vlib.seed(), nprog // 3, 2, ["ints", "bool", "rec", "enum", "opt", "list", "loops", "calls", "ret", "tr", "str"], 4, tagp=PID + "deep")
    for i, c in enumerate(cases):
        c["id"] = i
    hc = [{"src": c["src"], "mir": True, "calls": [{"fn": "main", "ret": c["rt"], "ins": r, "args": []} for r in c["runs"]]}
          for c in cases]
    import time
    t0 = time.time()
    results = vlib.run_batch("sem", hc, nproc=10, stall=30, pid=PID, tag="gen")
    vlib.log("C03 native", round(time.time() - t0, 1))
    # --- (b) dynamic: RotoSem (results + mk/use log) and Own (create/clone/drop events)
    nv, ncf, kinds = semlib.validate(PID, cases, results, verd, ev, "gen", sig_extra={"part": "dynamic"})
    ev.extra["generated_programs_rejected_by_the_compiler"] = ncf
    if ncf * 50 > len(cases):
        raise vlib.ToolError("generator defect: %d of %d programs rejected by the compiler" % (ncf, len(cases)))
    vlib.log("C03 tracesem", round(time.time() - t0, 1))
    nown, ncalls = own_trace(cases, results, verd, ev)
    vlib.log("C03 traceown", round(time.time() - t0, 1))
    ev.traces += nv + nown
    ev.extra["calls_with_ownership_events_validated"] = nown
    ev.extra["ownership_events"] = sum(len(call.get("own", [])) for r in results if "r" in r and r["r"].get("compile") == "ok"
                                       for call in r["r"]["calls"])
    for c, res in zip(cases, results):
        if "r" in res and res["r"].get("compile") == "ok":
            for k, run_ in enumerate(c["runs"]):
                nown_ev = len(res["r"]["calls"][k].get("own", []))
                ev.case({"src": c["src"][:900], "ins": run_[:6], "ownership_events": nown_ev}, nown_ev > 0,
                        key=vlib.shash([c["src"], run_]))
    # --- (a) static: MirOwn over the emitted MIR of generated programs and roto's own test scripts
    items = []
    origin = {}
    for c, res in zip(cases, results):
        if "r" in res and res["r"].get("compile") == "ok" and res["r"].get("mir"):
            for it in res["r"]["mir"]:
                items.append(mirlib.prep_item(it, len(items)))
                origin[len(items) - 1] = c["src"]
    corpus = corpus_scripts()
    if corpus:
        cres = vlib.run_batch("sem", [{"src": s, "mir": True, "mir_only": True, "calls": []} for s in corpus], nproc=6,
                              stall=30, pid=PID, tag="corpus")
        ncorp = 0
        for s, res in zip(corpus, cres):
            if "r" in res and res["r"].get("mir"):
                ncorp += 1
                for it in res["r"]["mir"]:
                    items.append(mirlib.prep_item(it, len(items)))
                    origin[len(items) - 1] = s
        ev.extra["test_suite_scripts_analysed"] = ncorp
    nfun = len(items)
    vlib.log("C03 corpus", round(time.time() - t0, 1), "functions", nfun)
    viols = []
    step = 400
    for ci in range(0, nfun, step):
        part = items[ci:ci + step]
        for j, it in enumerate(part):
            it["idx"] = ci + j
        r, vs = mirlib.check_functions(PID, part, "mir_%d" % ci)
        ev.add_tlc(r)
        viols += vs
    vlib.log("C03 mirown", round(time.time() - t0, 1))
    ev.extra["functions_explored_on_all_paths"] = nfun
    ikinds = {}
    for it in items:
        for b in it["blocks"]:
            for ins in b["ins"]:
                k = ins["k"] + (":" + ins["val"]["k"] if ins["k"] == "assign" else "")
                ikinds[k] = ikinds.get(k, 0) + 1
    ev.extra["mir_instruction_kinds"] = ikinds
    need = ["assign:clone", "assign:move", "assign:call", "assign:callrt", "assign:discr", "setdiscr", "drop", "switch", "jump", "return"]
    missing = [k for k in need if not ikinds.get(k)]
    if missing:
        raise vlib.ToolError("MIR instruction kinds never seen (vacuous run): %s" % missing)
    for v in viols:
        blk = re.sub(r"#LabelRef\(\d+\)", "", v["block"])
        blk = re.sub(r"\d+", "N", blk)
        verd.report({"part": "static", "kind_of_failure": v["kind"], "block_class": blk.split("$")[-1] if "$" in blk else blk},
                    "MirOwn: %s of variable %s in block %s of function %s (some path through the emitted MIR reaches it)\n%s" %
                    (v["kind"], v["var"], v["block"], v["fn"], origin.get(v["idx"], "")[:2500]),
                    {"src": origin.get(v["idx"], ""), "violation": v})
    ev.traces += nfun
    ev.exhaustive = False
    ev.rule = ("static: every function of every generated program and of the compiling test-suite scripts is explored on "
               "all paths by TLC (MirOwn); dynamic: cases = native calls; distinct = distinct (source, inputs); non-trivial = "
               "the call created, cloned or dropped at least one tracked host value")
    ev.assumptions = ["MirOwn abstracts values to initialised/uninitialised per droppable leaf; enum payloads are judged "
                      "under the variant known from a switch on the discriminant",
                      "run-time accounting covers the tracked registered type; Strings and Lists are covered statically",
                      "entry functions return scalars, so nothing may be alive after a call"]
    rc = verd.finish()
    ev.write(len(verd.violations))
    return rc


def replay(path):
    obj = json.load(open(path))["replay"]
    print(obj.get("src", ""))
    return run("quick")
