"""C16 - lists stay memory-safe and linearizable when shared between threads.

Spec: spec/ListConc.tla (+ MCListConc.tla constants, GenListConc.tla behaviour generation).

1. Probes: three fixed schedules run on the real code (through the cfg-guarded schedule
   points of src/value/list.rs and the harness element type whose Clone is a pausing point)
   determine which locking discipline the code follows (does get still hold the lock when it
   clones the element?  does == / concat take its two locks in the global order?  does concat
   hold both operand locks at once?).  They select the constants FixGet/FixEq/FixConcat.
2. TLC checks ListConc with exactly that discipline, exhaustively for 2 threads x 2 operations
   (thorough: also 3 x 1, 2 x 3 on a reduced alphabet): NoStaleUse, Linearizable, TypeOK and
   deadlock freedom.  A violated invariant is a design-level proof that the discipline the code
   follows admits the bad state; the check then generates every behaviour of the 1-operation
   model, keeps those the spec marks stale / non-linearizable (and the ABBA schedule for a
   deadlock), imposes them on the real code and reports the confirmed ones as VIOLATION.
3. Conformance S->I: seeded TLC simulation walks (+ all behaviours of the 1-operation model) are
   imposed step by step on the real lists; after every step the instrumentation events, the
   pausing point reached, completion and result must equal the specification's.
"""
import json
import os

import vlib
from vlib import Evidence, Verdicts, run_tlc, require_tlc_ok

PID = "C16"
ALL_KINDS = ["get", "sget", "push", "swap", "len", "contains", "tovec", "concat", "eq", "seq", "clonedrop"]
INIT = [[10, 11, 12, 13], [20]]


def tlabool(b):
    return "TRUE" if b else "FALSE"


def write_cfg(path, variant, spec, threads, maxops, kinds, invariants, deadlock=True):
    with open(path, "w") as f:
        f.write("SPECIFICATION %s\nCONSTANTS\n  Threads = {%s}\n  Lists = {1, 2}\n  MaxOps = %d\n"
                "  Ops <- MCOps\n  InitBuf <- MCInitBuf\n  FixGet = %s\n  FixSGet = %s\n  FixEq = %s\n  FixSEq = %s\n  FixConcat = %s\n"
                "  OpKinds = {%s}\n" % (spec, ", ".join(str(t) for t in range(1, threads + 1)), maxops,
                                        tlabool(variant["get"]), tlabool(variant["sget"]), tlabool(variant["eq"]), tlabool(variant["seq"]),
                                        tlabool(variant["concat"]),
                                        ", ".join('"%s"' % k for k in kinds)))
        if invariants:
            f.write("INVARIANTS %s\n" % " ".join(invariants))
        if not deadlock:
            f.write("CHECK_DEADLOCK FALSE\n")


def steps(*xs):
    return [dict(x) for x in xs]


def probe_cases():
    g = {"initbuf": INIT, "threads": 2, "steps": steps(
        {"t": 1, "act": "start", "op": {"k": "get", "l": 1, "i": 0}},
        {"t": 1, "act": "step"},                       # -> parked at the clone of element 0
        {"t": 2, "act": "start", "op": {"k": "push", "l": 1, "v": 9}},
        {"t": 2, "act": "step", "may_block": True},    # completes iff the lock is NOT held by t1
        {"t": 1, "act": "step"})}
    sg = json.loads(json.dumps(g))
    sg["steps"][0]["op"]["k"] = "sget"
    e = {"initbuf": INIT, "threads": 2, "steps": steps(
        {"t": 1, "act": "start", "op": {"k": "eq", "a": 2, "b": 1}})}
    se = {"initbuf": INIT, "threads": 2, "steps": steps(
        {"t": 1, "act": "start", "op": {"k": "seq", "a": 2, "b": 1}})}
    # the same on the second thread, whose handles lie in the opposite order in memory
    e2 = {"initbuf": INIT, "threads": 2, "steps": steps(
        {"t": 2, "act": "start", "op": {"k": "eq", "a": 2, "b": 1}})}
    se2 = {"initbuf": INIT, "threads": 2, "steps": steps(
        {"t": 2, "act": "start", "op": {"k": "seq", "a": 1, "b": 2}})}
    c3 = {"initbuf": INIT, "threads": 2, "steps": steps(
        {"t": 2, "act": "start", "op": {"k": "concat", "a": 2, "b": 1}})}
    c = {"initbuf": INIT, "threads": 2, "steps": steps(
        {"t": 1, "act": "start", "op": {"k": "concat", "a": 1, "b": 2}},
        {"t": 1, "act": "step"},                       # first critical section done
        {"t": 2, "act": "start", "op": {"k": "len", "l": 1}},
        {"t": 2, "act": "step", "may_block": True},    # blocks iff t1 still holds list 1
        {"t": 1, "act": "step"})}
    c2 = {"initbuf": INIT, "threads": 2, "steps": steps(
        {"t": 1, "act": "start", "op": {"k": "concat", "a": 2, "b": 1}})}
    sc = json.loads(json.dumps(c))
    sc["steps"][0]["op"]["k"] = "sconcat"
    return {"get": g, "sget": sg, "eq": e, "seq": se, "concat": c, "concat_order": c2, "sconcat": sc,
            "eq_t2": e2, "seq_t2": se2, "concat_order_t2": c3}


def lock_probes(verd, variant):
    """While an operation runs one of the element callbacks (Clone / PartialEq of the element type) it must
    hold the lock of the list whose elements it touches: at that point another thread's len() on the same list
    has to block.  (For get the discipline is a model constant and handled by detect_variant.)"""
    def probe(op, nsteps, lists):
        st = [{"t": 1, "act": "start", "op": op}] + [{"t": 1, "act": "step"}] * nsteps
        for l in lists:
            st += [{"t": 2, "act": "start", "op": {"k": "len", "l": l}}, {"t": 2, "act": "step", "may_block": True},
                   {"t": 1, "act": "step", "may_block": True}, {"t": 2, "act": "step", "may_block": True}]
        return {"initbuf": INIT, "threads": 2, "elem_pause": True, "steps": steps(*st)}
    both = 2 if variant["concat"] else 1
    ps = {
        "contains": (probe({"k": "contains", "l": 1, "v": 13}, 1, [1]), 2),
        "index": (probe({"k": "index", "l": 1, "v": 13}, 1, [1]), 2),
        "tovec": (probe({"k": "tovec", "l": 1}, 1, [1]), 2),
        "concat": (probe({"k": "concat", "a": 1, "b": 2}, both, [1]), both + 1),
        "sconcat": (probe({"k": "sconcat", "a": 1, "b": 2}, both, [1]), both + 1),
    }
    names = list(ps)
    res = vlib.run_batch("c16", [ps[n][0] for n in names], nproc=1, stall=20, pid=PID, tag="lockprobe")
    out = {}
    for n, r in zip(names, res):
        if "r" not in r:
            verd.report({"kind_of_failure": vlib.outcome_of(r).split(":")[0], "ops": n},
                        "lock probe for %s did not survive: %s" % (n, r), {"case": ps[n][0], "result": r})
            continue
        st = r["r"]["steps"]
        k_elem = ps[n][1] - 1          # index of the step after which t1 is parked in an element callback
        k_probe = ps[n][1] + 1         # index of t2's granted len()
        parked = (st[k_elem].get("parked") or {}) if len(st) > k_elem else {}
        if parked.get("k") != "elem":
            # the probe is vacuous (this silently happened to contains / index once they cloned the needle before taking the
            # lock: the one-shot element pause was used up outside the lock): never accept that quietly
            raise vlib.ToolError("lock probe for %s reached no element callback after the acquire point (parked: %s)" % (n, parked))
        held = len(st) > k_probe and st[k_probe].get("blocked") is True
        out[n] = "lock held" if held else "LOCK NOT HELD"
        if not held:
            verd.report({"kind_of_failure": "unlocked-element-access", "ops": n},
                        "%s touches the elements of list 1 (element callback running) while another thread's len() on that "
                        "list completes: the list's lock is not held during the access" % n, {"case": ps[n][0], "result": r})
    return out


def detect_variant(verd):
    pc = probe_cases()
    names = list(pc)
    res = vlib.run_batch("c16", [pc[n] for n in names], nproc=1, stall=15, pid=PID, tag="probe")
    out = {}
    for n, r in zip(names, res):
        if "r" not in r:
            raise vlib.ToolError("probe %s did not run: %s" % (n, r))
        out[n] = r["r"]["steps"]

    def blocked(st, k):
        return len(st) > k and st[k].get("blocked") is True

    def parked_clone(st, k):
        return len(st) > k and (st[k].get("parked") or {}).get("k") == "clone"

    info = {}
    # get: after step 1 the thread must be parked at the clone of the element
    for n in ("get", "sget"):
        if not parked_clone(out[n], 1):
            raise vlib.ToolError("probe %s: get did not reach the element clone pausing point: %s" % (n, out[n]))
        info[n + "_holds_lock_while_cloning"] = blocked(out[n], 3)
    for n in ("eq", "seq", "eq_t2", "seq_t2", "concat_order_t2"):
        p = out[n][0].get("parked") or {}
        if p.get("k") != "acquire":
            raise vlib.ToolError("probe %s: == did not stop before a lock acquisition: %s" % (n, out[n]))
        info[n + "_first_lock"] = p.get("l")
    for n in ("concat", "sconcat"):
        info[n + "_holds_first_lock"] = blocked(out[n], 3)
    p = out["concat_order"][0].get("parked") or {}
    info["concat_first_lock_for_(2,1)"] = p.get("l")
    rust_script_agree = (info["get_holds_lock_while_cloning"] == info["sget_holds_lock_while_cloning"]
                         and info["eq_first_lock"] == info["seq_first_lock"]
                         and info["concat_holds_first_lock"] == info["sconcat_holds_first_lock"])
    variant = {
        "get": info["get_holds_lock_while_cloning"],
        "sget": info["sget_holds_lock_while_cloning"],
        "eq": info["eq_first_lock"] == 1 and info["eq_t2_first_lock"] == 1,
        "seq": info["seq_first_lock"] == 1 and info["seq_t2_first_lock"] == 1,
        "concat": info["concat_holds_first_lock"] and info["sconcat_holds_first_lock"]
                  and info["concat_first_lock_for_(2,1)"] == 1 and info["concat_order_t2_first_lock"] == 1,
    }
    info["rust_and_script_paths_agree"] = rust_script_agree
    return variant, info


def dedupe(cases):
    seen = {}
    for c in cases:
        seen.setdefault(vlib.shash(c["steps"]), c)
    return list(seen.values())


def to_impl_case(c, threads):
    return {"initbuf": c["initbuf"], "threads": threads,
            "steps": [{"t": s["t"], "act": s["act"], "op": s["op"]} for s in c["steps"]]}


def compare(c, res, verd, ev, what):
    """Step-by-step comparison of an imposed behaviour with the spec's observations."""
    sched = [(s["t"], s["act"], s["op"].get("k")) for s in c["steps"]]
    ops = sorted({s["op"]["k"] for s in c["steps"] if s["act"] == "start"})
    if "r" not in res:
        verd.report({"kind_of_failure": vlib.outcome_of(res).split(":")[0], "ops": "+".join(ops)},
                    "%s: the real list code did not survive the imposed schedule %s: %s" % (what, sched, res),
                    {"case": c, "result": res})
        return False
    im_steps = res["r"]["steps"]
    for k, sp in enumerate(c["steps"]):
        if k >= len(im_steps):
            verd.report({"kind_of_failure": "diverged", "ops": "+".join(ops)},
                        "%s: implementation stopped following the schedule at step %d of %s" % (what, k, sched),
                        {"case": c, "result": res})
            return False
        im = im_steps[k]
        for e in im.get("ev", []):
            if isinstance(e, list) and e[0] == "use" and e[1] is True:
                verd.report({"kind_of_failure": "stale-pointer-use", "ops": "+".join(ops)},
                            "%s: an element was cloned through a pointer into storage that a concurrent push had "
                            "reallocated (schedule %s, step %d)" % (what, sched, k), {"case": c, "result": res})
                return False
        if im.get("blocked"):
            verd.report({"kind_of_failure": "deadlock", "ops": "+".join(ops)},
                        "%s: thread %s never came back from step %d of schedule %s (waiting for a lock)" %
                        (what, sp["t"], k, sched), {"case": c, "result": res})
            return False
        if "error" in im:
            verd.report({"kind_of_failure": "lock-structure", "ops": "+".join(ops)},
                        "%s: step %d of schedule %s impossible on the real code: %s (the code takes fewer pausing "
                        "points than ListConc for this operation)" % (what, k, sched, im["error"]),
                        {"case": c, "result": res})
            return False
        exp_park = None if sp["parked"]["k"] == "none" else sp["parked"]
        if sp["done"] and im.get("done") and im.get("res") != sp["res"]:
            verd.report({"kind_of_failure": "wrong-result", "ops": "+".join(ops)},
                        "%s: under schedule %s operation completed at step %d with %r, ListConc specifies %r" %
                        (what, sched, k, im.get("res"), sp["res"]), {"case": c, "result": res})
            return False
        if im.get("ev") != sp["ev"] or im.get("done") != sp["done"] or im.get("parked") != exp_park:
            verd.report({"kind_of_failure": "lock-structure", "ops": "+".join(ops)},
                        "%s: step %d of schedule %s: ListConc expects events=%s done=%s parked=%s, the real code did "
                        "events=%s done=%s parked=%s" % (what, k, sched, sp["ev"], sp["done"], exp_park, im.get("ev"),
                                                         im.get("done"), im.get("parked")), {"case": c, "result": res})
            return False
    return True


def run(tier):
    ev = Evidence(PID, tier)
    verd = Verdicts(PID)
    vlib.build_harness(["c16"])
    d = vlib.workdir(PID, "cfg")
    variant, info = detect_variant(verd)
    ev.extra["locking_discipline_detected"] = info
    ev.extra["model_constants"] = {"FixGet": variant["get"], "FixSGet": variant["sget"], "FixEq": variant["eq"],
                                   "FixSEq": variant["seq"], "FixConcat": variant["concat"]}
    vlib.log("C16 variant", variant, info)
    ev.extra["element_access_under_lock"] = lock_probes(verd, variant)
    vlib.log("C16 lock probes", ev.extra["element_access_under_lock"])

    # ---- 2. exhaustive model checking of the discipline the code follows
    plans = [(2, 2, ALL_KINDS)]
    if tier == "thorough":
        plans += [(3, 1, ALL_KINDS), (2, 3, ["get", "sget", "push", "concat", "eq", "swap", "len"]),
                  (3, 2, ["get", "push", "concat", "seq"])]
    design_violations = []
    for (nt, mo, kinds) in plans:
        for inv in ("NoStaleUse", "Linearizable"):
            cfg = os.path.join(d, "mc_%d_%d_%s.cfg" % (nt, mo, inv))
            write_cfg(cfg, variant, "Spec", nt, mo, kinds, ["TypeOK", inv])
            r = run_tlc("MCListConc", cfg, workers=6, timeout=7200, heap="10g", coverage=False)
            ev.add_tlc(r)
            if r.invariant_violated:
                design_violations.append(r.invariant_violated)
            elif r.deadlock:
                design_violations.append("Deadlock")
            elif not r.ok:
                require_tlc_ok(r, "MCListConc %dx%d %s" % (nt, mo, inv))
    design_violations = sorted(set(design_violations))
    ev.extra["design_violations_of_detected_discipline"] = design_violations

    # ---- 3. behaviours imposed on the implementation
    cases = []
    cfg = os.path.join(d, "gen_1op.cfg")
    write_cfg(cfg, variant, "MCSpec", 2, 1, ALL_KINDS, ["Emit"], deadlock=False)
    r = run_tlc("GenListConc", cfg, workers=4, timeout=900, coverage=False)
    require_tlc_ok(r, "GenListConc 1-op exhaustive")
    ev.add_tlc(r)
    one_op = dedupe(r.replay)
    for c in one_op:
        c["_threads"] = 2
    cases += one_op
    ev.extra["exhaustive_parts"] = ["all %d behaviours of 2 threads x 1 operation over %d operation instances" %
                                    (len(one_op), 20)]
    walks = [(2, 2, 150, 26), (3, 1, 60, 26)] if tier == "quick" else [(2, 2, 800, 26), (2, 3, 800, 40), (3, 2, 600, 40)]
    for (nt, mo, num, depth) in walks:
        cfg = os.path.join(d, "sim_%d_%d.cfg" % (nt, mo))
        write_cfg(cfg, variant, "MCSpec", nt, mo, ALL_KINDS, ["Emit"], deadlock=False)
        r = run_tlc("GenListConc", cfg, workers=1, simulate=num, depth=depth, tlc_seed=vlib.seed(), timeout=1200,
                    coverage=False)
        if r.error or r.invariant_violated:
            require_tlc_ok(r, "GenListConc simulate")
        ev.add_tlc(r)
        cs = dedupe(r.replay)
        for c in cs:
            c["_threads"] = nt
        cases += cs
    cases = dedupe(cases)
    opcount = {}
    for c in cases:
        for s in c["steps"]:
            if s["act"] == "start":
                opcount[s["op"]["k"]] = opcount.get(s["op"]["k"], 0) + 1
    missing = [k for k in ALL_KINDS if not opcount.get(k)]
    if missing:
        raise vlib.ToolError("operation kinds never generated: %s" % missing)
    ev.extra["operation_counts"] = opcount

    results = vlib.run_batch("c16", [to_impl_case(c, c["_threads"]) for c in cases], nproc=8, stall=20, pid=PID, tag="replay")
    confirmed = set()
    for c, res in zip(cases, results):
        inter = len({s["t"] for s in c["steps"]}) > 1
        ok = compare(c, res, verd, ev, "ListConc behaviour")
        if not ok:
            if c.get("stale"):
                confirmed.add("NoStaleUse")
            if c.get("lin") is False:
                confirmed.add("Linearizable")
        ev.case({"threads": c["_threads"], "schedule": [[s["t"], s["act"], s["op"].get("k")] for s in c["steps"]]},
                inter, key=vlib.shash(c["steps"]))
        ev.traces += 1
        for s in c["steps"]:
            ev.impl_actions.add("Start" if s["act"] == "start" else "Step")

    # behaviours the spec itself marks as bad (possible only for a regressed discipline): a result
    # equal to the spec's is then the confirmation that the real code shows the non-linearizable result
    for c, res in zip(cases, results):
        if c.get("lin") is False and "r" in res:
            sched = [(s["t"], s["act"], s["op"].get("k")) for s in c["steps"]]
            same = all(im.get("res") == sp["res"] for sp, im in zip(c["steps"], res["r"]["steps"]) if sp["done"] and im.get("done"))
            if same:
                ops = sorted({s["op"]["k"] for s in c["steps"] if s["act"] == "start"})
                verd.report({"kind_of_failure": "non-linearizable-result", "ops": "+".join(ops)},
                            "under schedule %s the real code returned results that no atomic execution of the "
                            "operations can produce (ListConc.Linearizable is violated by the locking discipline the "
                            "code follows, and the implementation reproduces the counterexample)" % sched,
                            {"case": c, "result": res})
                confirmed.add("Linearizable")
    if "Deadlock" in design_violations or not variant["eq"] or not variant["seq"]:
        abba = {"initbuf": INIT, "threads": 2, "steps": steps(
            {"t": 1, "act": "start", "op": {"k": "eq", "a": 1, "b": 2}},
            {"t": 2, "act": "start", "op": {"k": "eq", "a": 2, "b": 1}},
            {"t": 1, "act": "step"}, {"t": 2, "act": "step"}, {"t": 1, "act": "step"})}
        r2 = vlib.run_batch("c16", [abba], nproc=1, stall=20, pid=PID, tag="abba")[0]
        if "r" in r2 and r2["r"].get("blocked"):
            verd.report({"kind_of_failure": "deadlock", "ops": "eq+eq"},
                        "a == b on one thread and b == a on another wait for each other forever (each holds its "
                        "first lock): schedule start eq(1,2); start eq(2,1); step t1; step t2; step t1", {"case": abba, "result": r2})
            confirmed.add("Deadlock")
    unconfirmed = [v for v in design_violations if v not in confirmed]
    if unconfirmed:
        # the discipline detected by the probes is provably unsafe; say so even if no replay hit it
        verd.report({"kind_of_failure": "unsafe-locking-discipline", "ops": "+".join(unconfirmed)},
                    "the locking discipline the code follows (%s) violates %s in the ListConc model" % (info, unconfirmed),
                    {"variant": variant, "probes": info})
    ev.exhaustive = True
    ev.rule = ("cases = ListConc behaviours (all behaviours of the 2-thread x 1-operation model + seeded TLC simulation "
               "walks for 2x2 / 3x1 (thorough: 2x3, 3x2)), each imposed step by step on real List handles shared by real "
               "threads; distinct = distinct step sequences; non-trivial = at least two threads take steps")
    ev.assumptions = [
        "the pausing points of the real code are the cfg-guarded schedule points before every Mutex::lock in list.rs "
        "plus the Clone of the harness element type during get; code between two pausing points runs unobserved",
        "list elements are a 8-byte host type; initial lists [10,11,12,13] (full: one push relocates) and [20]",
        "exhaustive model checking is bounded to the stated thread/operation counts",
    ]
    rc = verd.finish()
    ev.write(len(verd.violations))
    return rc


def replay(path):
    obj = json.load(open(path))["replay"]
    vlib.build_harness(["c16"])
    c = obj["case"]
    res = vlib.run_batch("c16", [to_impl_case(c, c.get("_threads", c.get("threads", 2)))], nproc=1, stall=20, pid=PID, tag="rp")[0]
    print(json.dumps(res)[:2000])
    verd = Verdicts(PID)
    if "parked" in c["steps"][0]:
        compare(c, res, verd, Evidence(PID, "quick"), "replay")
    return verd.finish()
