"""C06 - compilation is total: every input yields a package or a report.

Specs: spec/Lexer.tla (+ MCLexer, TraceLexer), spec/Totality.tla (+ MCTotality, TraceTotality).

Lexer part
  S->I: TLC runs Lexer on every string of <= 3 (quick) / <= 4 (thorough) abstract symbols
        (32 classes = character class x UTF-8 width) and on seeded longer strings, checks
        Progress / OnBoundary / TokensTile, and emits each string with the specified token
        byte ranges.  Python substitutes concrete representatives for the classes (several per
        class), the harness lexes them with the real lexer (roto::verif::lex) and the token
        ranges are compared.
  I->S: seeded random concrete strings are lexed by the real lexer; the recorded token streams
        must be behaviours of Lexer (TLC trace validation, TraceLexer.tla).
  Sensitivity: with CodeArith = TRUE (the arithmetic of the original keyword_or_ident /
        f_string_part) and with CodeErrTok = TRUE (one-byte error token) TLC must violate
        OnBoundary.

Totality part
  MCTotality enumerates the inputs (family parameters): token sequences in six syntactic
  contexts, mutants of seed programs (token delete/duplicate/swap/replace, truncation,
  insertion of every abstract symbol), ill-typed programs, nesting up to depth 64, module
  trees in memory and on disk, string / f-string literals whose body is every sequence of
  <= 3 ingredients (plain and multi-byte text, valid and invalid escapes, doubled curlies,
  interpolations; terminated or not), "infinite type" programs (an inference variable unified
  with a term containing it under <= 3 list / record / Option / enum wrappers), import
  statements, type paths (every path of <= 2 / 3 segments over the declared names of a small
  package - generic types and their type parameters, fields, variants, a function, a constant,
  a module, an imported type, built-in types - with and without type arguments, at each of the
  10 places where a type is written) and layered reference graphs inside the supported program
  size (w items per layer, d layers, every item refers to every item of the next layer: w^d
  paths through w * d <= 80 one-line items; calls below a constant / a function, constants,
  record types).  For lit and inf MCTotality also prints what must happen: a report (never a package), and for a literal
  whose first invalid escape is self-contained the exact byte range the report must cite.  Python renders each descriptor to source text / files (pure
  representation mapping), worker processes compile them with the real crate and render the
  report with and without colour; the recorded events must be behaviours of Totality
  (TraceTotality.tla): compile ends in ok or in a report whose cited spans are well formed,
  every report renders twice.  Panics, aborts, signals, stack overflows, hangs and malformed
  spans are not behaviours of the spec; TLC prints each such event and python reports it
  with the panic site as signature.
"""
import json
import os
import random
import shutil

import vlib
from vlib import Evidence, Verdicts, run_tlc, require_tlc_ok

PID = "C06"

# ------------------------------------------------------------------ lexer: classes
ALPHA = ["letter1", "hexl", "f", "A", "S", "x", "e", "letter2", "letter3", "letter4", "mark2", "zero", "digit",
         "underscore", "dquote", "squote", "backslash", "lbrace", "rbrace", "space", "newline", "wspace3", "dot",
         "colon", "slash", "minus", "plus", "eq", "gt", "hash", "bang", "other3"]

# concrete representatives of every abstract class (representation mapping only)
REPS = {
    "letter1": ["g", "q", "z", "h", "K", "Z"],          # not a hex digit, not e/E/f/A/S/x, not u/U
    "hexl": ["a", "c", "d", "B", "F"],
    "f": ["f"], "A": ["A"], "S": ["S"], "x": ["x"], "e": ["e", "E"],
    "letter2": ["\u00e9", "\u00df", "\u03a9", "\u00f1"],          # XID_Start, 2 bytes
    "letter3": ["\u4e2d", "\u0e01", "\u0939"],                    # XID_Start, 3 bytes
    "letter4": ["\U0001d4b3", "\U00010400", "\U00020000"],        # XID_Start, 4 bytes
    "mark2": ["\u0301", "\u0308", "\u0327"],                      # XID_Continue only, 2 bytes
    "zero": ["0"], "digit": ["1", "5", "9"], "underscore": ["_"],
    "dquote": ['"'], "squote": ["'"], "backslash": ["\\"], "lbrace": ["{"], "rbrace": ["}"],
    "space": [" ", "\t", "\r"], "newline": ["\n"],
    "wspace3": ["\u2003", "\u3000", "\u2028"],                    # White_Space, 3 bytes
    "dot": ["."], "colon": [":"], "slash": ["/"], "minus": ["-"], "plus": ["+"], "eq": ["="], "gt": [">"],
    "hash": ["#"], "bang": ["!"],
    "other3": ["\u20ac", "\u2192", "\u221e"],                     # not XID, not white space, 3 bytes
}
WIDTH = {"letter2": 2, "mark2": 2, "letter3": 3, "other3": 3, "wspace3": 3, "letter4": 4}
CLASS_OF = {ch: cls for cls, chars in REPS.items() for ch in chars}
WORD_KINDS = {"Keyword", "Ident", "Bool"}
SILENT = {"Trivia", "Shebang", "FStringQuote"}


def check_reps():
    for cls, chars in REPS.items():
        for ch in chars:
            if len(ch.encode("utf-8")) != WIDTH.get(cls, 1):
                raise vlib.ToolError("representative %r of class %s has the wrong UTF-8 width" % (ch, cls))
    if set(REPS) != set(ALPHA):
        raise vlib.ToolError("representative table and alphabet differ")


def concretise(classes, rng, canonical=False):
    return "".join(REPS[c][0] if canonical else rng.choice(REPS[c]) for c in classes)


def lexer_cfg(path, maxlen=3, code_arith=False, code_err=False, shebang=False, source="all", alpha=ALPHA, first=None):
    with open(path, "w") as f:
        f.write("""SPECIFICATION MCSpec
CONSTANTS
  CodeArith = %s
  CodeErrTok = %s
  WithShebang = %s
  Alphabet = {%s}
  First = {%s}
  MaxLen = %d
  Source = "%s"
INVARIANTS Inv Emit
CHECK_DEADLOCK FALSE
""" % (str(code_arith).upper(), str(code_err).upper(), str(shebang).upper(),
       ", ".join('"%s"' % a for a in alpha), ", ".join('"%s"' % a for a in (first or alpha)), maxlen, source))
    return path


def expected_tokens(case):
    """What roto::verif::lex must return according to the run TLC printed: the tokens (no trivia)
    up to and including the first f-string start, else all tokens plus the error token."""
    toks = []
    for pc in case["p"]:
        if pc["k"] in SILENT:
            continue
        toks.append([pc["k"], pc["s"], pc["e"]])
        if pc["k"] == "FStringStart":
            return toks
    if case["stop"]["why"] == "error":
        toks.append(["<error>", case["stop"]["s"], case["stop"]["e"]])
    return toks


def observed_tokens(res):
    return [["Word" if k in WORD_KINDS else k, s, e] for (k, s, e) in res["r"]["toks"]]


def lexer_mismatch_class(exp, got):
    """Name the first difference (signature of a lexer finding)."""
    for a, b in zip(exp, got):
        if a != b:
            if a[0] == "<error>" and b[0] == "<error>" and a[1] == b[1] and b[2] == b[1] + 1 and a[2] > b[2]:
                return "error-token-is-one-byte-of-a-multibyte-character"
            return "token-differs:%s/%s" % (a[0], b[0])
    return "token-count-differs"


def abnormal_sig(res, phase_default):
    """Signature of a case that did not return normally from the harness."""
    oc = vlib.outcome_of(res)
    if oc == "panic":
        return {"kind": "harness-panic", "phase": phase_default, "loc": "?"}
    if oc == "hang":
        return {"kind": "hang", "phase": phase_default, "loc": "?"}
    return {"kind": "crash", "phase": phase_default, "loc": str(res.get("crash"))}


def lexer_spec_to_impl(tier, ev, verd, stats):
    """S->I: TLC-enumerated abstract strings, concretised, lexed by the real lexer, compared."""
    d = vlib.workdir(PID, "cfg")
    rng = random.Random(vlib.seed() * 31 + 6)
    runs = []
    if tier == "quick":
        runs.append(("all<=3", lexer_cfg(os.path.join(d, "lex_all3.cfg"), 3), 2))
    else:
        runs.append(("all<=3", lexer_cfg(os.path.join(d, "lex_all3.cfg"), 3), 3))
        for k in range(0, len(ALPHA), 4):
            part = ALPHA[k:k + 4]
            runs.append(("len4 first in %s" % part, lexer_cfg(os.path.join(d, "lex_all4_%d.cfg" % k), 4, first=part), 1))
    # longer strings: seeded, biased towards the symbols that make multi-symbol tokens
    nlong, maxl = (3000, 12) if tier == "quick" else (40000, 16)
    strings = long_abstract_strings(rng, nlong, maxl)
    spath = os.path.join(d, "lex_strings.ndjson")
    vlib.write_ndjson(spath, [{"s": s} for s in strings])
    runs.append(("seeded longer strings", lexer_cfg(os.path.join(d, "lex_file.cfg"), 0, source="file"), 2))
    kinds = {}
    stops = {}
    nstrings = 0
    for what, cfg, nvariants in runs:
        r = run_tlc("MCLexer", cfg, workers=6, coverage=False, timeout=1800, heap="8g", env={"C06_STRINGS": spath})
        require_tlc_ok(r, "MCLexer " + what)
        ev.add_tlc(r)
        only4 = what.startswith("len4")
        cases = [c for c in r.replay if not only4 or len(c["s"]) == 4]
        stats.setdefault("lexer_exhaustive_parts", []).append("%s: %d strings, %d states" % (what, len(cases), r.distinct))
        nstrings += len(cases)
        batch = []
        for c in cases:
            for pc in c["p"]:
                kinds[pc["k"]] = kinds.get(pc["k"], 0) + 1
            stops[c["stop"]["why"]] = stops.get(c["stop"]["why"], 0) + 1
            for v in range(nvariants):
                batch.append((c, concretise(c["s"], rng, canonical=(v == 0))))
        results = vlib.run_batch("c06", [{"k": "lex", "src": s} for (_, s) in batch], nproc=8, pid=PID, tag="lex", stall=10)
        for (c, src), res in zip(batch, results):
            compare_lex(c, src, res, verd, ev)
            if len(stats.setdefault("samples_lexer", [])) < 2 and len(expected_tokens(c)) >= 3 and any(ord(ch) > 127 for ch in src):
                stats["samples_lexer"].append({"lexer_input": src, "classes": c["s"], "tokens_specified_and_observed": expected_tokens(c)})
        del r, cases, batch, results
    need = ["IpV6", "IpV4", "EqEq", "BangEq", "AngleRightEq", "Arrow", "FatArrow", "PlusEq", "MinusEq", "SlashEq",
            "HyphenHyphen", "Eq", "Hyphen", "Colon", "Period", "Plus", "Slash", "Bang", "CurlyLeft", "CurlyRight",
            "AngleRight", "Hash", "Asn", "Hex", "Integer", "Float", "FStringStart", "String", "Char", "Word", "Trivia",
            "StringIntermediate", "StringEnd", "FStringQuote"]
    missing = [k for k in need if not kinds.get(k)] + [w for w in ("eof", "error", "fstr_eof") if not stops.get(w)]
    if missing:
        raise vlib.ToolError("Lexer recognisers never fired in the generated runs: %s" % missing)
    stats["lexer_piece_kinds"] = kinds
    stats["lexer_stop_reasons"] = stops
    stats["lexer_strings"] = nstrings



TWO = {"EqEq", "BangEq", "AngleRightEq", "Arrow", "FatArrow", "PlusEq", "MinusEq", "SlashEq", "HyphenHyphen",
       "AmpAmp", "PipePipe", "AngleLeftEq", "StarEq", "PercentEq", "SlashStar"}
KIND_ACTION = {"IpV6": "Ipv6", "IpV4": "Ipv4", "Asn": "AsNumber", "Hex": "HexNumber", "Integer": "Number", "Float": "Number",
               "FStringStart": "FStringStart", "String": "String", "Char": "Char", "Word": "KeywordOrIdent",
               "<error>": "ErrorToken"}


def note_impl_actions(ev, toks, nbytes):
    """which Lexer actions the real lexer's token stream exhibits (measured, for the evidence file)"""
    at = 0
    for k, s, e in toks:
        if s > at:
            ev.impl_actions.add("Lexer.SkipWhitespace")
        ev.impl_actions.add("Lexer." + (KIND_ACTION.get(k) or ("TwoCharPunctuation" if k in TWO else "OneCharPunctuation")))
        at = e
    if not toks or toks[-1][0] not in ("<error>", "FStringStart"):
        ev.impl_actions.add("Lexer.EndOfInput")


def compare_lex(c, src, res, verd, ev):
    exp = expected_tokens(c)
    if vlib.outcome_of(res) != "returned" or res["r"].get("outcome") != "ok":
        sig = abnormal_sig(res, "lex")
        if "r" in res:
            sig = {"kind": "panic", "phase": "lex", "file": nolines(rel(res["r"].get("loc", "?")))}
        verd.report(sig, "lexing %r did not return normally: %s" % (src, res), {"k": "lex", "src": src, "abstract": c})
        ev.case(None, True, key="lex:" + vlib.shash(src))
        return
    got = observed_tokens(res)
    note_impl_actions(ev, got, res["r"]["len"])
    if got != exp:
        what = lexer_mismatch_class(exp, got)
        verd.report({"kind": "lexer-range", "what": what},
                    "lexer: for %r (classes %s) Lexer.tla specifies the tokens %s, the real lexer returned %s" %
                    (src, c["s"], exp, got), {"k": "lex", "src": src, "abstract": c, "got": got})
    ev.case(None, len(exp) > 0, key="lex:" + vlib.shash(src))
    ev.traces += 1


def long_abstract_strings(rng, n, maxlen):
    """Seeded abstract strings longer than the exhaustive bound (inputs only, no expectations)."""
    frags = [["digit", "dot", "digit", "dot", "zero", "dot", "digit"], ["digit", "dot", "digit", "dot", "digit", "dot"],
             ["A", "S", "digit", "digit"], ["zero", "x", "hexl", "f"], ["hexl", "colon", "colon", "digit"],
             ["colon", "colon"], ["digit", "dot", "digit", "e", "minus", "digit"], ["digit", "e", "plus", "digit", "letter2"],
             ["digit", "dot", "dot"], ["digit", "dot", "letter2"], ["digit", "underscore", "digit", "letter1", "digit"],
             ["f", "dquote", "letter2", "lbrace", "letter1", "rbrace", "letter3", "dquote"],
             ["f", "dquote", "lbrace", "lbrace", "other3", "dquote"], ["f", "dquote", "backslash", "dquote", "letter4", "dquote"],
             ["f", "dquote", "letter2", "lbrace", "lbrace", "letter1", "rbrace", "rbrace", "dquote"],
             ["f", "dquote", "lbrace", "f", "dquote", "letter2", "dquote", "rbrace", "dquote"],
             ["dquote", "letter2", "backslash", "dquote", "other3", "dquote", "space"], ["squote", "letter3", "squote", "space"],
             ["squote", "backslash", "squote", "squote", "dot"], ["slash", "slash", "other3", "newline"],
             ["slash", "slash", "letter2"], ["hash", "bang", "slash", "letter1", "newline"],
             ["letter2", "mark2", "digit", "underscore"], ["underscore", "letter4"], ["mark2"], ["wspace3", "letter3"],
             ["minus", "gt"], ["eq", "gt"], ["bang", "eq"], ["minus", "minus"], ["plus", "eq"]]
    out = []
    seen = set()
    while len(out) < n:
        s = []
        target = rng.randint(5, maxlen)
        while len(s) < target:
            if rng.random() < 0.45:
                s += rng.choice(frags)
            else:
                s.append(rng.choice(ALPHA))
        s = s[:maxlen]
        t = tuple(s)
        if t not in seen:
            seen.add(t)
            out.append(s)
    return out


def nolines(loc):
    """file of a panic location (line numbers move with every commit)"""
    import re
    return re.sub(r":\d+(?=$| )", "", str(loc))


def rel(loc):
    """panic location relative to the repository (or to the dependency's crate directory)"""
    loc = str(loc)
    if " via " in loc:
        x, y = loc.split(" via ", 1)
        return rel(x) + " via " + rel(y)
    for pre in (vlib.REPO.rstrip("/") + "/", "/repo/"):
        if loc.startswith(pre):
            return loc[len(pre):]
    if "/registry/src/" in loc:
        return loc.split("/registry/src/", 1)[1].split("/", 1)[1]
    if "/rustc/" in loc and "/library/" in loc:
        return "rust-std/" + loc.split("/library/", 1)[1]
    return loc


def lexer_impl_to_spec(tier, ev, verd, stats):
    """I->S: token streams of the real lexer on seeded random concrete strings, validated by TLC."""
    rng = random.Random(vlib.seed() * 17 + 606)
    nruns = 4000 if tier == "quick" else 20000
    chars = sorted(CLASS_OF)
    # concrete fragments the random strings are sprinkled with (every character is in the class table)
    frags = ["1.5.9.1", "0xaF", "AS15", "::1", "a:B:c", "1.5e-9", "1_5", "5.q", "1..", 'f"', '"é\\""', "'中' ",
             "// €\n", "#!/q\n", "->", "=>", "!=", "--", "+=", "_\U00010400", "é́", " ", "{", "}", "9e+"]
    srcs = []
    for _ in range(nruns):
        n = rng.randint(1, 40)
        s = ""
        while len(s) < n:
            s += rng.choice(frags) if rng.random() < 0.3 else rng.choice(chars)
        srcs.append(s)
    results = vlib.run_batch("c06", [{"k": "lex", "src": s} for s in srcs], nproc=8, pid=PID, tag="lexrec", stall=10)
    events = []
    ids = {}
    for i, (src, res) in enumerate(zip(srcs, results)):
        if vlib.outcome_of(res) != "returned" or res["r"].get("outcome") != "ok":
            compare_lex({"s": [CLASS_OF[c] for c in src], "p": [], "stop": {"why": "?"}}, src, res, verd, ev)
            continue
        ids[i] = src
        events.extend(lex_events(i, src, res["r"]["toks"]))
    d = vlib.workdir(PID, "trace")
    path = os.path.join(d, "lexer_trace.ndjson")
    vlib.write_ndjson(path, events)
    r = vlib.validate_trace("TraceLexer", "TraceLexer.cfg", path, timeout=1800, heap="6g")
    ev.add_tlc(r)
    if r.error or r.invariant_violated or r.postcondition_failed or r.rc != 0:
        raise vlib.ToolError("TraceLexer did not run to the end of the trace: %s\n%s" % (r.error, r.stdout[-1500:]))
    bad = {}
    for un in r.replay:
        bad.setdefault(un["ev"]["id"], un)
    for i, un in bad.items():
        src = ids[i]
        evn, exp = un["ev"], un["expected"]
        what = "token-differs"
        if evn.get("why") == "error" and exp["stop"]["why"] == "error" and evn["s"] == exp["stop"]["s"] \
                and evn["e"] == evn["s"] + 1 and exp["stop"]["e"] > evn["e"]:
            what = "error-token-is-one-byte-of-a-multibyte-character"
        verd.report({"kind": "lexer-range", "what": what},
                    "lexer trace rejected by TraceLexer: for %r the real lexer produced %s where Lexer.tla specifies %s" %
                    (src, evn, exp), {"k": "lex", "src": src, "unmatched": un})
    ev.traces += len(ids) - len(bad)
    stats["lexer_traces"] = {"runs": len(ids), "events": len(events), "rejected": len(bad)}
    return path


def lex_events(i, src, toks):
    """token stream -> the pieces it implies (tokens and the gaps between them): representation mapping"""
    evs = [{"op": "start", "id": i, "inp": [CLASS_OF[c] for c in src]}]
    at = 0
    n = len(src.encode("utf-8"))
    stopped = False
    for (k, s, e) in toks:
        if k == "<error>":
            if s != at:
                evs.append({"op": "piece", "id": i, "k": "Trivia", "s": at, "e": s})
            evs.append({"op": "stop", "id": i, "why": "error", "s": s, "e": e})
            stopped = True
            break
        if s != at:
            evs.append({"op": "piece", "id": i, "k": "Trivia", "s": at, "e": s})
        evs.append({"op": "piece", "id": i, "k": "Word" if k in WORD_KINDS else k, "s": s, "e": e})
        at = e
        if k == "FStringStart":
            evs.append({"op": "stop", "id": i, "why": "fstart"})
            stopped = True
            break
    if not stopped:
        if at != n:
            evs.append({"op": "piece", "id": i, "k": "Trivia", "s": at, "e": n})
        evs.append({"op": "stop", "id": i, "why": "eof"})
    return evs


# ------------------------------------------------------------ totality: input families
# Everything below maps a descriptor printed by MCTotality ([fam, p], p = tuple of numbers) to
# concrete source text / files.  The tables are the meaning of the numbers.

KEYWORDS = ["accept", "const", "dep", "else", "enum", "filter", "filtermap", "for", "fn", "if", "import", "in",
            "let", "match", "pkg", "record", "reject", "return", "std", "super", "test", "while"]
PUNCT = [("EqEq", "=="), ("BangEq", "!="), ("AmpAmp", "&&"), ("PipePipe", "||"), ("AngleRightEq", ">="),
         ("AngleLeftEq", "<="), ("Arrow", "->"), ("FatArrow", "=>"), ("PlusEq", "+="), ("MinusEq", "-="),
         ("StarEq", "*="), ("SlashEq", "/="), ("PercentEq", "%="), ("SlashStar", "/*"), ("HyphenHyphen", "--"),
         ("Eq", "="), ("Pipe", "|"), ("Hyphen", "-"), ("Colon", ":"), ("SemiColon", ";"), ("Comma", ","),
         ("Period", "."), ("Plus", "+"), ("Star", "*"), ("Slash", "/"), ("Bang", "!"), ("CurlyLeft", "{"),
         ("CurlyRight", "}"), ("QuestionMark", "?"), ("SquareLeft", "["), ("SquareRight", "]"), ("RoundLeft", "("),
         ("RoundRight", ")"), ("AngleLeft", "<"), ("AngleRight", ">"), ("Percent", "%"), ("Hash", "#")]
# one representative spelling per token kind (plus the stray characters that are no token at all)
TOKENS = ([("kw_" + k, k) for k in KEYWORDS] + [("true", "true"), ("false", "false")] +
          [("ident", "x"), ("ident_type", "i32"), ("ident_upper", "Option"), ("ident_underscore", "_"),
           ("ident_unicode", "ünï"), ("ident_almost_keyword", "var")] +
          [("int", "1"), ("int_suffix", "2u8"), ("int_big", "99999999999999999999"), ("float", "1.5"),
           ("float_exp", "1e"), ("hex", "0x1f"), ("hex_empty", "0x"), ("asn", "AS1"), ("asn_big", "AS99999999999"),
           ("ipv4", "1.2.3.4"), ("ipv4_bad", "1.2.3."), ("ipv6", "::1"), ("ipv6_bad", "1:2:"),
           ("string", '"s"'), ("string_escape", '"\\q"'), ("string_unicode", '"é€"'), ("char", "'c'"),
           ("char_long", "'cc'"), ("fstring", 'f"a{x}b"'), ("fstring_unicode", 'f"é{x}€"'),
           ("fstring_open", 'f"a{'), ("fstring_unterminated", 'f"a')] +
          [("p_" + n, t) for n, t in PUNCT] +
          [("stray_quote", '"'), ("stray_squote", "'"), ("stray_backslash", "\\"), ("stray_euro", "€"),
           ("stray_mark", "\u0301"), ("stray_at", "@"), ("comment", "// c\n")])

# the token kinds used for the longest sequences of the thorough tier
SMALL_TOKENS = ["kw_fn", "kw_if", "kw_else", "kw_match", "kw_return", "kw_let", "kw_import", "kw_for", "kw_in", "kw_while",
                "kw_accept", "kw_record", "kw_enum", "kw_const", "kw_test", "kw_filtermap", "kw_pkg", "kw_super", "true",
                "ident", "ident_upper", "ident_unicode", "ident_almost_keyword", "int", "float", "string", "string_unicode",
                "char", "fstring", "fstring_open", "ipv4", "p_EqEq", "p_Arrow", "p_FatArrow", "p_Eq", "p_Hyphen", "p_Colon",
                "p_SemiColon", "p_Comma", "p_Period", "p_Bang", "p_CurlyLeft", "p_CurlyRight", "p_QuestionMark",
                "p_SquareLeft", "p_SquareRight", "p_RoundLeft", "p_RoundRight", "p_AngleLeft", "stray_euro", "stray_quote"]

CTXS = [("top", "%s"),
        ("body", "fn f() { %s }"),
        ("expr", "fn f(x: i32, s: String, o: i32?, l: List[i32]) -> i32 { let v = %s; x }"),
        ("type", "fn f(a: %s) {}"),
        ("arm", "fn f(o: i32?) -> i32 { match o { %s => 1, _ => 2 } }"),
        ("fhole", 'fn f(x: i32) -> String { f"a{%s}b" }')]
SEPS = [" ", ""]

SEED_SRC = {
    "arith": '''
fn max ( a : i32 , b : i32 ) -> i32 { if a > b { a } else { b } }
fn main ( x : i32 ) -> i32 { let y = max ( x , 10 ) ; let z = - y * 2 + x % 3 ; if z >= 0 && ! ( x == 4 ) { return z ; } //␣note⏎ z - 1 }
''',
    "records": '''
record Point { x : i32 , y : i32 }
record Line { a : Point , b : Point , name : String }
fn mk ( x : i32 ) -> Point { Point { x : x , y : 2 * x } }
fn len ( l : Line ) -> i32 { let d = { dx : l . b . x - l . a . x , dy : l . b . y - l . a . y } ; d . dx * d . dx + d . dy * d . dy }
''',
    "enums": '''
enum Shape { Circle ( f64 ) , Rect ( f64 , f64 ) , Empty }
enum Either [ L , R ] { Left ( L ) , Right ( R ) }
fn area ( s : Shape ) -> f64 { match s { Circle ( r ) => 3.14 * r * r , Rect ( w , h ) => { w * h } Empty => 0.0 , } }
fn pick ( e : Either [ i32 , String ] ) -> String { match e { Left ( i ) => f"~ {~ i~ }~ " , Right ( s ) => s } }
fn mk ( ) -> Shape { Shape . Rect ( 1.0 , 2.5 ) }
''',
    "options": '''
fn first ( l : List [ u32 ] ) -> u32 ? { let x = l . get ( 0 ) ? ; Option . Some ( x + 1 ) }
fn or_zero ( x : u32 ? ) -> u32 { match x { Some ( v ) if v > 5 => v , Some ( v ) => 5 , None => 0 , } }
fn res ( r : Result [ u32 , String ] ) -> u32 { match r { Ok ( v ) => v , Err ( _ ) => 42 } }
''',
    "loops": '''
fn sum ( l : List [ i64 ] ) -> i64 { let total = 0 ; for x in l { total = total + x ; } let i = 0 ; while i < 10 { i += 1 ; total -= 1 ; } total }
fn build ( ) -> List [ i64 ] { let l = [ 1 , 2 , 3 ] ; l . push ( 4 ) ; l + [ 5 ] }
''',
    "strings": '''
fn greet ( name : String , n : i32 ) -> String { let s = f"~ Hello␣~ {~ name~ }~ !␣é␣~ {~ n + 1 }~ ␣:␣~ {~ f"~ in␣~ {~ true~ }~ "~ }~ {{x}}~ " ; s + "é␣\\"q\\"␣\\n" + "" }
fn ch ( ) -> char { 'x' }
fn uni ( ) -> char { '\\u{1F600}' }
''',
    "consts": '''
import Option . { Some , None } ;
const LIMIT : u32 = 10 ;
const DOUBLE : u32 = 2 * LIMIT ;
fn check ( x : u32 ) -> u32 ? { if x > DOUBLE { None } else { Some ( x ) } }
fn wrap ( x : u32 ) -> u32 ? { import Option . Some ; Some ( x ) }
''',
    "tests": '''
fn double ( x : i32 ) -> i32 { 2 * x }
test doubles { if double ( 2 ) != 4 { reject } else { accept } }
test other { let v = double ( - 1 ) ; if v == - 2 { accept } else { reject } }
''',
    "filters": '''
filtermap fm ( x : i32 ) { if x > 10 { accept x } else { reject "small" } }
filter only ( a : Asn , p : Prefix ) { if a == AS64500 { reject } ; if p . len ( ) > 24 { reject } accept }
fn v ( x : u8 ) -> Verdict [ u8 , ( ) ] { if x == 0 { reject } else { accept x } }
''',
    "literals": '''
#!/usr/bin/env␣roto⏎
fn lits ( ) -> bool { let a = 0xff ; let b = 1_000u64 ; let c = 1.5e3 ; let d = 10.0.0.1 ; let e = ::1 ; let f = 10.0.0.0 / 8 ; let g = AS65000 ; let h = 'é' ; let ünï = "日本語" ; let _u = ( ) ; a == 255 || ! true }
''',
}
SEED_NAMES = list(SEED_SRC)
MUT_OPS = {1: "delete", 2: "duplicate", 3: "swap", 4: "replace", 5: "truncate", 6: "insert"}


def seed_tokens(name):
    """[(text, separator after it)]: tokens are written separated by blanks; a trailing ~ glues a token
    to the next one (inside f-strings), U+2423 is a blank inside a token, U+23CE a newline."""
    out = []
    for t in SEED_SRC[name].split():
        glue = t.endswith("~") and len(t) > 1
        if glue:
            t = t[:-1]
        t = t.replace("␣", " ").replace("⏎", "\n")
        out.append((t, "" if glue or t.endswith("\n") else " "))
    return out


def join_tokens(tl):
    return "".join(t + g for t, g in tl)


# ---- ill-typed but syntactically valid programs ---------------------------------------------
TYPES = ["i32", "u8", "u64", "i64", "f64", "f32", "bool", "String", "char", "Asn", "IpAddr", "Prefix", "()", "!",
         "i32?", "List[i32]", "Verdict[i32, String]"]
LITS = ["1", "-1", "300", "1.5", "true", '"s"', "'c'", "AS1", "1.2.3.4", "::1", "1.2.3.0/24", "()", "[]", "[1]",
        "Option.None", "Option.Some(1)", "{ a: 1 }", 'f"{1}"']


def with_uses(decl):
    """append a function that takes, returns and compares a value of every type the text declares"""
    import re
    out = [decl]
    for n, (kind, name, params) in enumerate(re.findall(r"(record|enum) (\w+)(\[[^\]]*\])?", decl)):
        args = "[%s]" % ", ".join(["i32"] * len(params.strip("[]").split(","))) if params else ""
        out.append("fn use%d(a: %s%s, b: %s%s) -> %s%s { if a == b { a } else { b } }" % (n, name, args, name, args, name, args))
    return "\n".join(out)


def ill_groups():
    g = []
    # 1 a literal of the wrong type where a type is expected (return, let, argument)
    g.append(("lit_return", ["fn f() -> %s { %s }" % (t, l) for t in TYPES for l in LITS]))
    g.append(("lit_let", ["fn f() { let v: %s = %s; }" % (t, l) for t in TYPES for l in LITS]))
    g.append(("lit_arg", ["fn g(a: %s) {}\nfn f() { g(%s); }" % (t, l) for t in TYPES for l in LITS]))
    # 2 operators on wrong operands
    ops = ["+", "-", "*", "/", "%", "==", "!=", "<", "<=", ">", ">=", "&&", "||"]
    g.append(("binop", ["fn f() { let v = %s %s %s; }" % (a, o, b) for o in ops for a, b in
                        [("1", "true"), ('"s"', "1"), ("1.5", "1u8"), ("[]", "[]"), ("()", "()"), ("'c'", "'d'"),
                         ("AS1", "1"), ("Option.None", "Option.None"), ("{ a: 1 }", "{ a: 1 }"), ("1u8", "1u16")]]))
    g.append(("unop", ["fn f() { let v = %s%s; }" % (o, a) for o in ["-", "!"] for a in LITS]))
    # 3 arity and unknown names
    calls = ["g()", "g(1)", "g(1, 2)", "g(1, 2, 3)", "g(g)", "g(f)", "h(1)", "x.g(1)", "1.g()", "g.g()", "g(1)(2)",
             "String.nope()", "Nope.new()", '"s".nope()', "[1].nope()", "i32.MAX.nope", "g.x", "f.f.f"]
    g.append(("calls", ["fn g(a: i32, b: i32) -> i32 { a }\nfn f(x: i32) { %s; }" % c for c in calls]))
    names = ["y", "Y", "pkg.y", "super.y", "super.super.y", "dep.y", "pkg", "super", "f", "i32", "String", "Option",
             "Option.Some", "Option.Nope", "List", "List.new", "x.y", "x.y.z", "_", "pkg.pkg", "pkg.f.g"]
    g.append(("names", ["fn f(x: i32) { let v = %s; }" % n for n in names]))
    g.append(("type_names", ["fn f(x: %s) {}" % n for n in
                             ["Nope", "i32[i32]", "List", "List[]", "List[i32, i32]", "Option", "Option[i32, i32]", "f", "pkg.Nope",
                              "super.X", "List[Nope]", "Nope?", "List[List]", "Verdict[i32]", "!", "!?", "{ a: Nope }",
                              "{ a: i32, a: i32 }", "{}", "String?", "()?", "i32???", "List[()]", "List[!]"]]))
    # 4 recursive and otherwise odd type declarations
    g.append(("type_decls", [
        "record A { x: A }", "record A { x: A? }", "record A { x: List[A] }", "record A { x: B }\nrecord B { y: A }",
        "record A { x: B? }\nrecord B { y: List[A?] }", "enum E { V(E) }", "enum E { V(E?) , W }", "enum E { V(List[E]) }",
        "enum E[T] { V(E[T]) }", "enum E[T] { V(E[E[T]]) }", "record A[T] { x: A[T] }", "record A[T] { x: A[A[T]]? }",
        "record A[T] { x: T }\nfn f(a: A) {}", "record A[T] { x: T }\nfn f(a: A[i32, i32]) {}", "record A[T, T] { x: T }",
        "record A[i32] { x: i32 }", "record A { x: i32 }\nrecord A { y: i32 }", "record A { x: i32, x: u8 }",
        "enum E { V, V }", "enum E {}", "enum E {}\nfn f(e: E) -> i32 { match e {} }", "record i32 { x: i32 }", "enum Option { A }",
        "record String {}", "record A {}\nfn f() -> A { A {} }", "record A { x: Nope }", "enum E { V(Nope) }",
        "record A { x: { y: A } }", "record A { x: Verdict[A, A] }", "enum E { V(Result[E, E]) }",
        "record A[T] { x: B[T] }\nrecord B[T] { y: A[T]? }", "enum E[T] { V(T) }\nfn f(e: E[E[E[i32]]]) {}",
        "record A { x: i32 }\nfn f() -> A { A { x: 1, x: 2 } }", "record A { x: i32 }\nfn f() -> A { A { y: 1 } }",
        "record A { x: i32 }\nfn f() -> A { A { } }", "record A { x: i32 }\nfn f() -> A { { x: 1, y: 2 } }",
        "fn f() -> { x: i32 } { { x: true } }", "enum E { V(i32) }\nfn f() -> E { E.V }", "enum E { V(i32) }\nfn f() -> E { E.V(1, 2) }",
        "enum E { V }\nfn f() -> E { E.V(1) }", "enum E { V }\nfn f() -> E { E.W }", "enum E { V }\nfn f() -> i32 { E.V.x }",
        "enum E[T] { V(T), N }\nfn f() -> E[i32] { E.N }", "enum E[T] { V(T), N }\nfn f() { let x = E.N; }",
        "record A[T] { x: T }\nfn f() { let a = A { x: [] }; }"]))
    decls = g[-1][1]
    g.append(("type_decls_used", [with_uses(d) for d in decls if "List[" not in d]))
    # types that are recursive through a List (the cycle detection lets them pass), used
    g.append(("type_decls_list_used", [with_uses(d) for d in decls if "List[" in d] +
              ["record A { x: List[A] }\nfn f(a: A) -> A { a }", "record A { x: List[List[A]] }\nfn f(a: A) {}",
               "record A { x: List[A]? }\nfn f() -> A { A { x: Option.None } }"]))
    # valid but unusual programs (zero-sized and never-typed corners of generated code)
    g.append(("odd_valid", [
        "fn f(x: ()?, y: ()?) -> bool { x == y }", "fn f() -> List[()?] { [] }", "fn f(x: List[()], y: List[()]) -> bool { x == y }",
        "fn f(x: Verdict[(), ()], y: Verdict[(), ()]) -> bool { x == y }", "fn f() -> bool { Option.None == Option.None }",
        "fn f() -> bool { Option.None != Option.None }", "fn f() -> bool { [] == [] }", "fn f() -> bool { [[]] == [[]] }",
        "fn f() -> bool { () == () }", "fn f() -> bool { { a: () } == { a: () } }", "fn f() -> bool { {} == {} }",
        "record E {}\nfn f(a: E, b: E) -> bool { a == b }", "enum E { A }\nfn f(a: E, b: E) -> bool { a == b }",
        "enum E {}\nfn f(a: E, b: E) -> bool { a == b }", "enum E {}\nfn f(a: E?) -> bool { a == a }",
        "fn f(x: !?) -> bool { x == x }", "fn f(x: List[!]) -> bool { x == x }", "fn f(x: List[!]) -> u64 { x.len() }",
        "fn f() { let x: List[()] = [(), ()]; x.push(()); }", "fn f() -> String { f\"{()}\" }", "fn f() { let x = [(), ()]; for y in x { y; } }",
        "fn f() { while true { } }", "fn f() -> i32 { while true { } }", "fn f() -> i32 { while true { return 1; } }",
        "fn f() -> i32 { for x in [1] { return x; } }", "fn f() -> i32 { loop { } }", "fn f() -> i32 { if true { return 1; } else { return 2; } }",
        "fn f() -> i32 { return 1; 2 }", "fn f() -> i32 { return 1; return 2; }", "fn f() -> i32 { match Option.Some(1) { Some(x) => return x, None => return 0 } }",
        "fn f() -> i32 { let x = return 1; }", "fn f() -> i32 { { return 1; } }", "fn f() { let x = { }; }", "fn f() { let x = (); x }",
        "fn f() -> () { }", "fn f() -> () { () }", "fn f(x: ()) -> () { x }", "fn f(x: ()) { let y = x; let z = [x, y]; }"]))
    # 5 statements and control flow
    body = ["let x = x;", "let x = [x];", "let x = []; x.push(x);", "let x = []; x.push([x]);", "let x = []; let y = [x]; x.push(y);",
            "let x = { a: x };", "x = 1;", "let x = 1; x = true;", "let x = 1; let x = true; x + 1;", "let x: i32 = 1; x += true;",
            "1 = 2;", "f = 1;", "i32 = 1;", "let x = 1; x.y = 2;", "if 1 { }", "if true { 1 } else { true };", "while 1 { }",
            "while true { 1 }", "for x in 1 { }", "for x in [1] { x.y; }", "for x in [] { }", "for x in [[]] { x.push(x); }",
            "match 1 { _ => 1 }", "match true { True => 1 }", 'match "s" { S => 1 }', "match [1] { _ => 1 }", "match { a: 1 } { _ => 1 }",
            "match (return) { _ => 1 }", "match (return 1) { _ => 1 }", "match Option.None { Some(x) => x, None => 1 }",
            "match Option.Some(1) { Some(x, y) => x, None => 1 }", "match Option.Some(1) { Some => 1, None => 1 }",
            "match Option.Some(1) { None(x) => x, Some(y) => y }", "match Option.Some(1) { Nope => 1 }",
            "match Option.Some(1) { Some(x) => x }", "match Option.Some(1) { Some(x) => x, Some(y) => y, None => 1 }",
            "match Option.Some(1) { _ => 1, None => 2 }", "match Option.Some(1) { Some(x) if x => 1, _ => 2 }",
            "match Option.Some(1) { Some(x) => 1, None => true }", "match f { _ => 1 }", "match Option { _ => 1 }",
            "let x = 1?;", "let x = Option.Some(1)?;", "let x = Option.None?;", "let x = (return)?;", "let x = [Option.None?];",
            "return 1;", "return;", "accept;", "reject 1;", "accept accept;", "return return;", "let x = return;", "let x = -return;",
            "let x = (return) + 1;", "let x = [return];", "let x = { a: return };", "let x = f(return);", "(return)();",
            "(return).x;", "if (return) { }", "while (return) { }", "for x in (return) { }", "Option.None.x;", "Option.Some(1).x;",
            "Option.Some.x;", "Option.x;", "let x = Option.None; x.y;", "let x = Option.None;", "let x = [];", "let x = [[]];",
            "let x = [1, true];", 'let x = [1, "s"];', "let x = [[1], [true]];", "let x = { a: 1, a: 2 };", "let x = {}; x.a;",
            "let x = { a: 1 }; x.b;", "let x = { a: { b: 1 } }; x.a.c;", 'let x = f"{f}";', 'let x = f"{[]}";', 'let x = f"{()}";',
            'let x = f"{Option.None}";', 'let x = f"{{ a: 1 }}";', 'let x = f"{ { a: 1 } }";', 'let x = f"{return}";', "f(1);", "f()();",
            "f().x;", "let x = f();", "let x = f; x();", "let x = 300u8;", "let x = -1u8;", "let x: u8 = 256;", "let x: i8 = -129;",
            "let x = 9223372036854775807;", "let x = -9223372036854775808;", "let x = 9223372036854775808;", "let x = 1e999;",
            "let x = 1f32;", "let x = 1.5f32;", "let x = 1.5u8;", "let x = 1e5u8;", "let x = 0x;", "let x = 0xffffffffffffffffff;",
            "let x = AS4294967296;", "let x = 1.2.3.999;", "let x = 1.2.3.4/99;", "let x = ::1/200;", "let x = 1:::2;", "let x = ::1::2;",
            "let x = 'ab';", "let x = '';", 'let x = "\\u{110000}";', 'let x = "\\x";', "let x = '\\u{d800}';", "import nope;", "import pkg.nope;",
            "import super.x;", "import Option.Nope;", "import Option.{Some, Some};", "import Option.Some; import Option.Some;",
            "import f;", "import pkg.f; f();", "import i32;", "import i32.MAX;", "import String.len;", "import Option.Some.x;",
            "let x = 1; import x;", "import pkg; import pkg.pkg;", "import dep.x;", "import super;", "import pkg;"]
    g.append(("stmts", ["fn f() { %s }" % b for b in body]))
    g.append(("stmts_ret", ["fn f() -> i32? { %s Option.None }" % b for b in body]))
    # 6 items
    g.append(("items", [
        "const A: u32 = 1 / 0;", "const A: i32 = 1 % 0;", "const Z: i32 = 0;\nconst A: i32 = 7 / Z;", "const A: u8 = 255 + 1;",
        "const A: i32 = A;", "const A: i32 = B;\nconst B: i32 = A;", "const A: i32 = f();\nfn f() -> i32 { A }",
        "const A: i32 = f();\nfn f() -> i32 { g() }\nfn g() -> i32 { A }", "const A: List[i32] = [A];", "const A: i32 = true;",
        "const A: Nope = 1;", "const A: i32 = 1;\nconst A: i32 = 2;", "const A: i32 = 1;\nfn A() {}", "const A: i32 = return 1;",
        "const A: i32 = 1?;", "const A: i32 = { let x = 1; x };", "const A: () = ();", "const A: ! = 1;", 'const A: String = f"{A}";',
        "const a: i32 = 1;\nfn f() { a = 2; }", "const A: i32 = 1;\nfn f() { A += 2; }", "const A: i32 = if true { 1 } else { A };",
        "const A: i32 = match Option.Some(1) { Some(x) => x, None => A };", "const A: fn = 1;",
        "fn f(x: !) -> i32 { x }", "fn f(x: !) -> String { x }", "fn f(x: !) { let y: i32 = x; }",
        "fn f() {}\nfn f() {}", "fn f(x: i32, x: i32) {}", "fn f(f: i32) -> i32 { f }", "fn f() -> i32 {}", "fn f() -> ! {}",
        "fn f() -> ! { f() }", "fn f() -> ! { return }", "fn f() { f }", "fn f() -> i32 { f() + f }", "fn f(x: !) {}",
        "fn i32() {}", "fn Option() {}", "fn pkg() {}", "fn main(x: i32, x: i32) {}", "fn f(self: i32) {}",
        "test t { 1 }", "test t { }", "test t { accept 1 }", "test t { reject 1 }", "test t { accept }\ntest t { accept }",
        "test t { accept }\nfn t() {}", "test t { return }", "test t { t() }", "fn f() { t(); }\ntest t { accept }",
        "test f { f(); accept }\nfn f() {}", "filtermap f() { 1 }", "filtermap f() { }", "filtermap f() { accept }\nfilter f() { accept }",
        "filter f() { accept 1 }", "filtermap f(x: Nope) { accept }", "filtermap f() { return 1 }", "filtermap f() { if true { accept } }",
        "filtermap f() { accept 1; reject true }", "filtermap f() { if true { accept 1 } else { accept true } }",
        "filter f() { f() }", "filtermap f() { let x = f(); accept }", "fn g() { f(); }\nfiltermap f() { accept }",
        "import f;\nfn f() {}", "import pkg.f;\nfn f() {}", "import pkg.g;", "import super.f;", "import a.b;", "import Option.Some;\nfn Some() {}",
        "import Option.Some;\nimport Option.Some;", "import Option.{Some, None};\nenum E { Some, None }",
        "import pkg.A;\nconst A: i32 = 1;", "import pkg.pkg;", "import pkg;", "import dep.x.y;", "import i32.MAX;\nconst MAX: i32 = 1;"]))
    # 7 constants of every kind of type x every use-site form (field / nested field / method / match / index / ? /
    #   iteration / argument / f-string / comparison / assignment / other constants' initialisers)
    cdecl = "record R { a: i32, s: String, n: { b: String, c: u8 } }\nenum E { V(i32), W }\nfn g(a: i32) -> i32 { a }\n"
    consts = [("i32", "1"), ("String", '"s"'), ("{ a: i32 }", "{ a: 1 }"), ("{ a: { b: String } }", '{ a: { b: "s" } }'),
              ("R", 'R { a: 1, s: "x", n: { b: "y", c: 2 } }'), ("E", "E.V(1)"), ("i32?", "Option.Some(1)"), ("String?", 'Option.Some("s")'),
              ("List[i32]", "[1, 2]"), ("List[{ a: i32 }]", "[{ a: 1 }]"), ("List[String]", '["a"]'), ("Verdict[i32, String]", "Verdict.Accept(1)"),
              ("()", "()"), ("IpAddr", "1.2.3.4"), ("Prefix", "1.2.3.0/24"), ("f64", "1.5"), ("char", "'c'"), ("bool", "true"),
              ("{ a: i32? }", "{ a: Option.Some(1) }"), ("{ a: List[String] }", '{ a: ["s"] }'), ("StringBuf", "StringBuf.new()")]
    uses = ["C", "C.a", "C.a.b", "C.s", "C.n.b", "C.n.c", "C.a.len()", "C.len()", "C == C", "C.a == C.a", "match C { _ => 1 }",
            "match C { Some(v) => 1, None => 0 }", "match C { V(x) => x, W => 0 }", 'f"{C}"', 'f"{C.a}"', "C.a = 2", "C = C", "C?", "C.a?",
            "for x in C { }", "for x in C.a { }", "let v = C; v", "let v = C.a; v", "g(C)", "g(C.a)", "-C", "!C", "[C, C]", "[C.a]",
            "{ z: C }", "{ z: C.a }", "C.to_string()", "C.a.to_string()", "if C == C { 1 } else { 2 }", "C.a + C.a", "C.nope", "C.a.nope",
            "C.get(0)", "C.push(3)", "C.a.push(\"t\")", "C.len", "C.0", "C.a.0", "C()", "C.a()", "let v = C; v.a = 5; C.a"]
    g.append(("const_uses", [cdecl + "const C: %s = %s;\nfn f() { let r = %s; }" % (t, l, u) for t, l in consts for u in uses]))
    # 8 match arm sequences: every sequence of <= 3 arms (and the 4-arm sequences that start with a repeated arm) over
    #   unguarded / guarded variant arms and unguarded / guarded `_` arms of a three-variant enum
    arms = ["A => 1,", "A if c => 2,", "B(x) => x,", "B(x) if x > 0 => 3,", "C => 4,", "_ => 5,", "_ if c => 6,"]
    seqs = [[a] for a in arms] + [[a, b] for a in arms for b in arms] + [[a, b, d] for a in arms for b in arms for d in arms]
    seqs += [[a, a, b, d] for a in arms[:5] for b in arms for d in arms]
    g.append(("match_arms", ["enum E { A, B(i32), C }\nfn f(e: E, c: bool) -> i32 { match e { %s } }" % " ".join(q) for q in seqs]))
    g.append(("const_from_const", [cdecl + "const C: %s = %s;\nconst D: i32 = %s;\nfn f() -> i32 { D }" % (t, l, u)
                                   for t, l in consts for u in ["C.a", "C.n.c", "C.a.b.len()", "g(C.a)", "match C { _ => 1 }", "C.len()"]]))
    return g


# ---- nesting up to the documented bound ------------------------------------------------------
NEST = [("parens", lambda d: "fn f() -> i32 { %s1%s }" % ("(" * d, ")" * d)),
        ("blocks", lambda d: "fn f() -> i32 { %s1%s }" % ("{ " * d, " }" * d)),
        ("lists", lambda d: "fn f() { let x = %s1%s; }" % ("[" * d, "]" * d)),
        ("neg", lambda d: "fn f() -> i32 { %s1 }" % ("- " * d)),
        ("not", lambda d: "fn f() -> bool { %strue }" % ("!" * d)),
        ("binop", lambda d: "fn f() -> i32 { %s1 }" % ("1 + " * d)),
        ("binop_mul", lambda d: "fn f(x: i32) -> i32 { %sx }" % ("x * " * d)),
        ("binop_div", lambda d: "fn f(x: i32) -> i32 { %sx }" % ("x / " * d)),
        ("binop_sub_paren", lambda d: "fn f(x: i32) -> i32 { %sx%s }" % ("x - (" * d, ")" * d)),
        ("binop_r", lambda d: "fn f() -> bool { %strue }" % ("true && " * d)),
        ("ifs", lambda d: "fn f(c: bool) -> i32 { %s1%s }" % ("if c { " * d, " } else { 0 }" * d)),
        ("elseifs", lambda d: "fn f(c: bool) -> i32 { %sif c { 1 } else { 0 } }" % ("if c { 2 } else " * d)),
        ("whiles", lambda d: "fn f(c: bool) { %s%s }" % ("while c { " * d, " }" * d)),
        ("fors", lambda d: "fn f(l: List[i32]) { %s%s }" % ("for x in l { " * d, " }" * d)),
        ("matches", lambda d: "fn f(o: i32?) -> i32 { %s1%s }" % ("match o { Some(x) => " * d, ", None => 0 }" * d)),
        ("records", lambda d: "fn f() { let x = %s1%s; }" % ("{ a: " * d, " }" * d)),
        ("access", lambda d: "fn f() { let x = %s1%s; x%s; }" % ("{ a: " * d, " }" * d, ".a" * d)),
        ("calls", lambda d: "fn g(x: i32) -> i32 { x }\nfn f() -> i32 { %s1%s }" % ("g(" * d, ")" * d)),
        ("options", lambda d: "fn f(x: i32%s) {}" % ("?" * d)),
        ("some", lambda d: "fn f() { let x = %s1%s; }" % ("Option.Some(" * d, ")" * d)),
        ("list_types", lambda d: "fn f(x: %si32%s) {}" % ("List[" * d, "]" * d)),
        ("record_types", lambda d: "fn f(x: %si32%s) {}" % ("{ a: " * d, " }" * d)),
        ("fstrings", lambda d: "fn f() -> String { %s1%s }" % ('f"{ ' * d, ' }"' * d)),
        ("question", lambda d: "fn f(o: i32?) -> i32? { o%s }" % ("?" * d)),
        ("methods", lambda d: 'fn f() -> String { "a"%s }' % (".to_uppercase()" * d)),
        ("returns", lambda d: "fn f() -> i32 { %s1 }" % ("return " * d)),
        ("stmts", lambda d: "fn f() { %s }" % ("let x = 1; " * d)),
        ("fns", lambda d: "".join("fn f%d() -> i32 { %s }\n" % (i, "f%d()" % (i + 1) if i + 1 < d else "1") for i in range(d))),
        ("consts", lambda d: "".join("const C%d: i32 = %s;\n" % (i, "C%d + 1" % (i + 1) if i + 1 < d else "1") for i in range(d))),
        ("type_params", lambda d: "enum E[T] { V(T), N }\nfn f(x: %si32%s) {}" % ("E[" * d, "]" * d)),
        ("unclosed_parens", lambda d: "fn f() -> i32 { %s1 }" % ("(" * d)),
        ("unclosed_blocks", lambda d: "fn f() { %s" % ("{ " * d)),
        ("unclosed_lists", lambda d: "fn f() { %s" % ("[" * d)),
        ("unclosed_fstrings", lambda d: "fn f() { %s" % ('f"{' * d))]
DEPTHS = [1, 2, 8, 32, 64]

# ---- module trees ------------------------------------------------------------------------------
# file slots of a package directory (path relative to the root directory; module name = file stem)
SLOTS = ["a.roto", "a/mod.roto", "a/b.roto", "b.roto", "1x.roto", "é.roto", "a-b.roto", "fn.roto", "c/d.roto",
         "a b.roto", "pkg/mod.roto", "super.roto", "b/mod.roto", ".roto", "A.ROTO"]
CONTENTS = [("empty", lambda n: ""),
            ("valid", lambda n: "fn f%d() -> i32 { %d }\n" % (n, n)),
            ("same_name", lambda n: "fn f() -> i32 { 1 }\n"),
            ("parse_error", lambda n: "fn (\n"),
            ("type_error", lambda n: "fn g%d() -> i32 { true }\n" % n),
            ("wide_first_char", lambda n: "\u2003fn f%d() {}\n" % n),
            ("non_ascii_error", lambda n: "fn f%d() { € }\n" % n),
            ("imports", lambda n: "import super.f0;\nimport pkg.a.f1;\nfn f%d() -> i32 { 1 }\n" % n)]


# ---- string / f-string literal bodies ------------------------------------------------------
# ingredients of a literal body: (text, class); the class is what MCTotality reasons about
INGREDIENTS = [("ab", "plain"), ("\u00e9", "plain"), ("\u8001", "plain"), ("\U0001f600", "plain"), (" ", "plain"),
               ("\\n", "valid"), ('\\"', "valid"), ("\\\\", "valid"), ("\\x41", "valid"), ("\\u{e9}", "valid"),
               ("\\q", "bad"), ("\\u{110000}", "bad"), ("\\u{}", "bad"), ("\\u{d800}", "bad"), ("\\\u00e9", "bad"),
               ("\\x4", "open"),
               ("{{", "curly"), ("}}", "curly"), ("{x}", "interp")]
LIT_PREFIXES = ["fn f(x: i32) -> String { ", "// \u00e9\u8001 \U0001f600\nfn f(x: i32) -> String {\n    "]
LIT_KINDS = {1: ('"', "string"), 2: ('f"', "fstring")}

# ---- infinite types --------------------------------------------------------------------------
INF_DECLS = "record R[T] { a: T }\nenum E[T] { V(T), N }\n"
INF_WRAPPERS = [("list", "[%s]"), ("anon_record", "{ a: %s }"), ("named_record", "R { a: %s }"),
                ("some", "Option.Some(%s)"), ("enum_ctor", "E.V(%s)")]
INF_VARS = [("list", "let x = [];", "x.push(%s);"), ("option", "let x = Option.None;", "x = Option.Some(%s);")]


# ---- import statements ---------------------------------------------------------------------------
# the package: pkg.roto, a/mod.roto, a/b.roto, b.roto; every module declares fn f and fn g
IMP_FILES = {"a/mod.roto": "fn f() -> i32 { 2 }\nfn g() -> i32 { 20 }\n", "a/b.roto": "fn f() -> i32 { 3 }\nfn g() -> i32 { 30 }\n",
             "b.roto": "fn f() -> i32 { 4 }\nfn g() -> i32 { 40 }\n"}
# statements: plain items and modules, lists, through the alias another statement introduces (b.f after `import a.b`,
# x.f after nothing introduces x), missing targets, pairs that wait for each other (u -> v -> u), too many supers
IMPORTS = ["import a.f;", "import a.b;", "import b.f;", "import b.g;", "import a;", "import pkg.a.b.f;", "import a.{f, g};",
           "import b.zz;", "import x.f;", "import u.v;", "import v.u;", "import super.a;", "import a.b.{f, b.g};", "import f.g;"]
IMP_PLACES = ["pkg", "submodule", "fn_body"]


# ---- type paths ------------------------------------------------------------------------------------
# A small package that declares one name of every kind; a type is then written, at every place where the
# grammar has a type, as a path over those names (<= tplen segments) with or without type arguments.
TP_ROOT = ("import m.Imp;\n"
           "record Box[T] { value: T }\n"
           "enum Maybe[T] { Just(T), Nothing }\n"
           "record Rec { field: i32 }\n"
           "enum Plain { Variant(i32), Other }\n"
           "const K: i32 = 1;\n"
           "fn fun(a: i32) -> i32 { a }\n")
TP_MOD = "record Inner { z: i32 }\nrecord Imp { w: i32 }\nrecord Gen[U] { u: U }\nfn mfun() -> i32 { 1 }\n"
# (segment, kind): the kind is what MCTotality reasons about ("type": may name a type; "param": a type parameter;
# "value": a field, variant, function, constant, module, keyword-like root or undeclared name: never a type)
TP_NAMES = [("Box", "type"), ("Maybe", "type"), ("T", "param"), ("Rec", "type"), ("Plain", "type"), ("value", "value"),
            ("field", "value"), ("Just", "value"), ("Variant", "value"), ("fun", "value"), ("K", "value"), ("m", "value"),
            ("Inner", "type"), ("Imp", "type"), ("Gen", "type"), ("i32", "type"), ("Option", "type"), ("List", "type"),
            ("pkg", "value"), ("super", "value"), ("nope", "value"), ("U", "param")]
# names whose type takes arguments (the longer argument forms are enumerated below them in the quick tier)
TP_GENERIC = ["Box", "Maybe", "T", "Gen", "Option", "List"]
# names that have members: the paths of 3 segments (thorough tier) start with one of them
TP_HEADS = ["pkg", "super", "m", "Box", "Maybe", "Gen", "Plain", "T"]
# where the arguments go: nowhere / after the last segment / after the first segment (`Box[i32].T`)
# (the first TP_ARGS_FULL forms are combined with every path in both tiers)
TP_ARGS = [("plain", None, None), ("applied", "[i32]", None), ("applied_mid", None, "[i32]"), ("optional", "?", None),
           ("applied2", "[i32, i32]", None), ("applied_param", "[T]", None), ("applied_nested", "[Box[i32]]", None)]
TP_ARGS_FULL = 4
# every place where a type is written (the rest of the place is a valid program when the type is `i32`)
TP_PLACES = [("let", "fn p() { let x: %s = 1; }"),
             ("param", "fn p(x: %s) {}"),
             ("ret", "fn p(x: i32) -> %s { p(x) }"),
             ("field", "record Q { inner: %s }\nfn p(q: Q) {}"),
             ("payload", "enum QE { V(%s), N }\nfn p(q: QE) {}"),
             ("type_arg", "fn p(x: List[%s]) {}"),
             ("const", "const Q: %s = 1;"),
             ("generic_field", "record G[T] { inner: %s }\nfn p(g: G[i32]) {}"),
             ("anon_field", "fn p(x: { a: %s }) {}"),
             ("filtermap_param", "filtermap fm(x: %s) { accept }")]


def tpath_text(p):
    af, segs = p[1], [TP_NAMES[i - 1][0] for i in p[2:]]
    _, end, mid = TP_ARGS[af - 1]
    return segs[0] + (mid or "") + "".join("." + s for s in segs[1:]) + (end or "")


def render_tpath(p):
    pname, tmpl = TP_PLACES[p[0] - 1]
    ty = tpath_text(p)
    spec = {"name": "pkg.roto", "module": "pkg", "src": TP_ROOT + tmpl % ty + "\n", "dir": True,
            "children": [{"name": "m.roto", "module": "m", "src": TP_MOD}]}
    used = ["tpname_" + TP_NAMES[i - 1][0] for i in p[2:]] + ["tparg_" + TP_ARGS[p[1] - 1][0], "tplen%d" % len(p[2:])]
    return {"k": "spec", "spec": spec}, "tpath:" + pname, used


# ---- wide and deep reference graphs -------------------------------------------------------------------
# d layers of w items; every item of layer i refers to every item of layer i + 1 (w ** d paths, w * d items:
# inside the supported program size, no nesting, no recursion).  The calls sit in a branch that is not taken when
# the constant's initialiser is run by the compiler.
def _layer_fns(w, d, leaf):
    out = []
    for i in range(d):
        for j in range(w):
            calls = " + ".join("f%d_%d(deep)" % (i + 1, (j + k) % w) for k in range(w))
            out.append("fn f%d_%d(deep: bool) -> u64 { if deep { %s } else { %d } }" % (i, j, calls, j))
    out += ["fn f%d_%d(deep: bool) -> u64 { %s }" % (d, j, leaf % j) for j in range(w)]
    return out


def graph_calls_below_const(w, d):
    return ["const C: u64 = f0_0(false);"] + _layer_fns(w, d, "%d") + ["fn main() -> u64 { C }"]


def graph_calls_below_fn(w, d):
    return _layer_fns(w, d, "%d") + ["fn main() -> u64 { f0_0(false) }"]


def graph_const_layers(w, d):
    out = []
    for i in range(d):
        for j in range(w):
            out.append("const C%d_%d: u64 = %s;" % (i, j, " + ".join("C%d_%d" % (i + 1, (j + k) % w) for k in range(w))))
    out += ["const C%d_%d: u64 = %d;" % (d, j, j) for j in range(w)]
    return out + ["fn main() -> u64 { C0_0 }"]


def graph_calls_to_const_leaf(w, d):
    return (["const K: u64 = 1;", "const C: u64 = f0_0(false);"] + _layer_fns(w, d, "K + %d") +
            ["fn main() -> u64 { C + f0_%d(false) }" % (w - 1)])


def graph_record_layers(w, d):
    out = []
    for i in range(d):
        for j in range(w):
            out.append("record R%d_%d { %s }" % (i, j, ", ".join("a%d: List[R%d_%d]" % (k, i + 1, (j + k) % w) for k in range(w))))
    out += ["record R%d_%d { v: u64 }" % (d, j) for j in range(w)]
    return out + ["fn main(r: R0_0) -> u64 { r.a0.len() }"]


def graph_generic_layers(w, d):
    out = ["record G[%s] { %s }" % (", ".join("T%d" % k for k in range(w)), ", ".join("x%d: List[T%d]" % (k, k) for k in range(w)))]
    for i in range(d):
        for j in range(w):
            out.append("record R%d_%d { g: G[%s] }" % (i, j, ", ".join("R%d_%d" % (i + 1, (j + k) % w) for k in range(w))))
    out += ["record R%d_%d { v: u64 }" % (d, j) for j in range(w)]
    return out + ["fn main(r: R0_0) -> u64 { r.g.x0.len() }"]


GRAPHS = [("calls_below_const", graph_calls_below_const), ("calls_below_fn", graph_calls_below_fn),
          ("const_layers", graph_const_layers), ("calls_to_const_leaf", graph_calls_to_const_leaf),
          ("record_layers", graph_record_layers), ("generic_layers", graph_generic_layers)]
GRAPH_WIDTHS = 3
# widest layer per shape.  (On the pinned tree layered record types with w >= 2 took exponential time: TypeInfo::convert
# expanded every named type once per path - w = 2: d = 16 0.7 s, d = 20 6 s, d = 24 > 10 s.  Found by this family, repaired
# by a fix: commit, F-C06-type-convert-exponential; until then the two record shapes were enumerated as chains only.)
GRAPH_SHAPE_WIDTH = {"calls_below_const": 3, "calls_below_fn": 3, "const_layers": 3, "calls_to_const_leaf": 3,
                     "record_layers": 3, "generic_layers": 3}
GRAPH_DEPTHS = [2, 4, 8, 12, 16, 20, 24, 32, 40]
GRAPH_MAXITEMS = 80     # w * d <= 80 items below the root (+ w leaves): a script of < 100 one-line items


def render_graph(p):
    name, fn = GRAPHS[p[0] - 1]
    w, d = p[1], p[2]
    return {"k": "src", "src": "\n".join(fn(w, d)) + "\n"}, "graph:" + name, ["graph_w%d" % w, "graph_d%d" % d]


def render_imp(p):
    place, stmts = IMP_PLACES[p[0] - 1], [IMPORTS[i - 1] for i in p[1:]]
    text = " ".join(stmts)
    files = dict(IMP_FILES)
    root = "fn f() -> i32 { 1 }\nfn g() -> i32 { 10 }\n"
    if place == "pkg":
        root = text + "\n" + root + "fn probe() -> i32 { f() }\n"
    elif place == "submodule":
        files["b.roto"] = text + "\n" + files["b.roto"] + "fn probe() -> i32 { f() }\n"
    else:
        root = root + "fn probe() -> i32 { %s f() }\n" % text
    children = [{"name": "a/mod.roto", "module": "a", "src": files["a/mod.roto"], "dir": True,
                 "children": [{"name": "a/b.roto", "module": "b", "src": files["a/b.roto"]}]},
                {"name": "b.roto", "module": "b", "src": files["b.roto"]}]
    spec = {"name": "pkg.roto", "module": "pkg", "src": root, "dir": True, "children": children}
    return {"k": "spec", "spec": spec}, "imp:" + place, stmts + ["impplace_" + place]


def render_lit(p):
    kind, term, pre, ing = p[0], p[1], p[2], p[3:]
    opener, kname = LIT_KINDS[kind]
    head = LIT_PREFIXES[pre - 1]
    body = "".join(INGREDIENTS[i - 1][0] for i in ing)
    src = head + opener + body + ('"' if term else "") + " }\n"
    used = [INGREDIENTS[i - 1][0] for i in ing] + ["lit_" + kname, "term%d" % term, "litpre%d" % pre]
    return {"k": "src", "src": src, "base": len(head.encode("utf-8"))}, "lit:" + kname, used


def render_inf(p):
    v, steps, ws = p[0], p[1], p[2:]
    vname, decl, unify = INF_VARS[v - 1]
    term = "x"
    for w in reversed(ws):
        term = INF_WRAPPERS[w - 1][1] % term
    body = decl + " " + (unify % term if steps == 1 else "let r = %s; %s" % (term, unify % "r"))
    src = INF_DECLS + "fn f() { " + body + " }\n"
    return {"k": "src", "src": src}, "inf:" + vname, [INF_WRAPPERS[w - 1][0] for w in ws] + ["inf_steps%d" % steps]


def families(tier):
    """The parameter object MCTotality reads (bounds of the enumeration for this tier)."""
    tokidx = {n: i + 1 for i, (n, _) in enumerate(TOKENS)}
    if tier == "quick":
        plans = [[c + 1, 1, 2, 0] for c in range(len(CTXS))] + [[1, 2, 2, 0], [3, 2, 2, 0]]
        replace = [tokidx[n] for n in ["kw_fn", "kw_if", "kw_match", "kw_return", "kw_import", "ident", "ident_unicode", "int",
                                       "float", "string", "fstring_unicode", "fstring_open", "p_CurlyLeft", "p_CurlyRight",
                                       "p_RoundLeft", "p_RoundRight", "p_SemiColon", "p_Comma", "p_QuestionMark", "p_Period",
                                       "stray_euro", "stray_quote", "p_Eq", "p_Colon"]]
        rstride, istride, maxfiles = 1, 2, 2
    else:
        plans = [[c + 1, s + 1, 2, 0] for c in range(len(CTXS)) for s in range(2)] + [[1, 1, 3, 1], [2, 1, 3, 1], [3, 1, 3, 1]]
        replace = list(range(1, len(TOKENS) + 1))
        rstride, istride, maxfiles = 1, 1, 3
    seeds = []
    for si, name in enumerate(SEED_NAMES):
        tl = seed_tokens(name)
        nchar = len(join_tokens(tl))
        seeds.append({"ntok": len(tl), "nchar": nchar,
                      "rpos": [i for i in range(1, len(tl) + 1) if (i + si) % rstride == 0],
                      "ipos": [c for c in range(0, nchar + 1) if (c + si) % istride == 0]})
    groups = ill_groups()
    small = [tokidx[n] for n in SMALL_TOKENS]
    lit = {"ing": [{"w": len(t.encode("utf-8")), "cls": c} for t, c in INGREDIENTS], "litlen": 3,
           "litfull": 0 if tier == "quick" else 1, "nlitpre": len(LIT_PREFIXES), "ninfvar": len(INF_VARS), "nwrap": len(INF_WRAPPERS), "infdepth": 3,
           "nimp": len(IMPORTS), "implen": 2 if tier == "quick" else 3, "nimpplace": len(IMP_PLACES)}
    names = [n for n, _ in TP_NAMES]
    # quick: every path of <= 2 segments, the longer argument forms below the generic names only;
    # thorough: every argument form with every path of <= 2 segments, the plain paths of 3 segments below TP_HEADS
    lit.update({"ntplace": len(TP_PLACES), "ntparg": len(TP_ARGS), "ntpname": len(TP_NAMES),
                "tpgeneric": [names.index(n) + 1 for n in TP_GENERIC], "tphead": [names.index(n) + 1 for n in TP_HEADS],
                "tpargfull": TP_ARGS_FULL if tier == "quick" else len(TP_ARGS),
                "tplen": 2 if tier == "quick" else 3, "tplenfull": 2})
    lit.update({"ngshape": len(GRAPHS), "gwidth": GRAPH_WIDTHS, "gshapew": [GRAPH_SHAPE_WIDTH[n] for n, _ in GRAPHS],
                "gdepths": GRAPH_DEPTHS if tier == "quick" else sorted(set(GRAPH_DEPTHS + list(range(1, 41)))),
                "gmaxitems": GRAPH_MAXITEMS})
    return {**lit, "ntok": len(TOKENS), "small": small, "plans": plans, "seeds": seeds, "replace": replace, "nsym": len(ALPHA),
            "ill": [len(m) for _, m in groups], "nnest": len(NEST), "depths": DEPTHS,
            "nslot": len(SLOTS), "maxfiles": maxfiles, "ncontent": len(CONTENTS)}


# ------------------------------------------------------------ totality: rendering descriptors
def render_seq(p):
    ctx, sep, toks = p[0], p[1], p[2:]
    body = SEPS[sep - 1].join(TOKENS[t - 1][1] for t in toks)
    return {"k": "src", "src": CTXS[ctx - 1][1] % body}, "seq:" + CTXS[ctx - 1][0], [TOKENS[t - 1][0] for t in toks]


def render_mut(p, rng_seed):
    s, op = p[0], p[1]
    tl = list(seed_tokens(SEED_NAMES[s - 1]))
    used = []
    if op == 1:
        del tl[p[2] - 1]
    elif op == 2:
        tl.insert(p[2] - 1, tl[p[2] - 1])
    elif op == 3:
        i = p[2] - 1
        (a, ga), (b, gb) = tl[i], tl[i + 1]
        tl[i], tl[i + 1] = (b, ga), (a, gb)
    elif op == 4:
        name, text = TOKENS[p[3] - 1]
        tl[p[2] - 1] = (text, tl[p[2] - 1][1])
        used = [name]
    src = join_tokens(tl)
    if op == 5:
        src = src[:p[2]]
    elif op == 6:
        cls = ALPHA[p[3] - 1]
        rng = random.Random("%s/%s" % (rng_seed, p))
        src = src[:p[2]] + rng.choice(REPS[cls]) + src[p[2]:]
        used = [cls]
    return {"k": "src", "src": src}, "mut:" + MUT_OPS[op], used


_ILL = None


def render_ill(p):
    global _ILL
    if _ILL is None:
        _ILL = ill_groups()
    name, members = _ILL[p[0] - 1]
    return {"k": "src", "src": members[p[1] - 1]}, "ill:" + name, []


def render_nest(p):
    name, fn = NEST[p[0] - 1]
    return {"k": "src", "src": fn(p[1])}, "nest:" + name, ["depth%d" % p[1]]


def render_tree(p, root_dir):
    route, root, content, slots = p[0], p[1], p[2], [SLOTS[i - 1] for i in p[3:]]
    cname, cfn = CONTENTS[content - 1]
    files = {path: cfn(n + 1) for n, path in enumerate(slots)}
    used = [cname] + slots + ["root%d" % root, "route%d" % route]
    if route == 2:
        d = os.path.join(root_dir, "t_" + "_".join(str(x) for x in p))
        shutil.rmtree(d, ignore_errors=True)
        os.makedirs(d)
        if root:
            files["pkg.roto"] = cfn(0)
        for path, text in files.items():
            fp = os.path.join(d, path)
            os.makedirs(os.path.dirname(fp), exist_ok=True)
            with open(fp, "w", encoding="utf-8") as f:
                f.write(text)
        # directories for slots that are not selected but whose children are
        return {"k": "disk", "path": d}, "tree:disk", used
    # memory route: the same layout as a FileSpec (module name = file stem / directory name)
    dirs = {}
    top = []
    for path, text in files.items():
        parts = path.split("/")
        if len(parts) == 1:
            top.append({"name": path, "module": path[:-5] if path.lower().endswith(".roto") else path, "src": text})
        else:
            dname = parts[0]
            dd = dirs.setdefault(dname, {"name": dname + "/mod.roto", "module": dname, "src": "", "dir": True, "children": []})
            if parts[1] == "mod.roto":
                dd["src"] = text
            else:
                dd["children"].append({"name": path, "module": parts[1][:-5], "src": text})
    spec = {"name": "pkg.roto", "module": "pkg", "src": cfn(0) if root else "", "dir": True,
            "children": top + list(dirs.values())}
    return {"k": "spec", "spec": spec}, "tree:mem", used


def render_descriptor(d, root_dir):
    case, family, used = render_descriptor0(d, root_dir)
    # the expectation MCTotality printed for this input travels with the case (the harness ignores it)
    case["must"] = d.get("must", "any")
    at = d.get("at") or []
    case["at"] = [case.get("base", 0) + at[0], case.get("base", 0) + at[1]] if at else []
    return case, family, used


def render_descriptor0(d, root_dir):
    fam, p = d["fam"], d["p"]
    if fam == "lit":
        return render_lit(p)
    if fam == "inf":
        return render_inf(p)
    if fam == "imp":
        return render_imp(p)
    if fam == "tpath":
        return render_tpath(p)
    if fam == "graph":
        return render_graph(p)
    if fam == "seq":
        return render_seq(p)
    if fam == "mut":
        return render_mut(p, vlib.seed())
    if fam == "ill":
        return render_ill(p)
    if fam == "nest":
        return render_nest(p)
    if fam == "tree":
        return render_tree(p, root_dir)
    if fam == "seed":
        return {"k": "src", "src": join_tokens(seed_tokens(SEED_NAMES[p[0] - 1]))}, "seed:" + SEED_NAMES[p[0] - 1], []
    raise vlib.ToolError("unknown input family %r" % (fam,))


# ------------------------------------------------------------ totality: events and verdicts
def file_texts(case):
    """The texts of the files of an input (to name what is wrong with a span; never to judge it)."""
    if case.get("k") == "src":
        return [case["src"]]
    out = []
    if case.get("k") == "spec":
        def walk(v):
            out.append(v.get("src", ""))
            for c in v.get("children", []):
                walk(c)
        walk(case["spec"])
    elif case.get("k") == "disk":
        for root, _, names in os.walk(case["path"]):
            for n in names:
                try:
                    with open(os.path.join(root, n), encoding="utf-8") as f:
                        out.append(f.read())
                except (OSError, UnicodeDecodeError):
                    pass
    return out


def span_flaw(sp, case):
    """Name what is wrong with a cited span (signature of a finding); None if it is well formed."""
    if sp["ok"] and sp["start"] <= sp["end"] <= sp["len"]:
        return None
    if sp["start"] > sp["end"]:
        return "start>end"
    if sp["start"] == 0 and sp["end"] == 1 and sp["len"] == 0:
        return "0..1-of-an-empty-file"
    if sp["end"] > sp["len"]:
        return "end-beyond-file"
    for text in file_texts(case):
        b = text.encode("utf-8")
        if len(b) != sp["len"]:
            continue

        def on(i):
            return i == len(b) or (b[i] & 0xC0) != 0x80
        if on(sp["start"]) and sp["end"] == sp["start"] + 1:
            return "first-byte-of-a-multibyte-char"
        if not on(sp["start"]):
            return "start-inside-char"
        return "end-inside-char"
    return "off-char-boundary"


def events_of(i, case, res):
    """Result of one harness case -> the events of the Totality outcome machine (representation only)."""
    oc = vlib.outcome_of(res)
    exp = {"must": case.get("must", "any"), "at": case.get("at", [])}
    if oc != "returned":
        kind = "hang" if oc == "hang" else ("panic" if oc == "panic" else "crash")
        return [dict(exp, op="compile", id=i, outcome=kind)]
    r = res["r"]
    if r["outcome"] == "ok":
        return [dict(exp, op="compile", id=i, outcome="ok")]
    if r["outcome"] == "panic":
        return [dict(exp, op="compile", id=i, outcome="panic")]
    evs = [{"op": "compile", "id": i, "outcome": "report", "must": exp["must"], "at": exp["at"],
            "spans": [{"file": s["file"], "len": s["len"], "start": s["start"], "end": s["end"], "ok": bool(s["ok"])}
                      for s in r["spans"]]}]
    for rd in r["render"]:
        evs.append({"op": "render", "id": i, "colour": bool(rd["color"]), "res": rd["res"],
                    "labels": rd.get("hints", 0), "shown": rd.get("hints_shown", 0)})
    return evs


def signature_of(un, case, res, family="?"):
    """Signature + description of an event TraceTotality rejected."""
    evn = un["ev"]
    oc = vlib.outcome_of(res)
    shown = json.dumps(case, ensure_ascii=False)[:300]
    if evn["op"] == "compile" and evn["outcome"] in ("panic", "crash", "hang"):
        if oc != "returned":
            sig = abnormal_sig(res, "compile")
            sig["family"] = family
            if "overflowed its stack" in str(res.get("stderr", "")):
                sig["what"] = "stack-overflow"
            return sig, "compiling %s did not return: %s %s" % (shown, oc, str(res.get("stderr", ""))[-200:])
        r = res["r"]
        return ({"kind": "panic", "phase": r.get("phase", "?"), "file": nolines(rel(r.get("loc", "?"))), "fn": r.get("fn", "")},
                "compiling %s panicked in phase %s at %s (in %s): %s" %
                (shown, r.get("phase"), rel(r.get("loc")), r.get("fn"), r.get("msg")))
    r = res["r"]
    if evn["op"] == "compile" and evn["outcome"] == "ok":
        return ({"kind": "accepted-erroneous-input", "family": family},
                "%s is erroneous by construction (%s) but compiled to a package" % (shown, family))
    errkind = "+".join(sorted(set(r.get("kinds", []))))
    flaws = [f for f in (span_flaw(s, case) for s in r.get("spans", [])) if f]
    flaw = flaws[0] if flaws else "none"
    bad = [sp for sp in r.get("spans", []) if span_flaw(sp, case)]
    at0 = "yes" if bad and all(sp["start"] == 0 for sp in bad) else "no"
    if evn["op"] == "compile" and not bad and "erroneous text" in un.get("why", ""):
        first = r["spans"][0] if r.get("spans") else None
        return ({"kind": "wrong-label", "family": family, "errkind": errkind},
                "the report for %s cites bytes %s, the erroneous text (the invalid escape) is bytes %s..%s (\"%s\")" %
                (shown, first and "%d..%d" % (first["start"], first["end"]), evn["at"][0], evn["at"][1], r.get("head")))
    if evn["op"] == "compile":
        return ({"kind": "bad-span", "flaw": flaw, "errkind": errkind, "at_file_start": at0},
                "the report for %s cites a location that is not inside its file on character boundaries (%s): %s" %
                (shown, flaw, [s for s in r["spans"] if span_flaw(s, case)][:3]))
    rd = [x for x in r["render"] if bool(x["color"]) == evn["colour"]][0]
    if rd["res"] != "done":
        return ({"kind": "panic", "phase": "render", "file": nolines(rel(rd.get("loc", "?"))), "errkind": errkind, "flaw": flaw,
                 "at_file_start": at0},
                "rendering the report for %s (colour=%s) panicked at %s: %s" % (shown, evn["colour"], rel(rd.get("loc")), rd.get("msg")))
    if rd.get("hints_shown") != rd.get("hints"):
        return ({"kind": "label-lost", "what": "hint", "errkind": errkind},
                "the rendered report for %s (colour=%s) shows %s of its %s hint labels (\"%s\")" %
                (shown, evn["colour"], rd.get("hints_shown"), rd.get("hints"), r.get("head")))
    return ({"kind": "unexpected-event", "why": un.get("why", "?")}, "event rejected by TraceTotality: %s" % un)


def validate_events(chunks, ev):
    """Trace validation of the recorded events, several TLC processes side by side."""
    from concurrent.futures import ThreadPoolExecutor
    d = vlib.workdir(PID, "trace")
    paths = []
    for k, evs in enumerate(chunks):
        path = os.path.join(d, "totality_%d.ndjson" % k)
        vlib.write_ndjson(path, evs)
        paths.append(path)

    def one(path):
        # the metadir is derived from module+cfg: give every process its own cfg name
        k = paths.index(path)
        cfg = os.path.join(vlib.workdir(PID, "cfg"), "TraceTotality_%d.cfg" % k)
        shutil.copy(os.path.join(vlib.SPEC, "TraceTotality.cfg"), cfg)
        return vlib.validate_trace("TraceTotality", cfg, path, timeout=1800, heap="3g")
    with ThreadPoolExecutor(max_workers=len(paths)) as ex:
        rs = list(ex.map(one, paths))
    unmatched = []
    for path, r in zip(paths, rs):
        ev.add_tlc(r)
        if r.error or r.invariant_violated or r.postcondition_failed or r.rc != 0:
            raise vlib.ToolError("TraceTotality did not run to the end of %s: %s\n%s" % (path, r.error, r.stdout[-1500:]))
        unmatched.extend(r.replay)
    return unmatched


def generate_inputs(tier, ev, stats):
    """MCTotality enumerates the input descriptors of every family within the tier's bounds."""
    fam = families(tier)
    d = vlib.workdir(PID, "cfg")
    fpath = os.path.join(d, "families_%s.json" % tier)
    with open(fpath, "w") as f:
        f.write(json.dumps(fam) + "\n")
    r = run_tlc("MCTotality", "MCTotality.cfg", workers=6, coverage=False, timeout=1800, heap="8g",
                env={"C06_FAMILIES": fpath})
    require_tlc_ok(r, "MCTotality")
    ev.add_tlc(r)
    stats["totality_bounds"] = {k: v for k, v in fam.items() if k not in ("seeds", "replace", "small")}
    stats["totality_bounds"]["seeds"] = {n: {"tokens": s["ntok"], "chars": s["nchar"]} for n, s in zip(SEED_NAMES, fam["seeds"])}
    return r.replay


def totality(tier, ev, verd, stats):
    descs = generate_inputs(tier, ev, stats)
    tree_root = vlib.workdir(PID, "trees", clean=True)
    # the unmodified seeds must be valid programs (otherwise their mutants exercise nothing); a seed the
    # compiler crashes on is a violation like any other input (it is also part of the slices below)
    seeds = [{"k": "src", "src": join_tokens(seed_tokens(n))} for n in SEED_NAMES]
    for n, res in zip(SEED_NAMES, vlib.run_batch("c06", seeds, nproc=2, pid=PID, tag="seeds", stall=10)):
        if vlib.outcome_of(res) == "returned" and res["r"]["outcome"] == "err":
            raise vlib.ToolError("seed program %s is not a valid program: %s" % (n, res))
    descs = descs + [{"fam": "seed", "p": [i + 1]} for i in range(len(SEED_NAMES))]
    # spread the inputs over slices and worker processes (a hanging probe costs its worker the stall time)
    random.Random(vlib.seed()).shuffle(descs)
    seen = set()
    fam_count, used_count, outcomes = {}, {}, {}
    totals = {"distinct": 0, "rejected": 0, "slow": 0}
    picked = {}
    slice_size = 160000
    for lo in range(0, len(descs), slice_size):
        cases, meta = [], []
        for dsc in descs[lo:lo + slice_size]:
            case, family, used = render_descriptor(dsc, tree_root)
            fam_count[family] = fam_count.get(family, 0) + 1
            for u in used:
                used_count[u] = used_count.get(u, 0) + 1
            key = vlib.shash(case)
            if key in seen:
                continue
            seen.add(key)
            cases.append(case)
            meta.append((family, dsc, key))
        totality_slice(cases, meta, ev, verd, outcomes, totals, picked)
    # anti-vacuity: every family, every mutation operator, every token kind / symbol / slot was generated,
    # every outcome class was observed
    need_fams = (["seq:" + c for c, _ in CTXS] + ["mut:" + m for m in MUT_OPS.values()] +
                 ["ill:" + g for g, _ in ill_groups()] + ["nest:" + n for n, _ in NEST] + ["tree:disk", "tree:mem"] +
                 ["lit:string", "lit:fstring"] + ["inf:" + v for v, _, _ in INF_VARS] + ["imp:" + x for x in IMP_PLACES] +
                 ["tpath:" + x for x, _ in TP_PLACES] + ["graph:" + x for x, _ in GRAPHS])
    missing = [f for f in need_fams if not fam_count.get(f)]
    missing += [t for t, _ in TOKENS if not used_count.get(t)] + [a for a in ALPHA if not used_count.get(a)]
    missing += [sl for sl in SLOTS if not used_count.get(sl)] + [c for c, _ in CONTENTS if not used_count.get(c)]
    missing += [t for t, _ in INGREDIENTS if not used_count.get(t)] + [w for w, _ in INF_WRAPPERS if not used_count.get(w)]
    missing += [t for t in IMPORTS if not used_count.get(t)]
    # type paths: every declared name, every argument form, paths of every length up to the bound; graphs: every width,
    # the deepest graph of the tier
    fam_now = families(tier)
    missing += [u for u in ["tpname_" + n for n, _ in TP_NAMES] + ["tparg_" + a for a, _, _ in TP_ARGS] +
                ["tplen%d" % k for k in range(1, fam_now["tplen"] + 1)] +
                ["graph_w%d" % w for w in range(1, GRAPH_WIDTHS + 1)] + ["graph_d%d" % max(GRAPH_DEPTHS)]
                if not used_count.get(u)]
    if missing:
        raise vlib.ToolError("input families / operators / token kinds never generated: %s" % missing)
    for need in ("ok", "err:parse", "err:type", "err:read"):
        if not outcomes.get(need):
            raise vlib.ToolError("outcome class %s never observed (vacuous run): %s" % (need, outcomes))
    # the new families are not vacuous: at every place a well-formed type path compiles (the rest of the place is a
    # valid program, so the path is what is judged) and an ill-formed one is reported by the type checker; the `Generic.Param`
    # paths were generated at every place; a graph of every shape compiles (it is a valid program, the graph is
    # really built); the widest-and-deepest graphs below a constant are among the cases
    byfam = totals.get("by_family", {})
    for pl, _ in TP_PLACES:
        o = byfam.get("tpath:" + pl, {})
        if not o.get("ok") or not o.get("err:type"):
            raise vlib.ToolError("type paths at place %s: no path compiled / none was rejected by the type checker: %s" % (pl, o))
    for g, _ in GRAPHS:
        o = byfam.get("graph:" + g, {})
        if not o.get("ok") and not any(k in o for k in ("hang", "panic")) and not any(k.startswith("crash") for k in o):
            raise vlib.ToolError("reference graphs of shape %s never compiled: %s" % (g, o))
    nparam = sum(1 for dsc in descs if dsc["fam"] == "tpath" and tpath_text(dsc["p"]) in ("Box.T", "Maybe.T"))
    ndeep = sum(1 for dsc in descs if dsc["fam"] == "graph" and GRAPHS[dsc["p"][0] - 1][0] == "calls_below_const"
                and dsc["p"][1] ** dsc["p"][2] >= 2 ** 32)
    if nparam < 2 * len(TP_PLACES) or ndeep < 2:
        raise vlib.ToolError("type paths `Generic.Param` (%d) / reference graphs with >= 2^32 paths below a constant (%d) "
                             "are missing from the generated cases" % (nparam, ndeep))
    stats["type_path_cases"] = {"places": len(TP_PLACES), "names": len(TP_NAMES), "argument_forms": len(TP_ARGS),
                                "max_segments": fam_now["tplen"], "generic_param_paths": nparam,
                                "outcomes_by_place": {k: v for k, v in sorted(byfam.items()) if k.startswith("tpath:")}}
    stats["reference_graph_cases"] = {"shapes": [g for g, _ in GRAPHS], "max_width_by_shape": GRAPH_SHAPE_WIDTH,
                                      "depths": fam_now["gdepths"], "max_items": GRAPH_MAXITEMS,
                                      "graphs_with_2^32_paths_below_a_constant": ndeep, "slowest_graph_ms": totals.get("graph_slow", 0),
                                      "outcomes_by_shape": {k: v for k, v in sorted(byfam.items()) if k.startswith("graph:")}}
    stats["inputs_by_family"] = fam_count
    stats["descriptors"] = len(descs)
    stats["distinct_inputs"] = totals["distinct"]
    stats["outcomes"] = outcomes
    stats["slowest_case_ms"] = totals["slow"]
    stats["inputs_rejected"] = totals["rejected"]
    stats["samples_totality"] = list(picked.values())
    shutil.rmtree(tree_root, ignore_errors=True)
    if outcomes.get("ok"):
        ev.impl_actions.add("Totality.CompileOk")
    if any(k.startswith("err") for k in outcomes):
        ev.impl_actions.update(["Totality.CompileReport", "Totality.Render"])


def totality_slice(cases, meta, ev, verd, outcomes, totals, picked):
    results = vlib.run_batch("c06", cases, nproc=10, pid=PID, tag="tot", stall=10)
    nchunks = 4 if len(cases) > 20000 else 1
    chunks = [[] for _ in range(nchunks)]
    for i, (case, res) in enumerate(zip(cases, results)):
        chunks[i * nchunks // len(cases)].extend(events_of(i, case, res))
        oc = vlib.outcome_of(res)
        key = oc
        if oc == "returned":
            r = res["r"]
            key = r["outcome"] + (":" + "+".join(sorted(set(r.get("kinds", [])))) if r["outcome"] == "err" else "")
            totals["slow"] = max(totals["slow"], r.get("ms", 0))
        outcomes[key] = outcomes.get(key, 0) + 1
        if meta[i][0].startswith(("tpath:", "graph:")):
            byfam = totals.setdefault("by_family", {}).setdefault(meta[i][0], {})
            byfam[key] = byfam.get(key, 0) + 1
            if meta[i][0].startswith("graph:") and oc == "returned":
                totals["graph_slow"] = max(totals.get("graph_slow", 0), res["r"].get("ms", 0))
        fam = meta[i][0].split(":")[0]
        if fam not in picked and oc == "returned" and len(json.dumps(case)) < 400:
            picked[fam] = {"family": meta[i][0], "input": case, "outcome": key, "head": res["r"].get("head", "")}
    unmatched = validate_events(chunks, ev)
    bad = {}
    for un in unmatched:
        bad.setdefault((un["ev"]["id"], un["ev"]["op"], str(un["ev"].get("colour"))), un)
    bad_ids = set()
    for (i, _, _), un in sorted(bad.items(), key=lambda kv: kv[0]):
        sig, desc = signature_of(un, cases[i], results[i], meta[i][0])
        verd.report(sig, desc, {"case": cases[i], "family": meta[i][0], "descriptor": meta[i][1], "result": results[i]})
        bad_ids.add(i)
    for i, case in enumerate(cases):
        nontrivial = case["k"] != "src" or bool(case["src"].strip())
        ev.case(None, nontrivial, key="in:" + meta[i][2])
    ev.traces += len(cases) - len(bad_ids)
    totals["distinct"] += len(cases)
    totals["rejected"] += len(bad_ids)


# ------------------------------------------------------------ sensitivity of the Lexer spec
def lexer_sensitivity(ev, stats):
    """With the arithmetic of the code as it was / is written TLC must violate OnBoundary (and only that)."""
    d = vlib.workdir(PID, "cfg")
    plans = [("CodeArith/keyword_or_ident", dict(code_arith=True), ["letter2", "letter1", "space"], 2),
             ("CodeArith/f_string_part", dict(code_arith=True), ["f", "dquote", "mark2", "lbrace", "letter1"], 4),
             ("CodeErrTok/error token", dict(code_err=True), ["other3", "letter1", "space"], 2)]
    out = {}
    for name, kw, alpha, maxlen in plans:
        cfg = lexer_cfg(os.path.join(d, "lex_sens_%s.cfg" % name.split("/")[1].replace(" ", "_")), maxlen, alpha=alpha, **kw)
        with open(cfg) as f:
            text = f.read().replace("INVARIANTS Inv Emit", "INVARIANTS TypeOK Progress TokensTile OnBoundary")
        with open(cfg, "w") as f:
            f.write(text)
        r = run_tlc("MCLexer", cfg, workers=1, coverage=False, timeout=600)
        ev.add_tlc(r)
        if r.invariant_violated != "OnBoundary":
            raise vlib.ToolError("Lexer.tla with %s does not violate OnBoundary (got %s / %s): the spec is not "
                                 "sensitive to the byte/char confusion" % (name, r.invariant_violated, r.error))
        # the same strings with the documented arithmetic satisfy every invariant
        cfg2 = lexer_cfg(cfg.replace(".cfg", "_doc.cfg"), maxlen, alpha=alpha)
        with open(cfg2) as f:
            text = f.read().replace("INVARIANTS Inv Emit", "INVARIANTS TypeOK Progress TokensTile OnBoundary")
        with open(cfg2, "w") as f:
            f.write(text)
        r2 = run_tlc("MCLexer", cfg2, workers=1, coverage=False, timeout=600)
        require_tlc_ok(r2, "MCLexer documented arithmetic, alphabet of " + name)
        ev.add_tlc(r2)
        out[name] = "OnBoundary violated"
    # the parser entry (skip_shebang first): invariants over all strings of <= 3 symbols
    cfg = lexer_cfg(os.path.join(d, "lex_shebang.cfg"), 4, shebang=True,
                    alpha=["hash", "bang", "letter1", "letter2", "space", "newline", "slash", "other3", "wspace3"])
    r = run_tlc("MCLexer", cfg, workers=4, coverage=False, timeout=900, heap="6g")
    require_tlc_ok(r, "MCLexer WithShebang")
    ev.add_tlc(r)
    n = sum(1 for c in r.replay for pc in c["p"] if pc["k"] == "Shebang")
    if n == 0:
        raise vlib.ToolError("SkipShebang never skipped anything")
    out["WithShebang"] = "%d strings, %d with a shebang line skipped" % (len(r.replay), n)
    stats["lexer_sensitivity"] = out


# ------------------------------------------------------------------------------ entry points
def run(tier):
    ev = Evidence(PID, tier)
    verd = Verdicts(PID)
    stats = {}
    check_reps()
    vlib.build_harness(["c06"])
    ev.rule = ("cases = (a) abstract strings enumerated by TLC from Lexer.tla, each concretised with several "
               "representatives per class and lexed by the real lexer, (b) compiler inputs enumerated by MCTotality "
               "(token sequences in 6 contexts, mutants of 10 seed programs, ill-typed programs, nesting <= 64, module "
               "trees in memory and on disk, string/f-string literal bodies of <= 3 ingredients, infinite-type programs, import "
               "statements, type paths over the declared names of a package at every place a type is written, layered "
               "reference graphs of <= 80 items), each compiled and its report rendered twice by the real crate; distinct = "
               "distinct concrete source text / file tree; non-trivial = the lexer run has at least one token, resp. "
               "the input is not blank")
    import time
    for part in (lexer_spec_to_impl, lexer_impl_to_spec, totality, lexer_sensitivity):
        t0 = time.time()
        if part is lexer_sensitivity:
            part(ev, stats)
        else:
            part(tier, ev, verd, stats)
        stats.setdefault("wall_s_by_part", {})[part.__name__] = round(time.time() - t0, 1)
        vlib.log("C06 %s: %.1f s" % (part.__name__, time.time() - t0))
    ev.exhaustive = True
    ev.samples = stats.pop("samples_lexer", [])[:2] + stats.pop("samples_totality", [])[:4]
    ev.extra.update(stats)
    ev.extra["exhaustive_parts"] = stats.get("lexer_exhaustive_parts", []) + [
        "MCTotality: every descriptor of every family within the bounds in totality_bounds (%d descriptors)" % stats.get("descriptors", 0)]
    ev.assumptions = [
        "abstract symbols: 32 classes (character class x UTF-8 width); 1-6 concrete representatives per class",
        "nesting depth of generated inputs <= 64 (documented limit); the compiler runs on a thread with a 64 MiB stack, so "
        "only unbounded recursion overflows it",
        "a hang is 10 s without progress for inputs that otherwise compile in well under 100 ms",
        "reference graphs: w items per layer, d layers, w * d <= 80; record-type graphs only as chains (w = 1): layered "
        "record types with w >= 2 take exponential time on the unchanged tree (TypeInfo::convert), reported separately",
        "the f-string scanner (f_string_part) is specified and model checked but roto::verif::lex stops at an f-string start: "
        "it is bound to the code only through the compile runs (f-string seeds, mutants and token sequences)",
        "FileTree values are built with the public constructors (test_file, file_spec, read); a FileTree literal with "
        "dangling child indices is not an input",
        "Runtime::new() (standard library only) is the runtime of every compile",
    ]
    rc = verd.finish()
    ev.write(len(verd.violations))
    return rc


def replay(path):
    with open(path) as f:
        obj = json.load(f)["replay"]
    vlib.build_harness(["c06"])
    verd = Verdicts(PID)
    ev = Evidence(PID, "quick")
    if obj.get("k") == "lex":
        src = obj["src"]
        if any(ch not in CLASS_OF for ch in src):
            raise vlib.ToolError("replay: %r contains characters outside the class table" % src)
        res = vlib.run_batch("c06", [{"k": "lex", "src": src}], nproc=1, pid=PID, tag="replay", stall=10)[0]
        if vlib.outcome_of(res) != "returned" or res["r"].get("outcome") != "ok":
            compare_lex({"s": [CLASS_OF[c] for c in src], "p": [], "stop": {"why": "?"}}, src, res, verd, ev)
            return verd.finish()
        d = vlib.workdir(PID, "trace")
        tpath = os.path.join(d, "replay_lexer.ndjson")
        vlib.write_ndjson(tpath, lex_events(0, src, res["r"]["toks"]))
        r = vlib.validate_trace("TraceLexer", "TraceLexer.cfg", tpath)
        if r.error or r.rc != 0:
            raise vlib.ToolError("TraceLexer failed: %s" % r.error)
        for un in r.replay[:1]:
            verd.report({"kind": "lexer-range", "what": "token-differs"},
                        "lexer: %r: real lexer %s, Lexer.tla %s" % (src, un["ev"], un["expected"]), obj)
        return verd.finish()
    case = obj["case"]
    if case.get("k") == "disk" and not os.path.isdir(case["path"]) and obj.get("descriptor"):
        case, _, _ = render_descriptor(obj["descriptor"], vlib.workdir(PID, "trees"))
    res = vlib.run_batch("c06", [case], nproc=1, pid=PID, tag="replay", stall=10)[0]
    for un in validate_events([events_of(0, case, res)], ev):
        sig, desc = signature_of(un, case, res, obj.get("family", "?"))
        verd.report(sig, desc, {"case": case, "family": obj.get("family"), "descriptor": obj.get("descriptor"), "result": res})
    return verd.finish()
