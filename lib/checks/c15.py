"""C15 - lists behave like one shared growable array.

Spec: spec/ListSeq.tla (+ MCListSeq.tla, TraceListSeq.tla).
S->I: TLC enumerates every behaviour of ListSeq up to a length bound from four
      initial configurations (plus seeded random walks); each behaviour carries the
      specified observation and live-element count per step and is replayed into
      roto::List<T> (Rust API), compiled scripts, and alternating, for seven element
      kinds; observations are compared step by step.
I->S: long seeded random histories (growth across 8/16/../1024) are executed on the
      real lists; the recorded events must be a behaviour of ListSeq (TLC trace
      validation, TraceListSeq.tla).
"""
import os
import random

import vlib
from vlib import Evidence, Verdicts, run_tlc, require_tlc_ok, require_coverage

PID = "C15"
KINDS = ["u8", "u64", "optu64", "string", "list", "tr24", "tr0"]
ROUTES = ["rust", "script", "alt"]
HUGE = 1000000
OPNAMES = ["new", "from_vec", "push", "get", "len", "is_empty", "capacity", "swap", "concat",
           "contains", "index", "eq", "to_vec", "iter", "iter_push", "clone", "drop"]


def mc_cfg(path, vals, n, init, handles=("h1", "h2", "h3"), maxlen=4, getidx=None, swapidx=None):
    getidx = getidx if getidx is not None else [0, 1, maxlen - 1, maxlen, HUGE]
    swapidx = swapidx if swapidx is not None else [0, 1, maxlen - 1, HUGE]
    with open(path, "w") as f:
        f.write("""SPECIFICATION MCSpec
CONSTANTS
  Handles = {%s}
  Vals = {%s}
  MaxLists = 8
  MaxLen = %d
  Huge = %d
  GetIdx = {%s}
  SwapIdx = {%s}
  N = %d
  InitKind = "%s"
INVARIANTS Inv Emit
PROPERTY OnlyMutatorsChange
CHECK_DEADLOCK FALSE
""" % (", ".join('"%s"' % h for h in handles), ", ".join(str(v) for v in vals), maxlen, HUGE,
       ", ".join(str(i) for i in sorted(set(getidx))), ", ".join(str(i) for i in sorted(set(swapidx))), n, init))


def generate_cases(tier, ev, vals, tagp):
    """TLC-generated behaviours (exhaustive short ones + seeded walks)."""
    cases = []
    d = vlib.workdir(PID, "cfg")
    exhaustive = []
    if tier == "quick":
        plan = [("empty", 3, ("h1", "h2"), 4, None), ("alias", 2, ("h1", "h2", "h3"), 4, None),
                ("full4", 2, ("h1", "h2"), 5, None), ("full8", 2, ("h1", "h2"), 9, ["u8"]),
                ("wempty+concat", 3, ("h1", "h2"), 3, ["u64", "tr24"])]
        walks = (60, 14)
    else:
        # (measured: the two-handle enumerations one step longer - empty N=4, alias N=3, full4 N=3 - have 0.5 - 0.75 million
        # behaviours each, x 7 element kinds x 3 routes: far beyond what one run can replay or hold in memory; the thorough
        # tier adds the third handle to every configuration instead and many more / longer walks and recorded histories)
        plan = [("empty", 3, ("h1", "h2"), 4, None), ("empty", 3, ("h1", "h2", "h3"), 4, None),
                ("alias", 2, ("h1", "h2", "h3"), 4, None),
                ("full4", 2, ("h1", "h2"), 5, None), ("full4", 2, ("h1", "h2", "h3"), 5, None),
                ("full8", 2, ("h1", "h2", "h3"), 9, ["u8", "tr24"]),
                ("wempty+concat", 3, ("h1", "h2"), 3, ["u64", "tr24", "str"])]
        walks = (400, 40)
    opcount = {}
    for (init0, n, hs, maxlen, only) in plan:
        init, _, flt = init0.partition("+")
        cfg = os.path.join(d, "mc_%s_%s_%d_%d.cfg" % (tagp, init, n, len(hs)))
        if init == "wempty" and tier == "quick":
            mc_cfg(cfg, vals, n, init, hs, maxlen, getidx=[0, 2], swapidx=[0, 1])
        else:
            mc_cfg(cfg, vals, n, init, hs, maxlen)
        r = run_tlc("MCListSeq", cfg, workers=6, timeout=1500, heap="8g", coverage=False)
        require_tlc_ok(r, "MCListSeq %s N=%d" % (init, n))
        ev.add_tlc(r)
        got = r.replay
        if flt == "concat":
            # of all behaviours from "a list next to an empty list" keep those that concatenate first,
            # then mutate, then observe (concatenation must give a fresh list, also with an empty operand)
            got = [c for c in got if c["ops"][0]["op"] == "concat"
                   and c["ops"][1]["op"] in ("push", "swap", "iter_push")]
        for c in got:
            c["only"] = only
        cases.extend(got)
        exhaustive.append("%s:N=%d:handles=%d:%d behaviours%s" % (init, n, len(hs), len(got), " (filtered: concat, mutate, *)" if flt else ""))
    # seeded random walks (simulation mode): deeper histories
    num, depth = walks
    for init in ("empty", "full4"):
        cfg = os.path.join(d, "sim_%s_%s.cfg" % (tagp, init))
        mc_cfg(cfg, vals, depth, init, ("h1", "h2", "h3"), 12, getidx=[0, 1, 3, 4, 7, 8, 11, 12, HUGE], swapidx=[0, 1, 3, 4, 8, HUGE])
        # the temporal property is not checked in simulation mode
        s = open(cfg).read().replace("PROPERTY OnlyMutatorsChange\n", "")
        open(cfg, "w").write(s)
        r = run_tlc("MCListSeq", cfg, workers=1, simulate=num // 2, depth=depth + 1, timeout=900,
                    tlc_seed=vlib.seed(), coverage=False)
        if r.error or r.invariant_violated:
            require_tlc_ok(r, "MCListSeq simulate")
        ev.add_tlc(r)
        for c in r.replay:
            c["only"] = None
        cases.extend(r.replay)
    # vacuity guard: every ListSeq action must occur in the emitted behaviours
    for c in cases:
        for op in c["ops"]:
            opcount[op["op"]] = opcount.get(op["op"], 0) + 1
    missing = [a for a in OPNAMES if opcount.get(a, 0) == 0]
    if missing:
        raise vlib.ToolError("ListSeq actions never taken in the generated behaviours: %s" % missing)
    ev.extra.setdefault("spec_action_counts", {}).update(opcount)
    return cases, exhaustive


def compare(case, res, kind, route, verd, ev):
    """Compare one replayed behaviour with the specification's expectations.  A result record that is
    malformed (possible after memory corruption in the worker) is itself a violation."""
    try:
        return compare_inner(case, res, kind, route, verd, ev)
    except (KeyError, TypeError, IndexError) as ex:
        verd.report({"kind": kind, "route": route, "kind_of_failure": "corrupted-result", "op": "?"},
                    "the worker returned a malformed observation record (%r) for kind=%s route=%s: memory corruption "
                    "in the list code?  result=%s" % (ex, kind, route, str(res)[:300]),
                    {"case": case, "kind": kind, "route": route, "result": res})
        return False


def compare_inner(case, res, kind, route, verd, ev):
    what = {"kind": kind, "route": route}
    ops = case["ops"]
    oc = vlib.outcome_of(res)
    if oc != "returned":
        step = res.get("step", -1)
        opname = ops[step]["op"] if isinstance(step, int) and 0 <= step < len(ops) else "?"
        same = None
        if opname == "eq" and 0 <= step < len(ops):
            same = "distinct"
        sig = dict(what, kind_of_failure=oc.split(":")[0], op=opname)
        if same:
            sig["operands"] = same
        verd.report(sig, "list operation did not return normally (%s) at step %s op=%s kind=%s route=%s: %s" %
                    (oc, step, opname, kind, route, res), {"case": case, "kind": kind, "route": route, "result": res})
        return False
    steps = res["r"]["steps"]
    ok = True
    for k, (op, got) in enumerate(zip(ops, steps)):
        exp = op["res"]
        if kind == "tr0":
            # all zero-sized values are equal: abstract value 0
            pass
        if got["res"] != exp:
            verd.report(dict(what, kind_of_failure="wrong-result", op=op["op"]),
                        "step %d %s: spec says %r, implementation returned %r (kind=%s route=%s)" %
                        (k, op, exp, got["res"], kind, route),
                        {"case": case, "kind": kind, "route": route, "step": k, "got": got})
            ok = False
            break
        if got["live"] is not None and got["live"] != op["live"]:
            verd.report(dict(what, kind_of_failure="element-accounting", op=op["op"]),
                        "step %d %s: spec says %d live elements, measured %d (kind=%s route=%s)" %
                        (k, op, op["live"], got["live"], kind, route),
                        {"case": case, "kind": kind, "route": route, "step": k, "got": got})
            ok = False
            break
    if ok and res["r"]["end_live"] not in (None, 0):
        verd.report(dict(what, kind_of_failure="element-accounting", op="end"),
                    "after dropping every handle %s element instances are still alive (kind=%s route=%s)" %
                    (res["r"]["end_live"], kind, route), {"case": case, "kind": kind, "route": route})
        ok = False
    return ok


def random_history(rng, nops, nvals):
    """Seeded random operation sequence (arguments only; no expected results)."""
    hs = ["h1", "h2", "h3"]
    bound = set()
    ops = []
    # upper bound of the length of the storage every handle refers to (aliases share the cell): histories whose
    # lists double over and over (c = a ++ a, a thousand times) are memory tests, not semantics tests
    cell = {}
    CAP = 4000
    for _ in range(nops):
        cand = []
        unb = [h for h in hs if h not in bound]
        b = sorted(bound)
        if not b:
            op = rng.choice(["new", "from_vec"])
        else:
            op = rng.choices(
                ["new", "from_vec", "push", "get", "len", "is_empty", "capacity", "swap", "concat", "contains",
                 "index", "eq", "to_vec", "iter", "iter_push", "clone", "drop"],
                [1, 1, 14, 6, 3, 1, 2, 5, 2, 3, 3, 3, 1, 1, 2, 3, 1])[0]
        v = rng.randrange(nvals)
        big = rng.choice([0, 1, 2, 3, 5, 7, 8, 9, 15, 16, 17, 40, 100, 500, 1030, HUGE])
        if op == "new":
            h = rng.choice(unb or hs)
            ops.append({"op": "new", "h": h}); bound.add(h); cell[h] = [0]
        elif op == "from_vec":
            h = rng.choice(unb or hs)
            ops.append({"op": "from_vec", "h": h, "s": [v, rng.randrange(nvals)]}); bound.add(h); cell[h] = [2]
        elif op in ("push", "contains", "index"):
            h = rng.choice(b)
            if op == "push":
                if cell[h][0] >= CAP:
                    op = "contains"
                else:
                    cell[h][0] += 1
            ops.append({"op": op, "h": h, "v": v})
        elif op == "get":
            ops.append({"op": op, "h": rng.choice(b), "i": big})
        elif op in ("len", "is_empty", "capacity", "to_vec", "iter"):
            ops.append({"op": op, "h": rng.choice(b)})
        elif op == "swap":
            ops.append({"op": op, "h": rng.choice(b), "i": big, "j": rng.choice([0, 1, 2, 6, 7, 8, 20, HUGE])})
        elif op == "concat":
            c = rng.choice(hs)
            a_, b_ = rng.choice(b), rng.choice(b)
            if cell[a_][0] + cell[b_][0] > CAP:
                ops.append({"op": "eq", "a": a_, "b": b_})
                continue
            ops.append({"op": op, "a": a_, "b": b_, "c": c}); bound.add(c)
            cell[c] = [cell[a_][0] + cell[b_][0]]
        elif op == "eq":
            ops.append({"op": op, "a": rng.choice(b), "b": rng.choice(b)})
        elif op == "iter_push":
            h = rng.choice(b)
            n = rng.choice([0, 3, 8, 9, 16, 17, 33, 64, 65, 130, 260, 600, 1100])
            if cell[h][0] + n > CAP:
                n = 0
            cell[h][0] += n
            ops.append({"op": op, "h": h, "n": n})
        elif op == "clone":
            a = rng.choice(b)
            o = [h for h in hs if h != a]
            bb = rng.choice(o)
            ops.append({"op": op, "a": a, "b": bb}); bound.add(bb); cell[bb] = cell[a]
        elif op == "drop":
            h = rng.choice(b)
            ops.append({"op": op, "h": h}); bound.discard(h)
    return ops


def impl_to_spec(tier, ev, verd):
    """I->S: record long random histories from the real implementation, validate with TLC."""
    rng = random.Random(vlib.seed() * 7 + 1)
    nruns, nops = (4, 250) if tier == "quick" else (30, 1000)
    d = vlib.workdir(PID, "trace")
    total_traces = 0
    for kind in KINDS:
        nvals = 1 if kind == "tr0" else 4
        cases = [{"heap0": [], "hmap0": {"h1": 0, "h2": 0, "h3": 0}, "ops": random_history(rng, nops, nvals)}
                 for _ in range(nruns)]
        # zero-sized tracked elements: scripts skip the clone of zero-sized host values (known finding,
        # shown by the S->I part); the recorded run uses the Rust API so that the rest of the trace is checked
        route = "rust" if kind == "tr0" else "alt"
        results = vlib.run_batch("c15", cases, extra=[kind, route], nproc=min(8, nruns), pid=PID, tag="rec_" + kind, stall=30)
        events = []
        good = 0
        for case, res in zip(cases, results):
            if vlib.outcome_of(res) != "returned":
                compare({"ops": case["ops"], "heap0": [], "hmap0": {}}, res, kind, route, verd, ev)
                continue
            events.append({"op": "reset"})
            for op, got in zip(case["ops"], res["r"]["steps"]):
                e = dict(op)
                e["res"] = got["res"]
                if got["live"] is not None:
                    e["live"] = got["live"]
                events.append(e)
                ev.impl_actions.add(op["op"])
            good += 1
        path = os.path.join(d, "trace_%s.ndjson" % kind)
        vlib.write_ndjson(path, events)
        r = vlib.validate_trace("TraceListSeq", "TraceListSeq.cfg", path, timeout=1200, heap="6g")
        ev.add_tlc(r)
        if r.ok:
            total_traces += good
            ev.traces += good
        elif r.postcondition_failed and r.replay:
            un = r.replay[0]
            verd.report({"kind": kind, "route": "alt", "kind_of_failure": "trace-rejected", "op": un["ev"].get("op", "?")},
                        "recorded history of kind=%s is not a behaviour of ListSeq: first unmatched event (line %s): %s" %
                        (kind, un["line"], un["ev"]), {"trace": path, "unmatched": un})
        else:
            raise vlib.ToolError("trace validation failed to run: %s\n%s" % (r.error, r.stdout[-2000:]))
    return total_traces


def run(tier):
    ev = Evidence(PID, tier)
    verd = Verdicts(PID)
    vlib.build_harness(["c15"])
    ev.rule = ("cases = behaviours of ListSeq emitted by TLC (all behaviours up to the length bound from 4 initial "
               "configurations + seeded simulation walks), each replayed for 7 element kinds (one whose stored form differs from the Rust type: Option<u64>) x 3 routes; distinct = "
               "distinct (behaviour, kind, route); non-trivial = behaviour contains at least one mutation "
               "(push/swap/concat/iter_push/from_vec) followed by an observation")
    cases2, exh2 = generate_cases(tier, ev, [0, 1], "v2")
    cases1, exh1 = generate_cases(tier, ev, [0], "v1")
    ev.extra["exhaustive_parts"] = exh2 + ["Vals={0}: " + x for x in exh1]

    def nontrivial(c):
        seen_mut = False
        for op in c["ops"]:
            if op["op"] in ("push", "swap", "concat", "iter_push", "from_vec"):
                seen_mut = True
            elif seen_mut and op["op"] in ("get", "len", "to_vec", "iter", "eq", "contains", "index", "is_empty"):
                return True
        return False

    from concurrent.futures import ThreadPoolExecutor
    jobs = []
    for kind in KINDS:
        cases = [c for c in (cases1 if kind == "tr0" else cases2) if not c.get("only") or kind in c["only"]]
        for route in ROUTES:
            # the alternating route is replayed on the aliasing configuration and the random walks
            cs = cases if route != "alt" else [c for c in cases if c["init"] == "alias" or len(c["ops"]) > 4]
            jobs.append((kind, route, cs))
    # at most 6 batches in flight and every result list is dropped as soon as it was compared: holding the results of
    # all 21 (kind, route) batches made the driver of the thorough tier grow beyond 22 GB
    with ThreadPoolExecutor(max_workers=6) as ex:
        pending = list(jobs)
        running = []
        while pending or running:
            while pending and len(running) < 6:
                (k, r, cs) = pending.pop(0)
                running.append((k, r, cs, ex.submit(vlib.run_batch, "c15", cs, [k, r], 2, 20, PID, "%s_%s" % (k, r))))
            kind, route, cs, f = running.pop(0)
            results = f.result()
            for c, res in zip(cs, results):
                compare(c, res, kind, route, verd, ev)
                ev.case({"kind": kind, "route": route, "ops": c["ops"]}, nontrivial(c),
                        key=vlib.shash([kind, route, c["init"], c["ops"]]))
                ev.traces += 1
            del results, f
    impl_to_spec(tier, ev, verd)
    ev.exhaustive = True
    ev.assumptions = [
        "element values are representatives of abstract values (4 per kind; zero-sized type has one)",
        "capacity is only required to be >= len",
        "exhaustive only up to the stated history length; longer histories are seeded walks",
    ]
    rc = verd.finish()
    ev.write(len(verd.violations))
    return rc


def replay(path):
    import json
    obj = json.load(open(path))["replay"]
    vlib.build_harness(["c15"])
    verd = Verdicts(PID)
    ev = Evidence(PID, "quick")
    if "case" in obj:
        res = vlib.run_batch("c15", [obj["case"]], extra=[obj["kind"], obj["route"]], nproc=1, pid=PID, tag="replay")
        compare(obj["case"], res[0], obj["kind"], obj["route"], verd, ev)
    return verd.finish()
