"""C10 - well-typed scripts and built-ins cannot kill the host process.

Spec: spec/NoCrash.tla (+ MCNoCrash.tla, TraceNoCrash.tla).

NoCrash defines the CALL DOMAIN (operator x numeric type x operand classes incl. zero
divisors and MIN / -1; every built-in function / method / constant of the default runtime x
argument classes per parameter kind; operators resolved to built-ins) and the CALL PROTOCOL
pending -> called -> returned whose only way out of `called` is Return.

S->I: TLC enumerates the domain (MCNoCrash) and emits one REPLAY case per point together with
      the only outcome the specification allows.  python maps every class to a concrete value
      (representation only), renders one function per point (operands / arguments as constants
      in the script text: mode "lit"; supplied by the host at call time: mode "arg") and each
      point is executed in a sacrificial worker of harness/src/bin/c10.rs; the observed outcome
      is compared with the specified one.
I->S: the same executions plus the points of a seeded generator (random operands, strings,
      indices, prefix lengths, lists) are written as events {call point} {done outcome};
      TraceNoCrash.tla decides (a) that every generated point lies in the domain (PointOk)
      and (b) that every call is followed by Return.  TLC names every event that is not a step
      of NoCrash; python only turns those into signatures.

The built-in table of the spec is compared with /repo/docs/source/reference/std/** in both
directions, and a call of every entry must compile.

The generic built-ins (everything on List[T], plus the operators +, ==, !=, the for loop and the
list literal) have a TYPE-ARGUMENT dimension in the spec: NoCrash.ElemSize names the element types
per size class of their representation (zero-sized `()`, 1 / 2 / 4 / 8 byte scalars, String, nested
list, Option, record of mixed sizes) and NoCrash.LenOf the length classes (0, 1, 2, 3, 9 = past the
first allocation).  TLC enumerates built-in x element type x length classes x index classes;
python only knows how a value of each element type is written / fetched from the host
(list_family_guard: every combination must occur, else ToolError).
"""
import ipaddress
import json
import os
import random
import re
import struct
import time

import vlib
from vlib import Evidence, Verdicts, run_tlc, require_tlc_ok

PID = "C10"
DOCS = os.path.join(vlib.REPO, "docs", "source", "reference", "std")

INT_TYPES = ["u8", "u16", "u32", "u64", "i8", "i16", "i32", "i64"]
FLOAT_TYPES = ["f32", "f64"]
BITS = {"u8": 8, "u16": 16, "u32": 32, "u64": 64, "i8": 8, "i16": 16, "i32": 32, "i64": 64, "f32": 32, "f64": 64}
I64MAX = (1 << 63) - 1
OPSYM = {"add": "+", "sub": "-", "mul": "*", "div": "/", "rem": "%",
         "eq": "==", "ne": "!=", "lt": "<", "le": "<=", "gt": ">", "ge": ">="}
COMPARE = {"eq", "ne", "lt", "le", "gt", "ge"}
# element kind of the spec (NoCrash.ElemSize) -> roto type (representation only; the kinds, their size classes and
# the length classes are read from the spec: MCNoCrash prints them, see spec_domain)
ELEM_TYPE = {"u8": "u8", "u64": "u64", "str": "String", "char": "char", "unit": "()", "u16": "u16", "u32": "u32",
             "list_u64": "List[u64]", "opt_u64": "Option[u64]", "rec": "R"}
REC_DECL = "record R { a: u8, b: u64, c: String, d: u16 }\n"
REC_FIELDS = [("a", "u8"), ("b", "u64"), ("c", "str"), ("d", "u16")]


def signed(t):
    return t[0] == "i"


# --------------------------------------------------------------------------------------
# representation mapping: class name -> concrete value

def int_edge(t, c):
    n = BITS[t]
    lo, hi = (-(1 << (n - 1)), (1 << (n - 1)) - 1) if signed(t) else (0, (1 << n) - 1)
    m = {"0": 0, "1": 1, "2": 2, "3": 3, "10": 10, "-1": -1, "-2": -2, "MIN": lo, "MIN+1": lo + 1, "MAX": hi,
         "MAX-1": hi - 1, "HALF": 1 << (n - 1), "HALF-1": (1 << (n - 1)) - 1, "HALF+1": (1 << (n - 1)) + 1}
    if c not in m or not lo <= m[c] <= hi:
        raise vlib.ToolError("no value for integer class %r of type %s" % (c, t))
    return m[c]


FLOAT_EDGE = {"0": 0.0, "-0": -0.0, "1": 1.0, "-1": -1.0, "0.5": 0.5, "inf": float("inf"), "-inf": float("-inf"),
              "nan": float("nan"), "2^31": 2.0 ** 31, "2^63": 2.0 ** 63}


def float_bits(t, c):
    if t == "f32":
        sp = {"max": 0x7F7FFFFF, "-max": 0xFF7FFFFF, "tiny": 1, "-tiny": 0x80000001, "nan": 0x7FC00000}
        if c in sp:
            return sp[c]
        return struct.unpack("<I", struct.pack("<f", FLOAT_EDGE[c]))[0]
    sp = {"max": 0x7FEFFFFFFFFFFFFF, "-max": 0xFFEFFFFFFFFFFFFF, "tiny": 1, "-tiny": 0x8000000000000001,
          "nan": 0x7FF8000000000000}
    if c in sp:
        return sp[c]
    return struct.unpack("<Q", struct.pack("<d", FLOAT_EDGE[c]))[0]


def from_le(bs):
    return sum(b << (8 * i) for i, b in enumerate(bs))


def to_le(v, n):
    return [(v >> (8 * i)) & 255 for i in range(n)]


def num_value(t, x):
    """operand record of a point -> concrete value (ints: python int; floats: bit pattern)."""
    if x["c"] == "rnd":
        v = from_le(x["bytes"])
        if t in INT_TYPES and signed(t) and v >= 1 << (BITS[t] - 1):
            v -= 1 << BITS[t]
        return v
    return float_bits(t, x["c"]) if t in FLOAT_TYPES else int_edge(t, x["c"])


def num_class(t, x):
    """name used in signatures: the class, or for concrete operands the edge class they equal."""
    if x["c"] != "rnd":
        return x["c"]
    v = num_value(t, x)
    if t in FLOAT_TYPES:
        return "rnd"
    for c in ("0", "1", "-1", "MIN", "MAX"):
        try:
            if int_edge(t, c) == v:
                return c
        except vlib.ToolError:
            pass
    return "rnd"


STR_CLASS = {
    "empty": "",
    "ascii": "Hello, World",
    "multibyte": "héllo wörld € \U0001F600 ßǅ",
    "lines_nl": "ab\ncd\n\nef\n",
    "lines_nonl": "é1\r\n2\n\n3 €",
    "ws": " \t pad  ded \n ",
}
PAT_CLASS = {"empty": "", "ascii": "l", "multibyte": "ö", "nl": "\n"}
CHAR_CLASS = {"a": 0x61, "nul": 0, "nl": 10, "2byte": 0xE9, "3byte": 0x20AC, "4byte": 0x1F600, "max": 0x10FFFF}
IP_CLASS = {"v4": "192.168.1.77", "v4max": "255.255.255.255", "v6": "2001:db8::abcd:1",
            "v6mapped": "::ffff:102:304", "v6zero": "::"}
PFX_CLASS = {"v4/0": ("0.0.0.0", 0), "v4/24": ("10.1.2.0", 24), "v4/32": ("10.1.2.3", 32),
             "v6/0": ("::", 0), "v6/64": ("2001:db8::", 64), "v6/128": ("2001:db8::1", 128)}
ASN_CLASS = {"0": 0, "65535": 65535, "65536": 65536, "u32max": (1 << 32) - 1}
BIGNUM = {"0": 0, "1": 1, "2": 2, "3": 3, "2^16": 1 << 16, "2^31": 1 << 31, "2^32": 1 << 32, "2^63": 1 << 63,
          "u64max": (1 << 64) - 1}
U64MAX = (1 << 64) - 1
# python values: unit = (), optional = None | int, nested list = list of int, record = (a, b, c, d)
LIST_CLASS = {
    "u8": {"empty": [], "one": [200], "two": [0, 255], "three": [0, 255, 7], "nine": list(range(1, 10))},
    "u64": {"empty": [], "one": [1 << 63], "two": [U64MAX, 0], "three": [0, U64MAX, 7],
            "nine": [k * 1000003 for k in range(9)]},
    "str": {"empty": [], "one": ["héllo"], "two": ["", "ö€x"], "three": ["", "a,b", "ö€"],
            "nine": ["s%d" % k for k in range(9)]},
    "char": {"empty": [], "one": [0xE9], "two": [0x61, 0x1F600], "three": [0x61, 0x20AC, 0x1F600],
             "nine": list(range(0x61, 0x6A))},
    "unit": {"empty": [], "one": [()], "two": [()] * 2, "three": [()] * 3, "nine": [()] * 9},
    "u16": {"empty": [], "one": [65535], "two": [0, 65535], "three": [0, 65535, 7], "nine": [k * 7001 for k in range(9)]},
    "u32": {"empty": [], "one": [1 << 31], "two": [0, (1 << 32) - 1], "three": [0, (1 << 32) - 1, 7],
            "nine": [k * 100003 for k in range(9)]},
    "list_u64": {"empty": [], "one": [[1, 2, 3]], "two": [[], [U64MAX]], "three": [[], [1], [2, 3]],
                 "nine": [[k] * k for k in range(9)]},
    "opt_u64": {"empty": [], "one": [None], "two": [0, None], "three": [U64MAX, None, 7],
                "nine": [None if k % 3 == 0 else k * 1000003 for k in range(9)]},
    "rec": {"empty": [], "one": [(200, 1 << 63, "héllo", 65535)], "two": [(0, 0, "", 0), (255, U64MAX, "ö€x", 65535)],
            "three": [(0, U64MAX, "", 7), (255, 0, "a,b", 0), (7, 7, "ö€", 65535)],
            "nine": [(k, k * 1000003, "s%d" % k, k * 7001) for k in range(9)]},
}
# a value that is in none of the lists above (a single-valued type has none: NoCrash.SingleValued, the spec allows
# "absent" only next to an empty receiver, where the only value is absent)
ABSENT = {"u8": 99, "u64": 123456789, "str": "absent✗", "char": 0x5A, "unit": (), "u16": 999, "u32": 123456,
          "list_u64": [9, 9, 9], "opt_u64": 123456789, "rec": (9, 9, "absent✗", 9)}
ELEM_VT = {e: e for e in ELEM_TYPE}


def unit_len(name, recv):
    """length of the receiver in the unit the built-in indexes by (for len-relative index classes)."""
    vt, v = recv
    if vt.startswith("list_"):
        return len(v)
    if vt != "str":
        return 0
    if name.startswith("StringBytes"):
        return len(v.encode("utf-8"))
    if name.startswith("StringLines"):
        return len(v.splitlines()) if v else 0
    return len(v)


def concretize(point, rng):
    """built-in point -> list of (value type, value), one per argument.  Classes are mapped to fixed
    representatives; "rnd" arguments carry their value (lists: their length; content from rng)."""
    name, elem = point["name"], point["elem"]
    out = []
    for i, a in enumerate(point["args"]):
        k, c = a["k"], a["c"]
        if k in ("Str", "Pat"):
            if c == "rnd":
                v = "".join(chr(cp) for cp in a["cps"])
            elif k == "Pat" and c == "self":
                v = out[0][1] if out and out[0][0] == "str" else ", "
            else:
                v = (STR_CLASS if k == "Str" else PAT_CLASS)[c]
            out.append(("str", v))
        elif k in ("Idx", "Num", "RepCnt"):
            if c == "rnd":
                v = from_le(a["bytes"])
            elif c.startswith("len"):
                n = unit_len(name, out[0])
                v = max(0, n + {"len": 0, "len-1": -1, "len-2": -2, "len+1": 1}[c])
            else:
                v = BIGNUM[c]
            out.append(("u64", v))
        elif k == "PfxLen":
            out.append(("u8", int(c)))
        elif k == "Ip":
            if c == "rnd":
                bs = bytes(a["bytes"])
                v = str(ipaddress.IPv4Address(bs)) if len(bs) == 4 else ipaddress.IPv6Address(bs).compressed
            else:
                v = IP_CLASS[c]
            out.append(("ip", v))
        elif k == "Pfx":
            out.append(("pfx", PFX_CLASS[c]))
        elif k == "Asn":
            out.append(("asn", from_le(a["bytes"]) if c == "rnd" else ASN_CLASS[c]))
        elif k == "Bool":
            out.append(("bool", c == "true"))
        elif k == "Char":
            out.append(("char", a["cps"][0] if c == "rnd" else CHAR_CLASS[c]))
        elif k.startswith("L:"):
            e = k[2:]
            if c == "rnd":
                v = [rnd_elem(e, rng) for _ in range(a["n"])]
            else:
                v = list(LIST_CLASS[e][c])
            out.append(("list_" + ELEM_VT[e], v))
        elif k.startswith("Item:"):
            e = k[5:]
            lst = out[0][1]
            v = lst[len(lst) // 2] if c == "present" else ABSENT[e]
            out.append((ELEM_VT[e], v))
        elif k.startswith("Num:"):
            t = k[4:]
            out.append((t, num_value(t, a)))
        else:
            raise vlib.ToolError("unknown argument kind %r" % k)
    return out


def rnd_elem(e, rng):
    if e == "unit":
        return ()
    if e == "u16":
        return rng.choice([0, 65535, rng.randrange(1 << 16)])
    if e == "u32":
        return rng.choice([0, (1 << 32) - 1, rng.getrandbits(32)])
    if e == "list_u64":
        return [rng.choice([0, U64MAX, rng.getrandbits(64)]) for _ in range(rng.choice([0, 0, 1, 2, 5, 9]))]
    if e == "opt_u64":
        return rng.choice([None, None, 0, U64MAX, rng.getrandbits(64)])
    if e == "rec":
        return (rng.randrange(256), rng.choice([0, U64MAX, rng.getrandbits(64)]),
                "".join(chr(rnd_cp(rng)) for _ in range(rng.randrange(0, 6))), rng.randrange(1 << 16))
    if e == "u8":
        return rng.randrange(256)
    if e == "u64":
        return rng.choice([0, 1, (1 << 64) - 1, rng.getrandbits(64)])
    if e == "char":
        return rnd_cp(rng)
    return "".join(chr(rnd_cp(rng)) for _ in range(rng.randrange(0, 6)))


def rnd_cp(rng):
    r = rng.random()
    if r < 0.45:
        return rng.randrange(0x20, 0x7F)
    if r < 0.6:
        return rng.choice([10, 13, 9, 0x20, 0x2003, 0])
    if r < 0.8:
        return rng.randrange(0x80, 0x800)
    if r < 0.9:
        return rng.choice([rng.randrange(0x800, 0xD800), rng.randrange(0xE000, 0x10000)])
    return rng.randrange(0x10000, 0x110000)


# --------------------------------------------------------------------------------------
# representation mapping: concrete value -> harness input / roto source text

def enc(vt, v):
    """value -> JSON understood by the providers of harness/src/bin/c10.rs"""
    if vt.startswith("list_"):
        return [enc(vt[5:], x) for x in v]
    if vt == "unit":
        return "()"
    if vt == "opt_u64":
        return None if v is None else str(v)
    if vt == "rec":
        raise vlib.ToolError("the host cannot make a record: its fields are fetched one by one (fetch)")
    if vt == "bool":
        return v
    if vt == "str" or vt == "ip":
        return v
    if vt == "pfx":
        return {"ip": v[0], "len": v[1]}
    return str(v)          # integers, float bit patterns, code points, AS numbers


def lit_int(v, t):
    if 0 <= v <= I64MAX:
        return str(v)
    if v < 0:
        return "-%d" % -v if -v <= I64MAX else "(-%d - 1)" % I64MAX
    d = v - I64MAX        # integer literals are parsed as i64: larger u64 values are written as sums
    if d <= I64MAX:
        return "(%d + %d)" % (I64MAX, d)
    return "(%d + %d + %d)" % (I64MAX, I64MAX, d - I64MAX)


def lit_float(bits, t):
    if t == "f32":
        x = struct.unpack("<f", struct.pack("<I", bits))[0]
    else:
        x = struct.unpack("<d", struct.pack("<Q", bits))[0]
    if x != x:
        return "(0.0 / 0.0)"
    if x in (float("inf"), float("-inf")):
        return "(1.0 / 0.0)" if x > 0 else "(-1.0 / 0.0)"
    s = repr(abs(x))
    if "e" not in s and "." not in s:
        s += ".0"
    neg = x < 0 or (x == 0 and struct.pack("<d", x)[7] & 0x80)
    return "-" + s if neg else s


def lit_str(s):
    o = []
    for ch in s:
        cp = ord(ch)
        if ch in '"\\':
            o.append("\\" + ch)
        elif 0x20 <= cp < 0x7F:
            o.append(ch)
        else:
            o.append("\\u{%x}" % cp)
    return '"' + "".join(o) + '"'


def lit(vt, v):
    if vt in INT_TYPES:
        return lit_int(v, vt)
    if vt in FLOAT_TYPES:
        return lit_float(v, vt)
    if vt == "bool":
        return "true" if v else "false"
    if vt == "char":
        return "'\\u{%x}'" % v
    if vt == "str":
        return lit_str(v)
    if vt == "ip":
        return v
    if vt == "pfx":
        return "%s / %d" % v
    if vt == "asn":
        return "AS%d" % v
    if vt == "unit":
        return "()"
    if vt == "opt_u64":
        return "None" if v is None else "Some(%s)" % lit_int(v, "u64")
    if vt == "rec":
        return "R { %s }" % ", ".join("%s: %s" % (f, lit(ft, x)) for (f, ft), x in zip(REC_FIELDS, v))
    if vt.startswith("list_"):
        return "[" + ", ".join(lit(vt[5:], x) for x in v) + "]"
    raise vlib.ToolError("no literal for %r" % vt)


def fetch(vt, v, ins):
    """expression that obtains the value from the host at run time (mode "arg"); appends the inputs it needs"""
    if vt == "rec":
        return "R { %s }" % ", ".join("%s: %s" % (f, fetch(ft, x, ins)) for (f, ft), x in zip(REC_FIELDS, v))
    if vt == "list_rec":
        return "[" + ", ".join(fetch("rec", x, ins) for x in v) + "]"
    ins.append({"t": vt, "v": enc(vt, v)})
    return "in_%s(%d)" % (vt, len(ins) - 1)


VT_TYPE = {"str": "String", "ip": "IpAddr", "pfx": "Prefix", "asn": "Asn", "bool": "bool", "char": "char",
           "unit": "()", "opt_u64": "u64?", "rec": "R"}
for _t in INT_TYPES + FLOAT_TYPES:
    VT_TYPE[_t] = _t
for _e, _t in ELEM_TYPE.items():
    VT_TYPE["list_" + ELEM_VT[_e]] = "List[%s]" % _t


# --------------------------------------------------------------------------------------
# the reference documentation: the list of built-ins with their signatures

def split_params(s):
    out, depth, cur = [], 0, ""
    for ch in s:
        if ch == "[":
            depth += 1
        if ch == "]":
            depth -= 1
        if ch == "," and depth == 0:
            out.append(cur.strip())
            cur = ""
        else:
            cur += ch
    if cur.strip():
        out.append(cur.strip())
    return out


def doc_table():
    """name -> {"params": [(name, type)], "ret": type|None, "kind": method|function|constant}"""
    table = {}
    rx = re.compile(r"^`+\{roto:(method|function|static_method|constant)\}\s+(.*)$")
    for root, _, files in os.walk(DOCS):
        for fn in files:
            if not fn.endswith(".md"):
                continue
            for line in open(os.path.join(root, fn), encoding="utf-8"):
                m = rx.match(line.rstrip())
                if not m:
                    continue
                kind, sig = m.group(1), m.group(2)
                if kind == "constant":
                    n, t = [x.strip() for x in sig.split(":", 1)]
                    table[n] = {"params": [], "ret": t, "kind": "constant"}
                    continue
                m2 = re.match(r"^([\w.]+)\((.*)\)(?:\s*->\s*(.+))?$", sig)
                if not m2:
                    raise vlib.ToolError("cannot parse documented signature %r" % sig)
                ps = []
                for p in split_params(m2.group(2)):
                    pn, pt = [x.strip() for x in p.split(":", 1)]
                    ps.append((pn, pt))
                if m2.group(1) in table:
                    raise vlib.ToolError("documented twice: %s" % m2.group(1))
                table[m2.group(1)] = {"params": ps, "ret": m2.group(3), "kind": kind}
    if len(table) < 50:
        raise vlib.ToolError("reference documentation not found / too small under %s (%d items)" % (DOCS, len(table)))
    return table


KIND_DOC_TYPES = {
    "Str": {"String", "StringBytes", "StringChars", "StringLines", "StringBuf"}, "Pat": {"String"},
    "Idx": {"u64"}, "Num": {"u64"}, "RepCnt": {"u64"}, "PfxLen": {"u8"}, "Ip": {"IpAddr"}, "Pfx": {"Prefix"},
    "Asn": {"Asn"}, "Bool": {"bool"}, "Char": {"char"}, "L:T": {"List[T]"}, "Item:T": {"T"},
    "L:char": {"List[char]"}, "L:str": {"List[String]"},
}
for _t in INT_TYPES + FLOAT_TYPES:
    KIND_DOC_TYPES["Num:" + _t] = {_t}

# operators that act on the non-numeric built-in types (python knows only their surface syntax)
OP_SYNTAX = {
    "op:String.+": ("{0} + {1}", "String"), "op:String.==": ("{0} == {1}", "bool"), "op:String.!=": ("{0} != {1}", "bool"),
    "op:List.+": ("{0} + {1}", "List[T]"), "op:List.==": ("{0} == {1}", "bool"), "op:List.!=": ("{0} != {1}", "bool"),
    "op:List.for": (None, None), "op:List.literal": (None, "List[T]"),      # statements: see render_builtin
    "op:IpAddr./": ("{0} / {1}", "Prefix"), "op:IpAddr.==": ("{0} == {1}", "bool"), "op:IpAddr.!=": ("{0} != {1}", "bool"),
    "op:Prefix.==": ("{0} == {1}", "bool"), "op:Prefix.!=": ("{0} != {1}", "bool"),
    "op:Asn.==": ("{0} == {1}", "bool"), "op:Asn.!=": ("{0} != {1}", "bool"),
    "op:char.==": ("{0} == {1}", "bool"), "op:char.!=": ("{0} != {1}", "bool"),
    "op:bool.==": ("{0} == {1}", "bool"), "op:bool.!=": ("{0} != {1}", "bool"),
    "op:bool.&&": ("{0} && {1}", "bool"), "op:bool.||": ("{0} || {1}", "bool"), "op:bool.not": ("!{0}", "bool"),
}


def check_table(spec_table, docs):
    """the spec's built-in table and the generated reference must describe the same items"""
    spec = {b["name"]: b["params"] for b in spec_table}
    if len(spec) != len(spec_table):
        raise vlib.ToolError("NoCrash.Builtins names an item twice")
    real = {n for n in spec if not n.startswith("op:")}
    missing = sorted(set(docs) - real)
    extra = sorted(real - set(docs))
    if missing or extra:
        raise vlib.ToolError("NoCrash.Builtins differs from %s: documented but not in the spec: %s; in the spec "
                             "but not documented: %s" % (DOCS, missing, extra))
    for n in sorted(real):
        d = docs[n]
        if len(d["params"]) != len(spec[n]):
            raise vlib.ToolError("%s: spec has %d parameters, reference has %s" % (n, len(spec[n]), d["params"]))
        for k, (pn, pt) in zip(spec[n], d["params"]):
            if pt not in KIND_DOC_TYPES.get(k, ()):
                raise vlib.ToolError("%s: parameter %s: %s is documented, spec kind is %s" % (n, pn, pt, k))
    for n in spec:
        if n.startswith("op:") and n not in OP_SYNTAX:
            raise vlib.ToolError("no syntax known for %s" % n)


# --------------------------------------------------------------------------------------
# rendering points as functions

_ctr = [0]


def fresh():
    _ctr[0] += 1
    return "v%d" % _ctr[0]


def sink(expr, ty):
    """statements that hand every part of a value of roto type `ty` to the host"""
    ty = ty.strip()
    if ty.endswith("?"):
        inner = ty[:-1]
    elif ty.startswith("Option[") and ty.endswith("]"):
        inner = ty[7:-1]
    else:
        inner = None
    if inner is not None:
        v = fresh()
        return "match %s { Some(%s) => { %s } None => { out_none(); } }" % (expr, v, sink(v, inner))
    if ty.startswith("List[") and ty.endswith("]"):
        v = fresh()
        return "out_u64(%s.len()); for %s in %s { %s }" % (expr, v, expr, sink(v, ty[5:-1]))
    simple = {"String": "out_str", "bool": "out_bool", "char": "out_char", "IpAddr": "out_ip", "Prefix": "out_pfx",
              "Asn": "out_asn"}
    for t in INT_TYPES + FLOAT_TYPES:
        simple[t] = "out_" + t
    simple["()"] = "out_unit"
    if ty in simple:
        return "%s(%s);" % (simple[ty], expr)
    if ty == "R":
        return " ".join(sink("%s.%s" % (expr, f), VT_TYPE[ft]) for f, ft in REC_FIELDS)
    if ty in ("StringBytes", "StringChars", "StringLines"):
        return "out_u64(%s.len());" % expr
    if ty == "StringBuf":
        return "out_str(%s.as_string());" % expr
    raise vlib.ToolError("no sink for type %r" % ty)


def render_builtin(point, cargs, docs, fname):
    """-> (function text, ins list).  mode "arg": arguments fetched from the host at run time;
    mode "lit": arguments are constants in the text."""
    name, elem, mode = point["name"], point["elem"], point["mode"]
    T = ELEM_TYPE.get(elem, "")

    def subst(ty):
        if not ty:
            return ty
        ty = re.sub(r"\bT\b", T, ty)
        m = re.match(r"^Option\[(.*)\]$", ty)
        return m.group(1) + "?" if m else ty

    lines, ins, names = [], [], []
    if name.startswith("op:"):
        ptypes = [VT_TYPE[vt] for vt, _ in cargs]
    else:
        ptypes = [subst(pt) for _, pt in docs[name]["params"]]
    if name == "op:List.literal":
        # [e0, .., en-1]: n element expressions, each bound to a variable first
        (vt, v), = cargs
        evt = vt[5:]
        for j, x in enumerate(v):
            lines.append("let e%d: %s = %s;" % (j, VT_TYPE[evt], fetch(evt, x, ins) if mode == "arg" else lit(evt, x)))
        lines.append("let r: %s = [%s];" % (ptypes[0], ", ".join("e%d" % j for j in range(len(v)))))
        lines.append(sink("r", ptypes[0]))
        return "fn %s() {\n    %s\n}\n" % (fname, "\n    ".join(lines)), ins
    for i, ((vt, v), pty) in enumerate(zip(cargs, ptypes)):
        if mode == "arg":
            src = fetch(vt, v, ins)
        else:
            src = lit(vt, v)
        base = VT_TYPE[vt]
        if pty != base:       # receiver built from a string
            adapt = {"StringBytes": "%s.bytes()", "StringChars": "%s.chars()", "StringLines": "%s.lines()",
                     "StringBuf": "StringBuf.from(%s)"}
            if pty not in adapt or base != "String":
                raise vlib.ToolError("%s: cannot build a %s from a %s" % (name, pty, base))
            tmp = "s%d" % i
            lines.append("let %s: String = %s;" % (tmp, src))
            src = adapt[pty] % tmp
        lines.append("let a%d: %s = %s;" % (i, pty, src))
        names.append("a%d" % i)
    if name == "op:List.for":
        x = fresh()
        lines.append("for %s in %s { %s }" % (x, names[0], sink(x, subst("T"))))
        lines.append("out_u64(%s.len());" % names[0])
        return "fn %s() {\n    %s\n}\n" % (fname, "\n    ".join(lines)), ins
    if name.startswith("op:"):
        fmt, ret = OP_SYNTAX[name]
        call, ret = fmt.format(*names), subst(ret)
    else:
        d = docs[name]
        ret = subst(d["ret"]) if d["ret"] else None
        if d["kind"] == "constant":
            call = ("IpAddr." + name) if name.startswith("LOCALHOST") else name
        elif d["params"] and d["params"][0][0] in ("self", "self_"):
            call = "%s.%s(%s)" % (names[0], name.split(".", 1)[1], ", ".join(names[1:]))
        else:
            call = "%s(%s)" % (name, ", ".join(names))
    if ret:
        lines.append("let r: %s = %s;" % (ret, call))
        lines.append(sink("r", ret))
    else:
        lines.append(call + ";")
        if names and name != "print":           # mutators: read the receiver back
            lines.append(sink(names[0], ptypes[0]))
    return "fn %s() {\n    %s\n}\n" % (fname, "\n    ".join(lines)), ins


def op_arg_script(ty):
    """the functions of one numeric type whose operands are parameters"""
    fs = []
    ops = ["add", "sub", "mul", "div"] + (["rem"] if ty in INT_TYPES else [])
    for o in ops:
        fs.append("fn b_%s(a: %s, b: %s) -> %s { a %s b }" % (o, ty, ty, ty, OPSYM[o]))
        fs.append("fn c_%s(a: %s, b: %s) -> %s { let x = a; x %s= b; x }" % (o, ty, ty, ty, OPSYM[o]))
    for o in sorted(COMPARE):
        fs.append("fn b_%s(a: %s, b: %s) -> bool { a %s b }" % (o, ty, ty, OPSYM[o]))
    if ty in FLOAT_TYPES or signed(ty):
        fs.append("fn u_neg(a: %s) -> %s { -a }" % (ty, ty))
    return "\n".join(fs) + "\n"


def render_op_lit(point, fname):
    ty, form, op = point["ty"], point["form"], point["op"]
    a = lit(ty, num_value(ty, point["a"]))
    if form == "unary":
        return "fn %s() -> %s { let a: %s = %s; -a }\n" % (fname, ty, ty, a)
    b = lit(ty, num_value(ty, point["b"]))
    if form == "compound":
        return "fn %s() -> %s { let x: %s = %s; let b: %s = %s; x %s= b; x }\n" % (fname, ty, ty, a, ty, b, OPSYM[op])
    ret = "bool" if op in COMPARE else ty
    return "fn %s() -> %s { let a: %s = %s; let b: %s = %s; a %s b }\n" % (fname, ret, ty, a, ty, b, OPSYM[op])


class Plan:
    """scripts (text per file) and one harness case per point"""

    def __init__(self, tag):
        self.dir = vlib.workdir(PID, "scripts_" + tag, clean=True)
        self.scripts = {}       # file name -> list of function texts
        self.preamble = {}      # file name -> declarations the functions of the file need
        self.cases = []         # harness cases aligned with self.points
        self.points = []
        self.texts = []         # function text per point (for replay files)

    def path(self, name):
        return os.path.join(self.dir, name + ".roto")

    def add(self, point, docs, rng):
        k = len(self.points)
        if point["kind"] == "op":
            ty, form, op, mode = point["ty"], point["form"], point["op"], point["mode"]
            args = [num_value(ty, point["a"])] + ([] if form == "unary" else [num_value(ty, point["b"])])
            if mode == "arg":
                script = "oparg_" + ty
                if script not in self.scripts:
                    self.scripts[script] = [op_arg_script(ty)]
                fn = {"bin": "b_", "compound": "c_", "unary": "u_"}[form] + op
                entry = "un" if form == "unary" else ("cmp" if op in COMPARE else "bin")
                text = [l for l in self.scripts[script][0].splitlines() if l.startswith("fn %s(" % fn)][0]
                case = {"script": self.path(script), "fn": fn, "entry": entry, "ty": ty,
                        "args": [str(a) for a in args], "ins": []}
            else:
                script = "oplit_%s_%s_%s" % (ty, form, op)
                fn = "p%d" % k
                text = render_op_lit(point, fn)
                self.scripts.setdefault(script, []).append(text)
                entry = "nulb" if (form == "bin" and op in COMPARE) else "nul"
                case = {"script": self.path(script), "fn": fn, "entry": entry, "ty": ty, "args": [], "ins": []}
        else:
            cargs = concretize(point, rng)
            fn = "p%d" % k
            text, ins = render_builtin(point, cargs, docs, fn)
            script = "bi_" + re.sub(r"[^A-Za-z0-9]+", "_", point["name"]) + "_" + re.sub(r"\W", "", point["elem"])
            self.scripts.setdefault(script, []).append(text)
            if point["elem"] == "rec":
                self.preamble[script] = REC_DECL
            case = {"script": self.path(script), "fn": fn, "entry": "unit", "ty": "", "args": [], "ins": ins}
        self.points.append(point)
        self.cases.append(case)
        self.texts.append(text)

    def write(self):
        for name, fs in self.scripts.items():
            with open(self.path(name), "w", encoding="utf-8") as f:
                f.write(self.preamble.get(name, "") + "".join(fs))

    def run(self, tag, nproc=8):
        """execute all cases (grouped by script so that a worker compiles few scripts);
        returns the results aligned with self.points"""
        self.write()
        order = sorted(range(len(self.cases)), key=lambda i: (self.cases[i]["script"], i))
        # a crash costs a worker restart (the worker re-reads its chunk, python re-reads the output): keep chunks
        # small (slabs of nproc x 800 cases) and deal the cases of every slab round-robin into its nproc chunks,
        # so that every worker gets an equal share of every script, crash-prone ones included
        res = []
        slab = nproc * 800
        for s0 in range(0, len(order), slab):
            part = order[s0:s0 + slab]
            part = [i for j in range(nproc) for i in part[j::nproc]]
            order[s0:s0 + slab] = part
            res.extend(vlib.run_batch("c10", [self.cases[i] for i in part], nproc=nproc, stall=60, pid=PID,
                                      tag="%s_%d" % (tag, s0 // slab)))
        out = [None] * len(order)
        for i, r in zip(order, res):
            out[i] = r
        return out


# --------------------------------------------------------------------------------------
# outcomes, signatures

def observed(res):
    """harness result -> outcome name of the trace ("returned" | "signal:N" | "exit:N" | "panic" | "hang")"""
    oc = vlib.outcome_of(res)
    if oc == "returned":
        r = res["r"]
        if "compile_error" in r:
            raise vlib.ToolError("a rendered script does not compile (rendering or table out of date):\n%s" % r["compile_error"])
        if "entry_error" in r:
            raise vlib.ToolError("entry point not found under its signature: %s" % r["entry_error"])
        return "returned"
    if oc == "panic":
        if "c10 harness" in str(res.get("panic")):
            raise vlib.ToolError("harness failure: %s" % res.get("panic"))
        return "panic"
    if oc == "hang":
        return "hang"
    if "c10 harness" in str(res.get("stderr")):
        # a provider / sink of the harness panicked inside the trampoline: not roto's doing
        raise vlib.ToolError("harness failure: %s" % res.get("stderr"))
    return oc[len("crash:"):]       # signal:N | exit:N | timeout


def len_class(point, cargs):
    """for Prefix construction: is the length within the maximum of the address family"""
    ip = ipaddress.ip_address(cargs[0][1])
    return "within-family-max" if cargs[1][1] <= (32 if ip.version == 4 else 128) else "beyond-family-max"


def signature(point, outcome, cargs):
    if point["kind"] == "op":
        ty = point["ty"]
        return {"kind": "op", "form": point["form"], "op": point["op"], "ty": ty,
                "tyclass": "float" if ty in FLOAT_TYPES else "int",
                "signed": "yes" if (ty in FLOAT_TYPES or signed(ty)) else "no",
                "a": num_class(ty, point["a"]),
                "b": num_class(ty, point["b"]) if point["form"] != "unary" else "none",
                "mode": point["mode"], "outcome": outcome}
    sig = {"kind": "builtin", "builtin": point["name"], "elem": point["elem"], "mode": point["mode"],
           "args": ",".join("%s=%s" % (a["k"], a["c"]) for a in point["args"]), "outcome": outcome}
    if point["name"] in ("Prefix.new", "op:IpAddr./"):
        sig["len_class"] = len_class(point, cargs)
    return sig


def describe(point, outcome, case, text, res):
    if point["kind"] == "op":
        what = "%s %s %s on %s (%s), a=%s b=%s" % (point["form"], point["op"], OPSYM.get(point["op"], "-"), point["ty"],
                                                   "constants in the script" if point["mode"] == "lit" else "host arguments",
                                                   case["args"] or point["a"], point["b"])
    else:
        what = "%s%s (%s) with %s" % (point["name"], "[%s]" % point["elem"] if point["elem"] != "-" else "",
                                      "constants in the script" if point["mode"] == "lit" else "host arguments",
                                      ", ".join("%s=%s" % (a["k"], a["c"]) for a in point["args"]))
    err = (res.get("stderr") or "").strip().replace("\n", " | ")[-300:]
    return "the call did not return: %s; outcome %s; function: %s %s" % (what, outcome, text.strip().replace("\n", " "),
                                                                        ("; stderr: " + err) if err else "")


BORING = {"1", "2", "3", "10", "0.5", "ascii", "one", "two", "three", "a", "present", "true", "false", "v4", "v4/24", "65535"}


def nontrivial(point):
    if point["kind"] == "op":
        return point["a"]["c"] not in BORING or point["b"]["c"] not in BORING | {"none"}
    return any(a["c"] not in BORING for a in point["args"])


# --------------------------------------------------------------------------------------
# the seeded generator (I->S): concrete points outside TLC's enumeration

def rnd_num_operand(ty, rng):
    n = BITS[ty] // 8
    r = rng.random()
    if ty in INT_TYPES and r < 0.2:
        v = rng.choice([0, 1, -1, 1 << (BITS[ty] - 1), (1 << (BITS[ty] - 1)) - 1, 2, 3, 255]) % (1 << BITS[ty])
    elif ty in INT_TYPES and r < 0.35:
        v = rng.randrange(0, 16)
    elif ty in FLOAT_TYPES and r < 0.3:
        v = float_bits(ty, rng.choice(["0", "-0", "1", "-1", "inf", "-inf", "nan", "max", "tiny", "2^31", "2^63"]))
    else:
        v = rng.getrandbits(BITS[ty])
    return {"c": "rnd", "bytes": to_le(v, n)}


def rnd_op_point(rng):
    ty = rng.choice(INT_TYPES + INT_TYPES + FLOAT_TYPES)
    arith = ["add", "sub", "mul", "div"] + (["rem"] if ty in INT_TYPES else [])
    form = rng.choices(["bin", "compound", "unary"], [6, 3, 1 if (ty in FLOAT_TYPES or signed(ty)) else 0])[0]
    if form == "bin":
        op = rng.choice(arith + arith + sorted(COMPARE))
    elif form == "compound":
        op = rng.choice(arith)
    else:
        op = "neg"
    return {"kind": "op", "form": form, "op": op, "ty": ty, "mode": rng.choice(["lit", "arg"]),
            "a": rnd_num_operand(ty, rng), "b": {"c": "none"} if form == "unary" else rnd_num_operand(ty, rng)}


def rnd_str(rng, maxlen=48):
    n = rng.choice([0, 1, 2, 3, rng.randrange(0, maxlen + 1)])
    return [rnd_cp(rng) for _ in range(n)]


def rnd_arg(k, rng, prev):
    if k in ("Str", "Pat"):
        if k == "Pat" and rng.random() < 0.3:
            return {"k": k, "c": rng.choice(["empty", "ascii", "multibyte", "nl", "self"])}
        return {"k": k, "c": "rnd", "cps": rnd_str(rng, 48 if k == "Str" else 4)}
    if k in ("Idx", "Num"):
        v = rng.choice([rng.randrange(0, 70), rng.randrange(0, 8), rng.getrandbits(64), rng.getrandbits(33),
                        (1 << 64) - 1 - rng.randrange(0, 3), (1 << 63) + rng.randrange(-2, 3)])
        return {"k": k, "c": "rnd", "bytes": to_le(v, 8)}
    if k == "RepCnt":
        v = rng.choice([rng.randrange(0, 5), rng.randrange(0, 300), rng.randrange(0, 65537)])
        return {"k": k, "c": "rnd", "bytes": to_le(v, 8)}
    if k == "PfxLen":
        return {"k": k, "c": str(rng.randrange(0, 33) if rng.random() < 0.6 else rng.randrange(0, 256))}
    if k == "Ip":
        return {"k": k, "c": "rnd", "bytes": [rng.randrange(256) for _ in range(rng.choice([4, 16]))]}
    if k == "Pfx":
        return {"k": k, "c": rng.choice(sorted(PFX_CLASS))}
    if k == "Asn":
        return {"k": k, "c": "rnd", "bytes": to_le(rng.getrandbits(32), 4)}
    if k == "Bool":
        return {"k": k, "c": rng.choice(["true", "false"])}
    if k == "Char":
        return {"k": k, "c": "rnd", "cps": [rnd_cp(rng)]}
    if k.startswith("L:"):
        return {"k": k, "c": "rnd", "n": rng.choice([0, 1, 2, 7, 8, 9, 16, 17, rng.randrange(0, 65)])}
    if k.startswith("Item:"):
        nonempty = prev and (prev[0].get("n", 1) > 0) and prev[0]["c"] != "empty"
        if nonempty and k[5:] == "unit":
            return {"k": k, "c": "present"}     # a single-valued type: nothing is absent from a non-empty list
        return {"k": k, "c": rng.choice(["present", "absent"]) if nonempty else "absent"}
    if k.startswith("Num:"):
        return dict(rnd_num_operand(k[4:], rng), k=k)
    raise vlib.ToolError("generator: unknown kind %s" % k)


def is_generic(b):
    return any(p in ("L:T", "Item:T") for p in b["params"]) or b["name"] == "List.new"


def rnd_builtin_point(spec_table, rng, elems, generic_only=False):
    b = rng.choice([x for x in spec_table if is_generic(x)] if generic_only else spec_table)
    generic = is_generic(b)
    elem = rng.choice(sorted(elems["size"])) if generic else "-"
    args = []
    for p in b["params"]:
        k = {"L:T": "L:" + elem, "Item:T": "Item:" + elem}.get(p, p)
        args.append(rnd_arg(k, rng, args))
    return {"kind": "builtin", "name": b["name"], "elem": elem, "mode": rng.choice(["lit", "arg"]), "args": args}


# --------------------------------------------------------------------------------------

def validate(points, outcomes, tag, ev):
    """I->S: write the events of one run and let TLC decide.  Returns the list of
    (index of the point, unmatched event) for every event that is not a step of NoCrash."""
    d = vlib.workdir(PID, "trace")
    path = os.path.join(d, "trace_%s.ndjson" % tag)
    events = []
    owner = []
    for i, (p, oc) in enumerate(zip(points, outcomes)):
        events.append({"e": "call", "point": p})
        owner.append(i)
        events.append({"e": "done", "outcome": oc})
        owner.append(i)
    vlib.write_ndjson(path, events)
    # same invocation as vlib.validate_trace, with a private metadir (several traces are validated concurrently)
    r = run_tlc("TraceNoCrash", "TraceNoCrash.cfg", workers=1, env={"TRACE": path}, timeout=1800, heap="4g",
                deque=True, coverage=False, tag="UNMATCHED", metadir=vlib.workdir(PID, "tlc_" + tag, clean=True))
    ev.add_tlc(r)
    if r.error or r.invariant_violated or r.deadlock or (not r.ok and not r.postcondition_failed):
        raise vlib.ToolError("trace validation failed to run (%s): %s\n%s" % (tag, r.error or r.invariant_violated, r.stdout[-1500:]))
    if r.diameter and r.diameter - 1 != len(events):
        raise vlib.ToolError("trace validation consumed %d of %d events (%s)" % (r.diameter - 1, len(events), tag))
    if r.ok and r.replay:
        raise vlib.ToolError("TLC accepted a trace with unmatched events")
    if not r.ok and not r.replay:
        raise vlib.ToolError("TLC rejected the trace %s without naming an event:\n%s" % (path, r.stdout[-1500:]))
    rejected = []
    for un in r.replay:
        i = owner[un["line"] - 1]
        if un["ev"]["e"] != "done":
            raise vlib.ToolError("generated point is outside the domain of NoCrash (generator or spec wrong): %s" % json.dumps(un["ev"])[:600])
        rejected.append((i, un))
    return rejected, path


def run_family(tag, points, expects, docs, rng, ev, verd, hangs):
    """execute points, compare with the specified outcome (S->I, when `expects` is given),
    validate the recorded events (I->S) and report what TLC rejects."""
    plan = Plan(tag)
    for p in points:
        plan.add(p, docs, rng)
    t0 = time.time()
    results = plan.run(tag)
    outcomes = [observed(r) for r in results]
    vlib.log("C10 %s: %d points executed in %.1fs, %d did not return" %
             (tag, len(points), time.time() - t0, sum(1 for o in outcomes if o != "returned")))
    t0 = time.time()
    # I->S
    nparts = max(1, min(6, len(points) // 4000))
    parts = vlib.chunks(list(range(len(points))), nparts)
    from concurrent.futures import ThreadPoolExecutor
    with ThreadPoolExecutor(max_workers=3) as ex:
        futs = [ex.submit(validate, [points[i] for i in part], [outcomes[i] for i in part], "%s_%d" % (tag, k), ev)
                for k, part in enumerate(parts) if part]
        rejected = []
        for part, f in zip([p for p in parts if p], futs):
            rej, path = f.result()
            rejected.extend((part[i], un, path) for i, un in rej)
    rejected_idx = {i for i, _, _ in rejected}
    vlib.log("C10 %s: %d events validated by TLC in %.1fs, %d rejected" % (tag, 2 * len(points), time.time() - t0, len(rejected)))
    # S->I
    if expects is not None:
        mism = {i for i, (e, o) in enumerate(zip(expects, outcomes)) if e != o}
        if mism != rejected_idx:
            raise vlib.ToolError("S->I comparison and trace validation disagree on %d points (%s)" %
                                 (len(mism ^ rejected_idx), sorted(mism ^ rejected_idx)[:5]))
    if {i for i, o in enumerate(outcomes) if o != "returned"} != rejected_idx:
        raise vlib.ToolError("trace validation did not reject exactly the non-returned outcomes")
    for i, un, path in sorted(rejected, key=lambda x: x[0]):
        p, oc, case, res = points[i], outcomes[i], plan.cases[i], results[i]
        if un["point"] != json.loads(json.dumps(p)):
            raise vlib.ToolError("unmatched event does not belong to point %d" % i)
        cargs = concretize(p, random.Random(0)) if p["kind"] == "builtin" else None
        if oc in ("hang", "timeout") and p["kind"] == "builtin":
            hangs.append((p, case))
            continue
        verd.report(signature(p, oc, cargs), describe(p, oc, case, plan.texts[i], res),
                    {"point": p, "case": dict(case, script=os.path.basename(case["script"])),
                     "function": plan.texts[i], "outcome": oc, "trace": path, "unmatched_line": un["line"],
                     "prelude": op_arg_script(p["ty"]) if p["kind"] == "op" and p["mode"] == "arg" else ""})
    tally = ev.extra.setdefault("not_returned_by_item_and_outcome", {})
    for p, oc in zip(points, outcomes):
        if oc != "returned":
            item = ((p["form"] + " " + p["op"], "int" if p["ty"] in INT_TYPES else "float")
                    if p["kind"] == "op" else (p["name"], p["mode"]))
            key = "%s %s: %s" % (item[0], item[1], oc)
            tally[key] = tally.get(key, 0) + 1
    for p, oc in zip(points, outcomes):
        ev.case(p, nontrivial(p), key=vlib.shash(p))
        ev.impl_actions.add("Call")
        if oc == "returned":
            ev.impl_actions.add("Return")
    ev.traces += len(points) - len(rejected)
    return outcomes, plan


def coverage_guard(points, spec_table, ev):
    """anti-vacuity: every operator x form x type x mode and every table entry x mode occurs"""
    ops = {}
    for p in points:
        if p["kind"] == "op":
            key = "%s:%s:%s" % (p["form"], p["op"], p["ty"])
            ops.setdefault(key, set()).add(p["mode"])
    need = []
    for ty in INT_TYPES + FLOAT_TYPES:
        arith = ["add", "sub", "mul", "div"] + (["rem"] if ty in INT_TYPES else [])
        need += ["bin:%s:%s" % (o, ty) for o in arith + sorted(COMPARE)]
        need += ["compound:%s:%s" % (o, ty) for o in arith]
        if ty in FLOAT_TYPES or signed(ty):
            need.append("unary:neg:%s" % ty)
    missing = [k for k in need if ops.get(k) != {"lit", "arg"}]
    # the crashing corners must be among the points, or the check could not see them
    corners = 0
    for p in points:
        if p["kind"] == "op" and p["ty"] in INT_TYPES and p["op"] in ("div", "rem") and p["form"] != "unary":
            if p["b"]["c"] == "0" or (p["a"]["c"] == "MIN" and p["b"]["c"] == "-1"):
                corners += 1
    bis = {}
    for p in points:
        if p["kind"] == "builtin":
            bis.setdefault(p["name"], set()).add(p["mode"])
    missing += [b["name"] for b in spec_table if bis.get(b["name"]) != {"lit", "arg"}]
    if missing or corners < 2 * (8 * 4 + 4 * 2):
        raise vlib.ToolError("domain enumeration is incomplete: missing %s, zero-divisor / MIN/-1 points: %d" % (missing[:10], corners))
    ev.extra["operator_x_form_x_type_covered"] = len(need)
    ev.extra["builtins_covered"] = len([b for b in spec_table if not b["name"].startswith("op:")])
    ev.extra["builtin_operators_covered"] = len([b for b in spec_table if b["name"].startswith("op:")])
    ev.extra["zero_divisor_and_min_by_minus_one_points"] = corners
    counts = {}
    for p in points:
        n = p["name"] if p["kind"] == "builtin" else "%s %s" % (p["form"], p["op"])
        counts[n] = counts.get(n, 0) + 1
    ev.extra["points_per_item"] = counts


def list_family_guard(points, gen, spec_table, elems, ev):
    """anti-vacuity of the type-argument dimension: every generic built-in x element type of the spec (every size
    class, the zero-sized one included) x mode, x every length class of every list argument, x the same index
    classes for every element type; the generated points reach every element type too."""
    size, lens = elems["size"], elems["len"]
    missing_repr = sorted(set(size) - set(ELEM_TYPE))
    if missing_repr:
        raise vlib.ToolError("the check has no representation for the element types %s of NoCrash.ElemSize" % missing_repr)
    classes = sorted(set(size.values()))
    need_classes = ["0", "1", "2", "4", "8", "String", "List", "Option", "record"]
    if classes != sorted(need_classes):
        raise vlib.ToolError("NoCrash.ElemSize has the size classes %s, expected %s" % (classes, need_classes))
    if not any(n > elems["growth"] for n in lens.values()) or not {0, 1, 2} <= set(lens.values()):
        raise vlib.ToolError("NoCrash.LenOf lacks a length class (0, 1, 2, past the first allocation): %s" % lens)
    for e in size:
        for c, n in lens.items():
            if len(LIST_CLASS[e][c]) != n:
                raise vlib.ToolError("representative of List[%s] class %s does not have the length %d of the spec" % (e, c, n))
    generic = [b for b in spec_table if is_generic(b)]
    names = {b["name"] for b in generic}
    for must in ("List.new", "List.push", "List.get", "List.len", "List.is_empty", "List.capacity", "List.swap",
                 "List.concat", "List.contains", "List.index", "op:List.+", "op:List.==", "op:List.!=", "op:List.for",
                 "op:List.literal"):
        if must not in names:
            raise vlib.ToolError("NoCrash.Builtins has no generic entry %s" % must)
    seen_mode, seen_len, seen_idx, zero_search = {}, {}, {}, {}
    per_class = {z: 0 for z in classes}
    for p in points:
        if p["kind"] != "builtin" or p["name"] not in names:
            continue
        e = p["elem"]
        per_class[size[e]] += 1
        seen_mode.setdefault((p["name"], e), set()).add(p["mode"])
        for i, a in enumerate(p["args"]):
            if a["k"].startswith("L:"):
                seen_len.setdefault((p["name"], e, i), set()).add(a["c"])
            if a["k"] == "Idx":
                seen_idx.setdefault((p["name"], e), set()).add((i, a["c"]))
        if size[e] == "0" and p["name"] in ("List.contains", "List.index"):
            key = (p["name"], "empty" if p["args"][0]["c"] == "empty" else "non-empty", p["mode"])
            zero_search[key] = zero_search.get(key, 0) + 1
    missing = []
    for b in generic:
        idx_ref = None
        for e in sorted(size):
            if seen_mode.get((b["name"], e)) != {"lit", "arg"}:
                missing.append("%s[%s] modes" % (b["name"], e))
            for i, k in enumerate(b["params"]):
                if k == "L:T" and seen_len.get((b["name"], e, i)) != set(lens):
                    missing.append("%s[%s] lengths of argument %d" % (b["name"], e, i))
            if "Idx" in b["params"]:
                got = seen_idx.get((b["name"], e), set())
                idx_ref = got if idx_ref is None else idx_ref
                if got != idx_ref or len({c for _, c in got}) < 7:
                    missing.append("%s[%s] index classes" % (b["name"], e))
    for n in ("List.contains", "List.index"):
        for r in ("empty", "non-empty"):
            for m in ("lit", "arg"):
                if not zero_search.get((n, r, m)):
                    missing.append("%s on a %s list of zero-sized elements (%s)" % (n, r, m))
    gen_per_class = {z: 0 for z in classes}
    gen_elems = set()
    for p in gen:
        if p["kind"] == "builtin" and p["name"] in names:
            gen_per_class[size[p["elem"]]] += 1
            gen_elems.add(p["elem"])
    missing += ["generated points with element type %s" % e for e in sorted(set(size) - gen_elems)]
    if missing:
        raise vlib.ToolError("the element-type dimension of the generic built-ins is not covered: %s (%d more)" %
                             (missing[:8], max(0, len(missing) - 8)))
    ev.extra["list_element_types_by_size_class"] = {z: sorted(e for e in size if size[e] == z) for z in classes}
    ev.extra["list_length_classes"] = lens
    ev.extra["generic_builtins_covered"] = len(generic)
    ev.extra["generic_builtin_x_element_type_covered"] = len(seen_mode)
    ev.extra["generic_builtin_x_element_type_x_list_argument_x_length_covered"] = sum(len(v) for v in seen_len.values())
    ev.extra["generic_builtin_x_element_type_x_index_class_covered"] = sum(len(v) for v in seen_idx.values())
    ev.extra["enumerated_generic_points_per_size_class"] = per_class
    ev.extra["generated_generic_points_per_size_class"] = gen_per_class
    ev.extra["zero_sized_contains_index_points"] = sum(zero_search.values())


def spec_domain(tier, ev):
    cfg = "MCNoCrash.cfg" if tier == "quick" else "MCNoCrash_dense.cfg"
    r = run_tlc("MCNoCrash", cfg, workers=4, timeout=1500, heap="6g", coverage=False)
    require_tlc_ok(r, "MCNoCrash")
    ev.add_tlc(r)
    tables = [t for (tag, t) in r.prints if tag == "TABLE"]
    if len(tables) != 1:
        raise vlib.ToolError("MCNoCrash did not print its built-in table")
    spec_table = json.loads(vlib._unescape_tla(tables[0]))
    etabs = [t for (tag, t) in r.prints if tag == "ELEMS"]
    if len(etabs) != 1:
        raise vlib.ToolError("MCNoCrash did not print its element-type table")
    elems = json.loads(vlib._unescape_tla(etabs[0]))
    if not r.replay or r.distinct != 2 * len(r.replay) + 1:
        raise vlib.ToolError("MCNoCrash: %d states for %d emitted points" % (r.distinct, len(r.replay)))
    return r.replay, spec_table, elems


def run(tier):
    ev = Evidence(PID, tier)
    verd = Verdicts(PID)
    vlib.build_harness(["c10"])
    ev.rule = ("cases = points of the NoCrash call domain: every point enumerated by TLC (operator x numeric type x "
               "edge operand pairs x {constants in the script, host arguments}; built-in x argument class tuples x the "
               "same two modes; generic built-ins additionally x element type of NoCrash.ElemSize x list length classes) plus "
               "seeded concrete points; distinct = distinct point records; non-trivial = at least "
               "one operand / argument is a boundary class (0, -1, MIN, MAX, HALF, inf, nan, len, len+1, 2^32, u64max, "
               "empty, multi-byte, lines, prefix length, ...) or a generated concrete value, i.e. not one of the plain "
               "representatives (1, 2, 'ascii', 'one', 'present', ...)")
    docs = doc_table()
    cases, spec_table, elems = spec_domain(tier, ev)
    check_table(spec_table, docs)
    points = [c["point"] for c in cases]
    expects = [c["expect"] for c in cases]
    coverage_guard(points, spec_table, ev)
    rng = random.Random(vlib.seed() * 31 + 10)
    hangs = []
    # seeded generator
    nop, nbi = (3000, 3000) if tier == "quick" else (100000, 80000)
    ngen = 1000 if tier == "quick" else 30000      # generic built-ins only: element type x generated lists / indices
    gen = ([rnd_op_point(rng) for _ in range(nop)] + [rnd_builtin_point(spec_table, rng, elems) for _ in range(nbi)] +
           [rnd_builtin_point(spec_table, rng, elems, generic_only=True) for _ in range(ngen)])
    list_family_guard(points, gen, spec_table, elems, ev)
    # crash-prone items are interleaved with the rest by run order (script name), nothing to steer around
    run_family("enum", points, expects, docs, rng, ev, verd, hangs)
    run_family("rnd", gen, None, docs, rng, ev, verd, hangs)
    ev.extra["generated_points"] = len(gen)
    ev.extra["enumerated_points"] = len(points)
    ev.extra["documented_items"] = len(docs)

    ev.exhaustive = True
    ev.assumptions = [
        "a class is represented by one fixed concrete value per type (e.g. 'multibyte' is one string with 2/3/4 byte "
        "characters); other members of a class are only reached by the seeded generator",
        "exhaustive over the enumerated class tuples only; concrete values beyond them are seeded samples",
        "repeat counts <= 2^16 (except for the empty string), generated strings <= 48 code points, generated lists "
        "<= 64 elements: larger sizes are memory exhaustion, a documented limit",
        "one call per fresh argument set; sequences of calls are the business of C15/C03",
        "type arguments of the generic built-ins: one element type per size class of NoCrash.ElemSize (two for 4 bytes); "
        "other instantiations (other records, deeper nesting, Option of non-scalars) are not enumerated",
        "the property is decided for the x86-64 Cranelift backend of this machine",
    ]
    rc = verd.finish()
    ev.extra["known_findings_seen"] = dict(verd.known_hits)
    ev.write(len(verd.violations))
    if rc == 0 and hangs:
        raise vlib.ToolError("a built-in did not come back within the time limit (not decided as a violation): %s" %
                             json.dumps(hangs[0])[:800])
    return rc


def replay(path):
    obj = json.load(open(path))["replay"]
    vlib.build_harness(["c10"])
    docs = doc_table()
    verd = Verdicts(PID)
    plan = Plan("replay")
    plan.add(obj["point"], docs, random.Random(0))
    if obj["point"]["kind"] == "builtin" and obj.get("function"):
        # generated lists take their content from the generator: use the recorded text and inputs
        name = os.path.basename(plan.cases[0]["script"])[:-5]
        fn = re.match(r"fn (\w+)\(", obj["function"]).group(1)
        plan.scripts[name] = [obj["function"]]
        plan.texts[0] = obj["function"]
        plan.cases[0].update(fn=fn, ins=obj["case"]["ins"])
    res = plan.run("replay", nproc=1)[0]
    oc = observed(res)
    print("replayed: outcome %s" % oc)
    if oc != "returned":
        p = obj["point"]
        cargs = concretize(p, random.Random(0)) if p["kind"] == "builtin" else None
        verd.report(signature(p, oc, cargs), describe(p, oc, plan.cases[0], plan.texts[0], res), obj)
    return verd.finish()
