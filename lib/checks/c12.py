"""C12 - compiled functions are safe and deterministic under concurrent use.

Spec: spec/Conc.tla (+ MCConc.tla: small thread programs, all interleavings; TraceConc.tla: recorded runs).

1. Design (TLC, exhaustive): thread programs of 2-3 (thorough: 4) workers x 2-3 calls on shared handles, with the
   main thread dropping its package/handles and background threads compiling, calling and dropping at the same
   time: every call returns F(args) of the single-threaded semantics, the closure never hands out a value twice
   and counter = number of calls at quiescence, live-instance accounting exact at every state, registry updates
   never lost, no deadlock.  With NonSyncAllowed = TRUE (the Register guard removed) TLC must exhibit the lost
   update; with UseRegLock = FALSE it must exhibit a lost registry entry (both show that the model is not vacuous).
2. S->I for "safe Rust cannot ...": TLC enumerates the cases of the Register / context guards (kind x route x
   (send, sync) class, with the specified accept/reject); each case is a safe-Rust program under
   harness/probes/c12/src/bin that, if it compiled, would let two threads use the state at once; `cargo build`
   must reject exactly the cases the specification rejects, with a Send/Sync bound error (E0277).
3. I->S: harness/src/bin/c12.rs runs N in {2,4,8} (thorough: 16) threads x M calls on cloned handles of a generated
   script while other threads compile further scripts (against the shared Runtime and against their own), call
   them and drop packages/handles; per-thread event lists are validated by TLC against Conc (TraceConc.tla: some
   interleaving of the per-thread lists must be a behaviour of Conc with every logged result equal to F(args), the
   closure values an atomic count 0..n-1, balanced accounting at quiescence).  Every configuration is run many
   times; every run is validated.
4. Shared StringBufs (spec/BufConc.tla, lib/checks/c12buf.py): the one lock-protected mutable host type of the default
   runtime that scripts share between threads (through constants).  Probe schedules detect the locking discipline of
   the code, TLC model-checks exactly that discipline at lock granularity (mutual exclusion, linearizability, no
   deadlock; both address orders of the two buffers) and every behaviour of the small instances plus seeded walks is
   imposed step by step on real threads calling one compiled package through cfg-guarded schedule points.
"""
import copy
import json
import os
import re
import shutil
import subprocess
import time

import vlib
from vlib import Evidence, Verdicts, run_tlc, require_tlc_ok
from checks import c12buf

PID = "C12"

# name of the MCConc sub-action -> Conc action (coverage / anti-vacuity)
MC_ACTIONS = ["ABegin", "AReadConst", "AClAtomic", "AMk", "AEnd", "ABuildRt", "ADropRt", "ACompAcq", "ACompRead",
              "ACompUpd", "ACompRel", "AGet", "ASpawn", "ADropPkg", "ADropHandles", "AJoin", "AQuiesce"]
NONSYNC_ACTIONS = ["AClRead", "AClWrite"]
# event name -> Conc actions it is matched by (internal steps that necessarily follow included)
EVENT_ACTIONS = {"call_begin": ["Begin", "ReadConst"], "cl": ["ClAtomic"], "call_end": ["End"],
                 "build_rt": ["BuildRt"], "drop_rt": ["DropRt"], "compile_begin": ["CompAcq", "CompRead", "CompUpd"],
                 "compile_end": ["CompRel"], "get": ["Get"], "spawn": ["Spawn"], "drop_pkg": ["DropPkg"],
                 "drop_handles": ["DropHandles"], "join": ["Join"], "quiesce": ["Quiesce"]}
SHAPES = ["arith", "slen", "lsum", "bump", "bump2", "ktag", "wide", "keep"]
RUN_SAMPLES = []
CLASS = {(True, True): "ss", (True, False): "sn", (False, True): "ns", (False, False): "nn"}


# ------------------------------------------------------------------------------ 1. design

def mc_cfg(path, plan, threads, nonsync=False, lock=True, invs="Inv NoLostUpdate RegistryComplete", spec="MCSpec"):
    with open(path, "w") as f:
        f.write("SPECIFICATION %s\nCONSTANTS\n  Threads = {%s}\n  NonSyncAllowed = %s\n  UseRegLock = %s\n  Plan = \"%s\"\n"
                "INVARIANTS %s\n" % (spec, ", ".join(str(t) for t in range(1, threads + 1)),
                                     "TRUE" if nonsync else "FALSE", "TRUE" if lock else "FALSE", plan, invs))
        if spec != "MCSpec":
            f.write("CHECK_DEADLOCK FALSE\n")


def coverage_of(r):
    """TLC prints `<AName line .. of module MCConc (..)>: distinct:total` for every sub-action of MCNext."""
    cov = {}
    for m in re.finditer(r"^<(\w+) line \d+, col \d+ to line \d+, col \d+ of module MCConc[^>]*>: (\d+):(\d+)", r.stdout, re.M):
        cov[m.group(1)] = cov.get(m.group(1), 0) + int(m.group(3))
    return cov


def check_design(tier, ev):
    from concurrent.futures import ThreadPoolExecutor
    d = vlib.workdir(PID, "cfg")
    plans = [("w2bg", 4), ("w2x3", 4), ("comp2", 4), ("w3x3", 4)]
    if tier == "thorough":
        plans += [("w3", 4), ("w4x2", 5), ("w3x3bg", 5)]
    jobs = []      # (key, cfg, coverage)
    for plan, nt in plans:
        cfg = os.path.join(d, "mc_%s.cfg" % plan)
        mc_cfg(cfg, plan, nt)
        jobs.append(("plan:" + plan, cfg, True))
    # the model of the defect: guard removed -> lost update (must be found, otherwise the spec is vacuous)
    cfg = os.path.join(d, "mc_nonsync.cfg")
    mc_cfg(cfg, "w2bg", 4, nonsync=True)
    jobs.append(("nonsync", cfg, False))
    # ... and everything else still holds without the guard (the two-step actions are taken)
    cfg = os.path.join(d, "mc_nonsync_rest.cfg")
    mc_cfg(cfg, "w2bg", 4, nonsync=True, invs="TypeOK ResultOK CallValid LiveExact MutexOK RegistryComplete")
    jobs.append(("nonsync_rest", cfg, True))
    # registry lock removed -> lost registry entry
    cfg = os.path.join(d, "mc_nolock.cfg")
    mc_cfg(cfg, "comp2", 4, lock=False)
    jobs.append(("nolock", cfg, False))
    with ThreadPoolExecutor(max_workers=3) as ex:
        futs = {k: ex.submit(run_tlc, "MCConc", c, workers=2, timeout=2400, heap="4g", coverage=cov) for k, c, cov in jobs}
        res = {k: f.result() for k, f in futs.items()}
    parts = []
    cov = {}
    for plan, nt in plans:
        r = res["plan:" + plan]
        require_tlc_ok(r, "MCConc plan %s (guard in place)" % plan)
        ev.add_tlc(r)
        for a, n in coverage_of(r).items():
            cov[a] = cov.get(a, 0) + n
        parts.append("plan %s (%d threads): all interleavings, %d states, depth %d" % (plan, nt, r.distinct, r.diameter))
    missing = [a for a in MC_ACTIONS if not cov.get(a)]
    if missing:
        raise vlib.ToolError("Conc actions never taken in the model runs: %s" % missing)
    if any(cov.get(a) for a in NONSYNC_ACTIONS):
        raise vlib.ToolError("with the Register guard in place a non-sync closure was registered in the model")
    r = res["nonsync"]
    ev.add_tlc(r)
    if r.invariant_violated != "NoLostUpdate":
        raise vlib.ToolError("NonSyncAllowed = TRUE: expected TLC to exhibit the lost update (NoLostUpdate), got inv=%s err=%s"
                             % (r.invariant_violated, r.error))
    nonsync_depth = len(re.findall(r"^State \d+:", r.stdout, re.M))
    r = res["nonsync_rest"]
    require_tlc_ok(r, "MCConc NonSyncAllowed=TRUE, other invariants")
    ev.add_tlc(r)
    c2 = coverage_of(r)
    missing = [a for a in NONSYNC_ACTIONS if not c2.get(a)]
    if missing:
        raise vlib.ToolError("NonSyncAllowed = TRUE: actions never taken: %s" % missing)
    cov.update({a: c2[a] for a in NONSYNC_ACTIONS})
    r = res["nolock"]
    ev.add_tlc(r)
    if r.invariant_violated != "RegistryComplete":
        raise vlib.ToolError("UseRegLock = FALSE: expected a lost registry update (RegistryComplete), got inv=%s err=%s"
                             % (r.invariant_violated, r.error))
    ev.extra["model_action_counts"] = cov
    ev.extra["model_counterexamples_when_guards_removed"] = {
        "NonSyncAllowed=TRUE": "NoLostUpdate violated after %d steps (two threads read the same counter value)" % max(0, nonsync_depth - 1),
        "UseRegLock=FALSE": "RegistryComplete violated (two compilations overwrite each other's table update)"}
    return parts


# ------------------------------------------------------------------------------ 2. probes

def probe_name(c):
    """representation mapping: a case of the guard -> the probe program"""
    return "%s_%s_%s%s" % (c["kind"], c["route"], CLASS[(c["send"], c["sync"])], "_mut" if c.get("excl") else "")


def probe_cases(ev):
    d = vlib.workdir(PID, "cfg")
    cfg = os.path.join(d, "probes.cfg")
    mc_cfg(cfg, "w2bg", 4, invs="EmitProbes", spec="ProbeSpec")
    r = run_tlc("MCConc", cfg, workers=1, timeout=300, coverage=False)
    require_tlc_ok(r, "MCConc ProbeSpec")
    ev.add_tlc(r)
    seen = {}
    for c in r.replay:
        seen[probe_name(c)] = c
    if len(seen) < 8:
        raise vlib.ToolError("ProbeSpec emitted only %d cases" % len(seen))
    return seen


def probe_src_dir():
    return os.path.join(vlib.VERIF, "harness", "probes", "c12")


def build_probes(names, timeout=3000):
    """Copies the probe package to work/C12/probes (path dependency -> the tree under test) and builds every
    binary in one cargo invocation.  Returns name -> {"built": bool, "errors": [(code, message)], "rendered": str}."""
    src = probe_src_dir()
    dst = vlib.workdir(PID, "probes")

    def put(rel, text):
        # unchanged files keep their time stamp, so that cargo does not rebuild what it has
        p = os.path.join(dst, rel)
        os.makedirs(os.path.dirname(p), exist_ok=True)
        if not os.path.exists(p) or open(p).read() != text:
            with open(p, "w") as f:
                f.write(text)

    toml = open(os.path.join(src, "Cargo.toml")).read()
    if 'path = "/repo"' not in toml:
        raise vlib.ToolError("probe Cargo.toml lacks the path dependency on /repo")
    put("Cargo.toml", toml.replace('path = "/repo"', 'path = "%s"' % vlib.REPO))
    if not os.path.exists(os.path.join(dst, "Cargo.lock")):
        put("Cargo.lock", open(os.path.join(src, "Cargo.lock")).read())
    put(os.path.join(".cargo", "config.toml"), open(os.path.join(src, ".cargo", "config.toml")).read())
    bins = os.path.join(src, "src", "bin")
    for f in sorted(os.listdir(bins)):
        put(os.path.join("src", "bin", f), open(os.path.join(bins, f)).read())
    for f in os.listdir(os.path.join(dst, "src", "bin")):
        if not os.path.exists(os.path.join(bins, f)):
            os.remove(os.path.join(dst, "src", "bin", f))
    have = {f[:-3] for f in os.listdir(os.path.join(dst, "src", "bin")) if f.endswith(".rs")}
    missing = [n for n in names if n not in have]
    if missing:
        raise vlib.ToolError("no probe program for the cases %s (harness/probes/c12/gen.py)" % missing)
    target = vlib.workdir(PID, "probe_target")
    e = dict(os.environ)
    e["CARGO_TARGET_DIR"] = target
    e["CARGO_NET_OFFLINE"] = "true"
    e.pop("RUSTFLAGS", None)
    cmd = ["cargo", "build", "--offline", "--keep-going", "--message-format=json"]
    for n in names:
        cmd += ["--bin", n]
    try:
        p = subprocess.run(cmd, cwd=dst, env=e, stdout=subprocess.PIPE, stderr=subprocess.PIPE, text=True, timeout=timeout)
    except subprocess.TimeoutExpired as ex:
        raise vlib.ToolError("probe build timed out") from ex
    out = {n: {"built": False, "errors": [], "rendered": ""} for n in names}
    dep_error = None
    for line in p.stdout.splitlines():
        try:
            m = json.loads(line)
        except ValueError:
            continue
        tgt = m.get("target") or {}
        isprobe = tgt.get("kind") == ["bin"] and tgt.get("name") in out
        if m.get("reason") == "compiler-message":
            msg = m["message"]
            if msg.get("level") == "error":
                if isprobe:
                    o = out[tgt["name"]]
                    o["errors"].append(((msg.get("code") or {}).get("code"), msg.get("message", "")))
                    o["rendered"] += msg.get("rendered") or ""
                else:
                    dep_error = msg.get("rendered") or msg.get("message")
        elif m.get("reason") == "compiler-artifact" and isprobe:
            out[tgt["name"]]["built"] = True
            out[tgt["name"]]["exe"] = m.get("executable")
    if dep_error:
        raise vlib.ToolError("probe build: a dependency failed to compile:\n%s" % dep_error[-2000:])
    undecided = [n for n, o in out.items() if not o["built"] and not o["errors"]]
    if undecided:
        raise vlib.ToolError("probe build gave no verdict for %s:\n%s" % (undecided, p.stderr[-2000:]))
    return out, " ".join(cmd[:5]) + " --bin <each case>"


SEND_TXT = "cannot be sent between threads safely"
SYNC_TXT = "cannot be shared between threads safely"


def judge_probe(name, case, o, verd):
    """accepted by the spec <=> rustc builds it; rejected <=> E0277 naming the missing Send / Sync."""
    sig = {"kind": case["kind"], "route": case["route"], "class": CLASS[(case["send"], case["sync"])] + ("+FnMut" if case.get("excl") else "")}
    src = os.path.join(probe_src_dir(), "src", "bin", name + ".rs")
    if case["accepted"]:
        if not o["built"]:
            verd.report(dict(sig, kind_of_failure="thread-safe-state-rejected"),
                        "the specification accepts %s (state is Send=%s Sync=%s) but rustc rejects the probe %s: %s" %
                        (name, case["send"], case["sync"], src, o["errors"][:2]), {"probe": name, "case": case, "rustc": o["rendered"][-3000:]})
            return False
        return True
    if o["built"]:
        verd.report(dict(sig, kind_of_failure="unsynchronised-sharing-compiles"),
                    "safe Rust can make two threads use non-thread-safe state through the API: the probe %s (%s via %s, "
                    "state Send=%s Sync=%s) compiles although the specification's guard rejects it" %
                    (src, case["kind"], case["route"], case["send"], case["sync"]), {"probe": name, "case": case})
        return False
    codes = {c for c, _ in o["errors"]}
    txt = " ".join(m for _, m in o["errors"])
    want = []
    if not case["sync"] and case["route"] != "moved_to_thread":
        want.append(SYNC_TXT)
    if not case["send"] and case["route"] != "shared_by_ref":
        want.append(SEND_TXT)
    if case.get("excl"):
        # a closure that mutates what it captured: E0525 (only implements FnMut), possibly next to the Send / Sync errors
        if not codes or not codes <= {"E0277", "E0525"} or (case["send"] and case["sync"] and codes != {"E0525"}):
            raise vlib.ToolError("probe %s fails to build for another reason than the Fn / Send / Sync bounds: %s" % (name, o["errors"][:3]))
        return True
    if codes != {"E0277"} or not any(w in txt for w in want):
        # rejected, but not for the reason the guard is about: the probe program itself is broken
        raise vlib.ToolError("probe %s fails to build for another reason than a Send/Sync bound: %s" % (name, o["errors"][:3]))
    return True


def run_positive_controls(built, ev):
    """The accepted probes are real programs: they must run to completion (two threads x 100000 calls)."""
    ran = 0
    for name, o in sorted(built.items()):
        exe = o.get("exe")
        if not exe or name.startswith("value_signature"):
            continue
        try:
            p = subprocess.run([exe], stdout=subprocess.PIPE, stderr=subprocess.PIPE, text=True, timeout=300)
        except subprocess.TimeoutExpired as ex:
            raise vlib.ToolError("positive control %s did not finish" % name) from ex
        if p.returncode != 0:
            raise vlib.ToolError("positive control %s exited with %s: %s" % (name, p.returncode, p.stderr[-500:]))
        ran += 1
    ev.extra["positive_controls_run"] = ran


def check_probes(ev, verd):
    cases = probe_cases(ev)
    names = sorted(cases)
    results, cmd = build_probes(names)
    rej = acc = 0
    for n in names:
        ok = judge_probe(n, cases[n], results[n], verd)
        c = cases[n]
        ev.case({"probe": n, "spec_accepts": c["accepted"], "rustc_builds": results[n]["built"],
                 "rustc_error": (results[n]["errors"][0][1][:120] if results[n]["errors"] else None)},
                nontrivial=not c["accepted"], key="probe:" + n)
        ev.traces += 1
        if ok:
            if c["accepted"]:
                acc += 1
            else:
                rej += 1
    if not verd.violations:
        run_positive_controls({n: results[n] for n in names if cases[n]["accepted"]}, ev)
    kinds = sorted({c["kind"] + "/" + c["route"] for c in cases.values()})
    ev.extra["probes"] = {"cases_from_spec": len(names), "rejected_by_rustc_as_specified": rej,
                          "accepted_by_rustc_as_specified": acc, "kinds_and_routes": kinds, "build_cmd": cmd}
    for a in ("BuildRt",):
        ev.impl_actions.add(a)


# ------------------------------------------------------------------------------ 3. recorded runs

def configurations(tier):
    """(label, case template, runs).  Same seed for every run of a configuration: identical programs and call
    arguments, only the scheduling differs."""
    s = vlib.seed()
    if tier == "quick":
        return [("n2", {"n": 2, "m1": 12, "m2": 12, "own": [False], "c1": 1, "c2": 1, "pace_us": 150, "seed": s + 1}, 20),
                ("n4", {"n": 4, "m1": 10, "m2": 12, "own": [False, True], "c1": 1, "c2": 1, "pace_us": 150, "seed": s + 2}, 20),
                ("n8", {"n": 8, "m1": 6, "m2": 12, "own": [True, False], "c1": 1, "c2": 1, "pace_us": 200, "seed": s + 3}, 20)]
    return [("n2", {"n": 2, "m1": 20, "m2": 20, "own": [False], "c1": 2, "c2": 1, "pace_us": 150, "seed": s + 1}, 50),
            ("n4", {"n": 4, "m1": 12, "m2": 16, "own": [False, True], "c1": 2, "c2": 1, "pace_us": 150, "seed": s + 2}, 50),
            ("n8", {"n": 8, "m1": 8, "m2": 14, "own": [True, False], "c1": 1, "c2": 2, "pace_us": 200, "seed": s + 3}, 50),
            ("n16", {"n": 16, "m1": 5, "m2": 10, "own": [False, True], "c1": 1, "c2": 1, "pace_us": 250, "seed": s + 4}, 50)]


def trace_cfg(label, nthreads):
    """spec/TraceConc.cfg with Threads cut down to the threads the runs of this file have (smaller states)"""
    d = vlib.workdir(PID, "cfg")
    p = os.path.join(d, "TraceConc_%s.cfg" % label)
    txt = open(os.path.join(vlib.SPEC, "TraceConc.cfg")).read()
    txt, n = re.subn(r"Threads = \{[^}]*\}", "Threads = {%s}" % ", ".join(str(t) for t in range(1, nthreads + 1)), txt)
    if n != 1:
        raise vlib.ToolError("spec/TraceConc.cfg: no Threads line")
    with open(p, "w") as f:
        f.write(txt)
    return p


def describe_unmatched(un, runs_by_id):
    """Maps the specification's report to a sentence (no expectations are computed here)."""
    run = runs_by_id.get(un.get("id"))
    parts = []
    kinds = set()
    pending_cl = []
    for u in un.get("unfinished", []):
        evn, ex = u["ev"], u["expect"]
        if evn.get("op") == "call_end" and ex["kind"] == "call_end" and evn.get("res") != ex["res"]:
            call = None
            if run is not None:
                th = run["thr"][u["t"] - 1]
                k = u["i"] - 1          # 0-based position of the call_end event
                while k >= 0 and th[k]["op"] != "call_begin":
                    k -= 1
                call = th[k] if k >= 0 else None
            parts.append("thread %d: %s returned %s, the specification's F gives %s" %
                         (u["t"], "%s(%s, %s) of module %s" % (call["fn"], call["x"], call["y"], call["m"]) if call else "a call",
                          evn.get("res"), ex["res"]))
            kinds.add("wrong-result")
        elif evn.get("op") == "cl" and ex["kind"] == "cl":
            pending_cl.append((u["t"], evn.get("prev"), ex["prev"]))
        elif evn.get("op") == "quiesce":
            parts.append("totals at quiescence do not balance / do not match the specification: measured %s; specified "
                         "counters %s live %s created %s" % (evn, un.get("counters"), un.get("live"), un.get("created")))
            kinds.add("quiescent-totals")
    if not kinds and pending_cl:
        parts.append("the registered closure did not behave like an atomic counter: the captured counter stands at %s but "
                     "no thread received that value next (pending: %s)" %
                     (pending_cl[0][2], ["thread %d got %s" % (t, p) for t, p, _ in pending_cl]))
        kinds.add("closure-values")
    if not kinds:
        parts.append("no thread's next event is a step of Conc: %s" % [(u["t"], u["ev"]) for u in un.get("unfinished", [])][:4])
        kinds.add("unmatched-event")
    return sorted(kinds)[0], "; ".join(parts)


def validate_runs(label, runs, ev, verd, case_of, expect_reject=False):
    """TLC trace validation of a list of runs; on a rejection the offending run is reported and the rest validated again."""
    d = vlib.workdir(PID, "trace")
    runs_by_id = {r["id"]: r for r in runs}
    remaining = list(runs)
    accepted = 0
    rejected = []
    for attempt in range(4):
        if not remaining:
            break
        path = os.path.join(d, "%s_%d.ndjson" % (label, attempt))
        vlib.write_ndjson(path, remaining)
        nthreads = max(len(x["thr"]) for x in remaining)
        r = vlib.validate_trace("TraceConc", trace_cfg(label, nthreads), path, timeout=3000, heap="6g")
        ev.add_tlc(r)
        if r.ok:
            accepted += len(remaining)
            break
        if r.invariant_violated:
            raise vlib.ToolError("TraceConc: design invariant %s violated while replaying a recorded run\n%s" %
                                 (r.invariant_violated, r.stdout[-2500:]))
        if not (r.postcondition_failed and r.replay):
            raise vlib.ToolError("trace validation of %s failed to run: %s\n%s" % (label, r.error, r.stdout[-2500:]))
        un = r.replay[0]
        bad = un.get("id")
        idx = [k for k, x in enumerate(remaining) if x["id"] == bad]
        if not idx:
            raise vlib.ToolError("TraceConc reported an unknown run id %r" % bad)
        accepted += idx[0]
        kind, text = describe_unmatched(un, runs_by_id)
        rejected.append((bad, kind, text, un))
        if not expect_reject:
            verd.report({"kind_of_failure": "trace-rejected", "what": kind},
                        "configuration %s, run %s is not a behaviour of Conc under any interleaving: %s" % (label, bad, text),
                        {"case": case_of(bad), "run": runs_by_id[bad], "unmatched": un})
        remaining = remaining[idx[0] + 1:]
    return accepted, rejected


def record_and_validate(tier, ev, verd):
    confs = configurations(tier)
    overlap = {}
    opcount = {}
    shapes = {}
    orders = set()
    total_runs = 0
    sample_run = None
    for label, tmpl, nruns in confs:
        cases = [dict(tmpl, run=k) for k in range(nruns)]
        results = vlib.run_batch("c12", cases, nproc=2, pid=PID, tag="rec_" + label, stall=300, timeout=7200)
        runs = []
        case_by_id = {}
        for k, (case, res) in enumerate(zip(cases, results)):
            oc = vlib.outcome_of(res)
            if oc != "returned":
                verd.report({"kind_of_failure": oc.split(":")[0], "stage": "concurrent-run"},
                            "configuration %s (N=%d threads, %d+%d calls each, %d background threads), run %d did not "
                            "complete: %s %s" % (label, tmpl["n"], tmpl["m1"], tmpl["m2"], len(tmpl["own"]), k, oc,
                                                 {x: y for x, y in res.items() if x not in ("i",)}),
                            {"case": case, "result": res})
                continue
            rr = res["r"]
            rid = "%s#%d" % (label, k)
            runs.append({"id": rid, "thr": rr["thr"]})
            case_by_id[rid] = case
            for a, b in rr["overlap"].items():
                overlap[a] = overlap.get(a, 0) + b
            # bookkeeping for the evidence (no expectations)
            cl_order = []
            busy = 0
            for t, th in enumerate(rr["thr"]):
                for e in th:
                    opcount[e["op"]] = opcount.get(e["op"], 0) + 1
                    if e["op"] == "call_begin":
                        shapes[e["fn"]] = shapes.get(e["fn"], 0) + 1
                    if e["op"] == "cl" and e["g"] == 1:
                        cl_order.append((e["prev"], t + 1))
            order = [t for _, t in sorted(cl_order)]
            o = rr["overlap"]
            nontrivial = (o["calls_overlapping_a_compilation"] + o["calls_overlapping_a_release"] > 0
                          and len(set(order)) >= 2)
            key = vlib.shash([label, order])
            orders.add(key)
            sample = {"configuration": label, "threads": tmpl["n"], "calls_per_thread": tmpl["m1"] + tmpl["m2"],
                      "overlap": o, "threads_in_order_of_closure_values": order[:24],
                      "first_events_of_thread_2": rr["thr"][1][:5]}
            ev.case(sample, nontrivial, key=key)
            if nontrivial and len(RUN_SAMPLES) < 3 and (not RUN_SAMPLES or RUN_SAMPLES[-1]["configuration"] != label):
                RUN_SAMPLES.append(sample)
            if sample_run is None:
                sample_run = (label, runs[-1], case)
        total_runs += len(runs)
        acc, rej = validate_runs(label, runs, ev, verd, lambda rid: case_by_id.get(rid))
        ev.traces += acc
        vlib.log("C12 %s: %d runs recorded, %d accepted by TraceConc, %d rejected, t=%.1fs" %
                 (label, len(runs), acc, len(rej), time.time() - ev.t0))
    for op, n in opcount.items():
        for a in EVENT_ACTIONS.get(op, []):
            ev.impl_actions.add(a)
    if shapes.get("keep"):
        ev.impl_actions.add("Mk")
    if not verd.violations:
        missing = [op for op in EVENT_ACTIONS if not opcount.get(op)]
        if missing:
            raise vlib.ToolError("events never recorded: %s" % missing)
        missing = [s for s in SHAPES if not shapes.get(s)]
        if missing:
            raise vlib.ToolError("function shapes never called: %s" % missing)
        for k in ("calls_overlapping_a_compilation", "releases_overlapping_a_call", "calls_overlapping_a_call",
                  "compilations_overlapping_a_compilation"):
            if not overlap.get(k):
                raise vlib.ToolError("the recorded runs never had %s: the concurrency the property is about did not happen" % k)
    ev.extra["runs"] = {"configurations": [{"label": l, "threads": t["n"], "calls_per_thread": t["m1"] + t["m2"],
                                            "background_threads": len(t["own"]), "runs": n} for l, t, n in confs],
                        "recorded": total_runs, "distinct_closure_orders_observed": len(orders)}
    ev.extra["wall_clock_overlap_totals"] = overlap
    ev.extra["event_counts"] = opcount
    ev.extra["shape_counts"] = shapes
    return sample_run


def binding_selftest(sample, ev):
    """Anti-vacuity of the binding: a recorded run with one result changed, and one with a closure value duplicated,
    must be rejected by TraceConc (otherwise the validation proves nothing)."""
    label, run, _case = sample
    outcomes = {}
    for name in ("result-changed", "closure-value-duplicated", "live-total-changed"):
        c = copy.deepcopy(run)
        c["id"] = "corrupted:" + name
        done = False
        if name == "result-changed":
            for th in c["thr"][1:]:
                for e in th:
                    if e["op"] == "call_end":
                        e["res"] += 1
                        done = True
                        break
                if done:
                    break
        elif name == "closure-value-duplicated":
            cls = sorted((e["prev"], id(e), e) for th in c["thr"] for e in th if e["op"] == "cl" and e["g"] == 1)
            if len(cls) >= 2:
                cls[1][2]["prev"] = cls[0][2]["prev"]
                done = True
        else:
            c["thr"][0][-1]["live"] += 1
            done = True
        if not done:
            raise vlib.ToolError("self-test: the sample run has nothing to corrupt for %s" % name)
        acc, rej = validate_runs("selftest", [c], ev, None, lambda rid: None, expect_reject=True)
        if acc != 0 or not rej:
            raise vlib.ToolError("binding self-test: TraceConc accepted a run whose %s" % name)
        outcomes[name] = rej[0][1]
    ev.extra["binding_selftest_rejections"] = outcomes


# ------------------------------------------------------------------------------- run

def run(tier):
    ev = Evidence(PID, tier)
    verd = Verdicts(PID)
    vlib.build_harness(["c12"])
    vlib.log("C12 harness built, t=%.1fs" % (time.time() - ev.t0))
    ev.rule = ("cases = (a) recorded concurrent runs, each validated by TLC against Conc, and (b) the rustc probe programs of the "
               "Register/context guards enumerated by TLC; a run is non-trivial if calls overlapped (wall clock) a compilation or a "
               "release on another thread and at least two threads called the registered closure; distinct runs = distinct orders "
               "in which the threads received the closure's values (the interleaving the scheduler chose); a probe is non-trivial "
               "if the specification rejects it")
    parts = check_design(tier, ev)
    vlib.log("C12 design model checked, t=%.1fs" % (time.time() - ev.t0))
    check_probes(ev, verd)
    vlib.log("C12 probes built, t=%.1fs" % (time.time() - ev.t0))
    sample = record_and_validate(tier, ev, verd)
    if sample is not None and not verd.violations:
        binding_selftest(sample, ev)
    # 4. the lock-protected host type scripts share between threads through constants (StringBuf): BufConc
    c12buf.run_buf(tier, ev, verd)
    vlib.log("C12 shared StringBufs (BufConc) done, t=%.1fs" % (time.time() - ev.t0))
    probes_s = [x for x in ev.samples if "probe" in x]
    ev.samples = probes_s[:2] + RUN_SAMPLES[:3]
    ev.extra["exhaustive_parts"] = parts + ["every case of the Register/context guards (kind x route x (send, sync)) as a rustc probe"]
    ev.exhaustive = False
    ev.assumptions = [
        "the design model is exhaustive for the listed thread programs only; real runs sample schedules (the OS scheduler "
        "chooses), they do not enumerate them",
        "eight function shapes stand for generated scripts (integer arithmetic on arguments and constants, strings and lists "
        "built and dropped inside the call, one or two calls of a registered closure, tracked host values passed, returned and "
        "read from constants)",
        "a data race in generated machine code that never changes a result, a counter or crashes the worker is not observable; "
        "wall-clock overlap counts are evidence that compilations/releases ran during calls, not part of what is asserted",
        "the registry/interner locks are modelled as one lock held once per compilation; get_function and registration as one "
        "critical section",
        "probe verdicts are rustc's (the pinned toolchain) for the classes Cell / Rc<Cell> / MutexGuard / plain atomic data",
    ]
    rc = verd.finish()
    ev.write(len(verd.violations))
    return rc


def replay(path):
    obj = json.load(open(path))["replay"]
    verd = Verdicts(PID)
    ev = Evidence(PID, "replay")
    if obj.get("part") == "bufconc":
        c12buf.replay_buf(obj, verd)
        return verd.finish()
    if "probe" in obj:
        cases = probe_cases(ev)
        n = obj["probe"]
        results, _ = build_probes([n])
        if judge_probe(n, cases[n], results[n], verd):
            print("replay: rustc's verdict on %s now agrees with the specification" % n)
    elif "case" in obj and obj["case"]:
        vlib.build_harness(["c12"])
        cases = [dict(obj["case"], run=k) for k in range(10)]
        results = vlib.run_batch("c12", cases, nproc=1, pid=PID, tag="replay", stall=300)
        runs = []
        for k, (c, res) in enumerate(zip(cases, results)):
            oc = vlib.outcome_of(res)
            if oc != "returned":
                verd.report({"kind_of_failure": oc.split(":")[0], "stage": "concurrent-run"},
                            "run %d of the configuration did not complete: %s" % (k, res), {"case": c, "result": res})
            else:
                runs.append({"id": "replay#%d" % k, "thr": res["r"]["thr"]})
        acc, rej = validate_runs("replay", runs, ev, verd, lambda rid: obj["case"])
        print("replay: %d of 10 runs of the configuration accepted by TraceConc" % acc)
    elif "run" in obj:
        validate_runs("replay", [obj["run"]], ev, verd, lambda rid: None)
    return verd.finish()
