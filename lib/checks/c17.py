"""C17 - built-in methods follow their documented meaning on every argument.

Spec: spec/Builtins.tla (+ MCBuiltins.tla, TraceBuiltins.tla).
S->I: for every family of built-ins TLC enumerates the arguments (all strings up to
      a length bound over an alphabet of 1/2/3/4-byte characters, newlines, white
      space; all index arguments 0..len+1 and u64::MAX; needles up to length 2;
      StringBuf operation sequences; integer byte patterns; dyadic floats and the
      special values; addresses x every prefix length) and prints, per call, the value
      Builtins.Apply specifies.  The harness (harness/src/bin/c17.rs) holds ONE
      compiled script with one function per built-in, concretises the arguments
      (code points -> chars, byte arrays -> integers, [num, exp] -> floats), calls the
      function and reports the abstract result; python compares structurally.
I->S: the harness's own seeded generator produces longer / more varied arguments
      (wider alphabet, CRLF texts, random 64-bit integers, random addresses), logs
      {m, a, res}; TLC validates every event against Builtins.Apply (TraceBuiltins.tla).
The table of built-ins is read from the real Runtime (Runtime::print_documentation);
a built-in without a covering script function is a tool error (anti-vacuity).
"""
import json
import os

import vlib
from vlib import Evidence, Verdicts, run_tlc, require_tlc_ok

PID = "C17"
HUGE = 1000000

# script function -> the built-in(s) of the runtime table it exercises
COVER = {
    "s_append": ["String.append"], "s_plus": ["String.append"],
    "s_contains": ["String.contains"], "s_starts_with": ["String.starts_with"],
    "s_ends_with": ["String.ends_with"], "s_to_lowercase": ["String.to_lowercase"],
    "s_to_uppercase": ["String.to_uppercase"], "s_repeat": ["String.repeat"],
    "s_eq": ["String.eq"], "s_eqop": ["String.eq"], "s_neop": ["String.eq"],
    "s_replace": ["String.replace"], "s_split": ["String.split"], "s_trim": ["String.trim"],
    "s_trim_start": ["String.trim_start"], "s_trim_end": ["String.trim_end"],
    "s_strip_prefix": ["String.strip_prefix"], "s_strip_suffix": ["String.strip_suffix"],
    "s_splitn": ["String.splitn"], "s_rsplitn": ["String.rsplitn"],
    "s_to_string": ["String.to_string"], "s_fmt": ["String.to_string"],
    "s_from_chars": ["String.from_chars"], "l_join": ["List.join"],
    "b_len": ["String.bytes", "StringBytes.len"], "b_get": ["String.bytes", "StringBytes.get"],
    "b_slice": ["String.bytes", "StringBytes.slice"], "b_list": ["String.bytes", "StringBytes.list"],
    "c_len": ["String.chars", "StringChars.len"], "c_get": ["String.chars", "StringChars.get"],
    "c_slice": ["String.chars", "StringChars.slice"], "c_list": ["String.chars", "StringChars.list"],
    "ln_len": ["String.lines", "StringLines.len"], "ln_get": ["String.lines", "StringLines.get"],
    "ln_slice": ["String.lines", "StringLines.slice"], "ln_list": ["String.lines", "StringLines.list"],
    "sb_run": ["StringBuf.new", "StringBuf.from", "StringBuf.push_char", "StringBuf.push_string",
               "StringBuf.as_string"],
    "ts_bool": ["bool.to_string"], "fm_bool": ["bool.to_string"],
    "ts_char": ["char.to_string"], "fm_char": ["char.to_string"],
    "ts_u8": ["u8.to_string"], "fm_u8": ["u8.to_string"], "ts_u16": ["u16.to_string"],
    "ts_u32": ["u32.to_string"], "ts_u64": ["u64.to_string"], "fm_u64": ["u64.to_string"],
    "ts_i8": ["i8.to_string"], "fm_i8": ["i8.to_string"], "ts_i16": ["i16.to_string"],
    "ts_i32": ["i32.to_string"], "ts_i64": ["i64.to_string"], "fm_i64": ["i64.to_string"],
    "ts_f32": ["f32.to_string"], "ts_f64": ["f64.to_string"], "fm_f64": ["f64.to_string"],
    "ts_ip": ["IpAddr.to_string"], "fm_ip": ["IpAddr.to_string"],
    "ts_prefix": ["Prefix.to_string", "Prefix.new"], "ts_asn": ["Asn.to_string"], "fm_asn": ["Asn.to_string"],
    "ip_eq": ["IpAddr.eq"], "ip_eqop": ["IpAddr.eq"], "ip_neop": ["IpAddr.eq"],
    "ip_is_ipv4": ["IpAddr.is_ipv4"], "ip_is_ipv6": ["IpAddr.is_ipv6"],
    "ip_to_canonical": ["IpAddr.to_canonical"],
    "ip_localhostv4": ["LOCALHOSTV4"], "ip_localhostv6": ["LOCALHOSTV6"],
    "p_new": ["Prefix.new"], "p_div": ["Prefix.new"], "p_addr": ["Prefix.new", "Prefix.addr"],
    "p_min_addr": ["Prefix.min_addr"], "p_max_addr": ["Prefix.max_addr"], "p_len": ["Prefix.len"],
    "p_eq": ["Prefix.eq"], "p_eqop": ["Prefix.eq"], "p_neop": ["Prefix.eq"],
}
for _w in ("f64", "f32"):
    for _f in ("floor", "ceil", "round", "abs", "sqrt", "pow", "is_nan", "is_infinite", "is_finite"):
        COVER["%s_%s" % (_w, _f)] = ["%s.%s" % (_w, _f)]

# built-ins of the runtime table this check deliberately leaves to another property
NOT_COVERED = {
    "List.new": "C15", "List.push": "C15", "List.contains": "C15", "List.index": "C15", "List.concat": "C15",
    "List.get": "C15", "List.swap": "C15", "List.len": "C15", "List.capacity": "C15", "List.is_empty": "C15",
}

STD_DEFINED = [
    "str::lines: a line ends at \\n or \\r\\n, a bare \\r stays in the line, a final terminator is optional "
    "(StringLines.len/get/list)",
    "StringLines.slice returns the text from the start of line `start` to the start of line `end`, "
    "terminators included (roto's own unit test; the doc only says 'slice by lines')",
    "split/splitn/rsplitn/replace with an empty pattern match at every character boundary incl. both ends",
    "splitn(0) / rsplitn(0) give an empty list; splitn(1) gives [s]; repeat(0) gives the empty string",
    "rsplitn searches from the end (right-most non-overlapping matches) and lists items from the end",
    "matches are non-overlapping and taken left to right (split, splitn, replace)",
    "trim/trim_start/trim_end remove Unicode White_Space (incl. U+0085, U+00A0, U+2003, U+3000)",
    "to_lowercase/to_uppercase: Unicode simple case mapping (ASCII, one-to-one Latin-1 letters, and a table of digraphs in upper/title/lower form, Greek and Cyrillic letters are specified)",
    "floor/ceil/round keep the sign of a zero result (ceil(-0.5) = -0); round: ties away from zero",
    "floor is specified as Rust's f64::floor (largest integer <= self); roto's doc text for floor is the "
    "copy of ceil's text",
    "sqrt is correctly rounded (IEEE 754): asserted on exact squares, negative -> NaN, -0 -> -0",
    "pow: exact integral powers and the special cases of IEEE 754 / C99 Annex F "
    "(pow(x, 0) = 1 and pow(1, y) = 1 even for NaN, signed zeros/infinities for odd exponents)",
    "Display of floats: shortest round-trip decimal, no exponent, 'NaN', 'inf', '-inf', '-0' "
    "(asserted on integers and dyadic fractions with <= 7 (f32) / 9 (f64) significant digits)",
    "Display of IpAddr: dotted quad; RFC 5952 compression of the first longest run of >= 2 zero groups, "
    "lower-case hex, ::ffff:a.b.c.d for IPv4-mapped addresses",
    "Display of Prefix = address '/' length; Display of Asn = 'AS' + decimal",
    "Prefix.new clears the host bits (inetnum Prefix::new_relaxed); valid lengths only (0..32 / 0..128)",
    "StringBuf values alias one buffer (pushes made by a callee that received the buffer are visible)",
]


# ------------------------------------------------------------------ TLC side

def set_of(xs):
    return "{" + ", ".join(str(x) for x in xs) + "}"


def mc_cfg(path, fam, sigma=(97,), maxlen=1, nsigma=(97,), maxneedle=1, nums=(0,), exps=(0,)):
    with open(path, "w") as f:
        f.write("""SPECIFICATION MCSpec
CONSTANTS
  Family = "%s"
  Sigma = %s
  MaxLen = %d
  NSigma = %s
  MaxNeedle = %d
  Nums = %s
  Exps = %s
INVARIANTS DocOK Emit
CHECK_DEADLOCK FALSE
""" % (fam, set_of(sigma), maxlen, set_of(nsigma), maxneedle, set_of(nums), set_of(exps)))


A, B, UA, EAC, EGR, UEAC, EURO, SMILE, NL, CR, SP, EMSP = 97, 98, 65, 233, 232, 201, 8364, 128512, 10, 13, 32, 8195


def plan(tier):
    """(tag, family, cfg parameters, description) per TLC run."""
    q = tier == "quick"
    widths = (A, EAC, EURO, SMILE)
    p = [
        ("bytes", "bytes", dict(sigma=widths, maxlen=3 if q else 5)),
        ("chars", "chars", dict(sigma=widths, maxlen=3 if q else 5)),
        ("lines", "lines", dict(sigma=(A, EAC, NL, CR), maxlen=4 if q else 6)),
        ("lines2", "lines", dict(sigma=(A, NL), maxlen=6 if q else 9)),
        ("pattern3", "pattern", dict(sigma=(A, EAC, EGR), maxlen=3 if q else 5, nsigma=(A, EAC, EGR), maxneedle=2)),
        ("pattern2", "pattern", dict(sigma=(A, B), maxlen=5 if q else 7, nsigma=(A, B), maxneedle=2 if q else 3)),
        ("unary", "unary", dict(sigma=(A, UA, EAC, UEAC, SP, NL, EMSP, EURO), maxlen=3 if q else 5)),
        # case mapping beyond Latin-1: digraphs in upper / TITLE / lower form, Greek, Cyrillic, next to ASCII letters
        ("case", "unary", dict(sigma=(A, UA, 452, 453, 454, 456, 498, 913, 945, 1040, 1072), maxlen=2 if q else 3)),
        ("sbuf", "sbuf", dict(sigma=(A, EURO), maxlen=2 if q else 3, nsigma=(B, EAC), maxneedle=2)),
        ("ints", "ints", dict(nums=(0, 1, 9, 10, 99, 100, 127, 128, 200, 255) if q else tuple(range(256)))),
        ("float1", "float1", dict(nums=tuple(range(1, 13)) if q else tuple(range(1, 100)),
                                  exps=(0, 1, 2, 3) if q else (0, 1, 2, 3, 4))),
        ("float2", "float2", dict(nums=(1, 2, 3, 5, 7) if q else (1, 2, 3, 5, 6, 7, 9, 11, 15), exps=(0, 1, 2))),
        ("ip4", "ip4", dict(nums=(0, 255) if q else (0, 255, 170, 1))),
        ("ip6", "ip6", dict(exps=(0, 1, 15, 16, 17, 64, 127, 128) if q else tuple(range(0, 129, 3)) + (127, 128))),
        ("ip2", "ip2", dict()),
        ("docs", "docs", dict()),
        ("misc", "misc", dict(sigma=(0, A, 127, 128, EAC, 2047, 2048, EURO, 65533, 65536, SMILE, 1114111, NL, 34, 92))),
    ]
    return p


def generate(tier, ev):
    """Run TLC per family (three at a time); yields (tag, description, calls) as the runs finish, calls being the
    flat list {fam, m, a, e} of that family."""
    d = vlib.workdir(PID, "cfg")
    from concurrent.futures import ThreadPoolExecutor
    jobs = []
    for tag, fam, kw in plan(tier):
        cfg = os.path.join(d, "mc_%s_%s.cfg" % (tier, tag))
        mc_cfg(cfg, fam, **kw)
        jobs.append((tag, fam, kw, cfg))

    def one(job):
        tag, fam, kw, cfg = job
        return run_tlc("MCBuiltins", cfg, workers=2, timeout=3000, heap="6g", coverage=False,
                       metadir=vlib.workdir("_tlc", "MCBuiltins_" + tag, clean=True))

    with ThreadPoolExecutor(max_workers=3) as ex:
        futs = [ex.submit(one, j) for j in jobs]
        for (tag, fam, kw, cfg), fut in zip(jobs, futs):
            r = fut.result()
            require_tlc_ok(r, "MCBuiltins %s" % tag)
            ev.add_tlc(r)
            calls = []
            for st in r.replay:
                for c in st["calls"]:
                    c["fam"] = tag
                    calls.append(c)
            if not calls:
                raise vlib.ToolError("MCBuiltins %s produced no calls" % tag)
            desc = "%s: %d arguments, %d calls (%s)" % (
                tag, r.distinct, len(calls), ", ".join("%s=%s" % (k, _short(v)) for k, v in kw.items()))
            r.replay = None
            r.stdout = ""
            yield tag, desc, calls


def _short(v):
    if isinstance(v, tuple) and len(v) > 12:
        return "%d values %s..%s" % (len(v), v[0], v[-1])
    return list(v) if isinstance(v, tuple) else v


# ------------------------------------------------------------------ compare

def same(x, y):
    """Structural equality that keeps bool and int apart."""
    if isinstance(x, bool) or isinstance(y, bool):
        return isinstance(x, bool) and isinstance(y, bool) and x == y
    if isinstance(x, list) and isinstance(y, list):
        return len(x) == len(y) and all(same(p, q) for p, q in zip(x, y))
    if isinstance(x, dict) and isinstance(y, dict):
        return set(x) == set(y) and all(same(x[k], y[k]) for k in x)
    if isinstance(x, (list, dict)) or isinstance(y, (list, dict)):
        return False
    return type(x) == type(y) and x == y


def show_str(cps):
    try:
        return json.dumps("".join(chr(c) for c in cps), ensure_ascii=False)
    except Exception:
        return str(cps)


def classify(m, a, exp, got):
    """A short label of the deviation (signature field `shape`): computed from the arguments and the two
    values only, never from knowledge of the implementation."""
    if m == "ln_slice":
        s, i, j = a
        final_nl = bool(s) and s[-1] == 10
        if s == [] and i == 0 and j == 1 and exp == [] and got == [[]]:
            return "empty-string:slice(0,1):spec=None:impl=Some('')"
        if s and not final_nl and i == j and exp == [[]] and got == []:
            return "no-final-newline:slice(n,n):spec=Some(''):impl=None"
    if isinstance(exp, list) and isinstance(got, list) and m.endswith(("_get", "_slice", "strip_prefix", "strip_suffix")):
        return "spec=%s:impl=%s" % ("None" if exp == [] else "Some", "None" if got == [] else "Some")
    return "wrong-value"


def judge(m, a, exp, res, verd, route, extra=None):
    """res: harness result record for the call; exp: specified value. Returns True iff conforming."""
    oc = vlib.outcome_of(res)
    rep = {"m": m, "a": a, "expected": exp, "result": res, "route": route}
    if extra:
        rep.update(extra)
    if oc == "panic" and str(res.get("panic", "")).startswith("harness:"):
        raise vlib.ToolError("harness rejected a case: %s %s: %s" % (m, json.dumps(a)[:300], res.get("panic")))
    if oc != "returned":
        verd.report({"m": m, "kind_of_failure": oc.split(":")[0], "shape": oc},
                    "built-in call %s%s did not return normally (%s): %s" % (m, json.dumps(a)[:300], oc, str(res)[:300]), rep)
        return False
    got = res["r"]
    if isinstance(got, dict) and "unavailable" in got:
        # the script function that uses the built-in with its documented signature does not compile
        verd.report({"m": m, "kind_of_failure": "signature", "shape": "script-function-does-not-compile"},
                    "%s (%s): `%s` no longer compiles against the runtime, the built-in does not have its documented "
                    "signature: %s" % (m, "/".join(COVER.get(m, ["?"])), m, got.get("error", "")[:400]), rep)
        return False
    if same(exp, got):
        return True
    shape = classify(m, a, exp, got)
    verd.report({"m": m, "kind_of_failure": "wrong-result", "shape": shape},
                "%s (%s): arguments %s: documentation/spec says %s, roto returned %s [%s; string args: %s]" %
                (m, "/".join(COVER.get(m, ["?"])), json.dumps(a)[:300], json.dumps(exp)[:300], json.dumps(got)[:300], shape,
                 ", ".join(show_str(x) for x in a if isinstance(x, list) and all(isinstance(c, int) for c in x))[:200]),
                rep)
    return False


def nontrivial(c):
    """A call exercises the mechanism when its subject is non-empty / non-default."""
    a = c["a"]
    if not a:
        return True
    x = a[0]
    if isinstance(x, list):
        return len(x) > 0
    return True


# ------------------------------------------------------------------- table

def builtin_table():
    d = os.path.join(vlib.workdir(PID, "table"), "docs")
    r = vlib.run_bin("c17", ["--table", d], timeout=300)
    if r.outcome != "returned":
        raise vlib.ToolError("c17 --table failed: %s %s" % (r.outcome, r.err[-500:]))
    names = []
    for line in r.out.splitlines():
        kind, rest = line.split(" ", 1)
        name = rest.split("(")[0].split(":")[0].strip()
        names.append((kind, name))
    if len(names) < 50:
        raise vlib.ToolError("built-in table unexpectedly small: %s" % names)
    return names


def check_table(ev, counts_si, counts_is):
    table = builtin_table()
    covered = {}
    for fn, bs in COVER.items():
        for b in bs:
            covered.setdefault(b, []).append(fn)
    missing = [n for (_, n) in table if n not in covered and n not in NOT_COVERED]
    if missing:
        raise vlib.ToolError("built-ins of the runtime without a covering script function: %s" % missing)
    stale = [b for b in covered if b not in {n for (_, n) in table}]
    if stale:
        raise vlib.ToolError("COVER names built-ins the runtime does not register: %s" % stale)
    unexercised = [fn for fn in COVER if counts_si.get(fn, 0) == 0 or counts_is.get(fn, 0) == 0]
    if unexercised:
        raise vlib.ToolError("script functions never exercised (S->I or I->S): %s" % unexercised)
    per_builtin = {}
    for (_, n) in table:
        if n in covered:
            per_builtin[n] = {"spec_to_impl_calls": sum(counts_si.get(f, 0) for f in covered[n]),
                              "impl_to_spec_events": sum(counts_is.get(f, 0) for f in covered[n])}
    ev.extra["builtins_in_runtime_table"] = len(table)
    ev.extra["builtins_covered"] = len(per_builtin)
    ev.extra["builtins_not_covered"] = {n: "covered by %s" % NOT_COVERED[n] for (_, n) in table if n in NOT_COVERED}
    ev.extra["calls_per_builtin"] = per_builtin


# -------------------------------------------------------------------- I->S

def impl_to_spec(tier, ev, verd):
    nruns, n = (8, 1500) if tier == "quick" else (32, 5000)
    base = vlib.seed() % 1000003
    cases = [{"gen": base * 100 + k, "n": n} for k in range(nruns)]
    results = vlib.run_batch("c17", cases, nproc=8, pid=PID, tag="gen", stall=60)
    d = vlib.workdir(PID, "trace")
    counts = {}
    jobs = []
    for k, (case, res) in enumerate(zip(cases, results)):
        if vlib.outcome_of(res) != "returned":
            verd.report({"m": "generator", "kind_of_failure": vlib.outcome_of(res).split(":")[0], "shape": "seeded-run"},
                        "seeded run of built-in calls did not finish (%s) at call %s: %s" %
                        (vlib.outcome_of(res), res.get("step"), str(res)[:300]), {"gen": case, "result": res})
            continue
        events = []
        for e in res["r"]:
            counts[e["m"]] = counts.get(e["m"], 0) + 1
            if isinstance(e["res"], dict) and "unavailable" in e["res"]:
                judge(e["m"], e["a"], None, {"r": e["res"]}, verd, "impl-to-spec", {"gen": case})
                continue
            events.append(e)
            ev.impl_actions.add(e["m"])
        jobs.append((case, events, os.path.join(d, "trace_%s_%d.ndjson" % (tier, k))))

    def validate(job):
        case, events, path = job
        # one cfg name per concurrent TLC run (vlib derives TLC's scratch directory from it)
        cfg = os.path.join(vlib.workdir(PID, "cfg"), "TraceBuiltins_%s.cfg" % os.path.basename(path).replace(".ndjson", ""))
        with open(cfg, "w") as f:
            f.write(open(os.path.join(vlib.SPEC, "TraceBuiltins.cfg")).read())
        out = []
        rest = events
        offset = 0
        for _ in range(40):
            if not rest:
                break
            vlib.write_ndjson(path, rest)
            r = vlib.validate_trace("TraceBuiltins", cfg, path, timeout=1200, heap="3g")
            out.append(("tlc", r))
            if r.ok:
                rest = []
                break
            if r.postcondition_failed and r.replay:
                un = r.replay[0]
                out.append(("unmatched", dict(un, line=un["line"] + offset, seed=case["gen"])))
                # continue behind the rejected event (every other event is still validated)
                offset += un["line"]
                rest = rest[un["line"]:]
                continue
            raise vlib.ToolError("trace validation failed to run: %s\n%s" % (r.error, r.stdout[-2000:]))
        else:
            raise vlib.ToolError("more than 40 rejected events in one trace (%s)" % path)
        vlib.write_ndjson(path, events)
        return out

    from concurrent.futures import ThreadPoolExecutor
    with ThreadPoolExecutor(max_workers=4) as ex:
        outs = list(ex.map(validate, jobs))
    accepted = 0
    for (case, events, path), out in zip(jobs, outs):
        bad = 0
        for kind, x in out:
            if kind == "tlc":
                ev.add_tlc(x)
                continue
            bad += 1
            e = x["ev"]
            if not x["defined"]:
                raise vlib.ToolError("generator left the specified domain: %s" % json.dumps(e)[:400])
            judge(e["m"], e["a"], x["spec"], {"r": e["res"]}, verd, "impl-to-spec",
                  {"trace": path, "line": x["line"], "gen": case})
        accepted += len(events) - bad
    ev.traces += accepted
    ev.extra["impl_to_spec_events"] = sum(len(j[1]) for j in jobs)
    ev.extra["impl_to_spec_events_accepted"] = accepted
    return counts


# --------------------------------------------------------------------- run

def run(tier):
    ev = Evidence(PID, tier)
    verd = Verdicts(PID)
    vlib.build_harness(["c17"])
    ev.rule = ("case = one call (script function, arguments) with the value Builtins.Apply specifies, emitted by "
               "TLC from MCBuiltins (every argument of the bounded domains); distinct = distinct (function, "
               "arguments); non-trivial = the subject argument is not the empty string / empty list (all numeric "
               "and address calls count); recorded events of the seeded generator accepted by TraceBuiltins are "
               "added to traces_validated_against_impl")
    parts = []
    counts_si = {}
    for tag, desc, calls in generate(tier, ev):
        parts.append(desc)
        for c in calls:
            counts_si[c["m"]] = counts_si.get(c["m"], 0) + 1
        unknown = [m for m in counts_si if m not in COVER]
        if unknown:
            raise vlib.ToolError("spec emits calls of unknown script functions: %s" % unknown)
        cases = [{"m": c["m"], "a": c["a"]} for c in calls]       # the harness never sees the expectation
        results = vlib.run_batch("c17", cases, nproc=8, pid=PID, tag="si_%s_%s" % (tier, tag), stall=60)
        for c, res in zip(calls, results):
            judge(c["m"], c["a"], c["e"], res, verd, "spec-to-impl", {"fam": c["fam"]})
            ev.case({"m": c["m"], "a": c["a"], "e": c["e"]}, nontrivial(c), key=vlib.shash([c["m"], c["a"]]))
            ev.traces += 1
            ev.impl_actions.add(c["m"])
    ev.extra["exhaustive_parts"] = parts
    counts_is = impl_to_spec(tier, ev, verd)
    check_table(ev, counts_si, counts_is)
    ev.extra["spec_action_counts"] = dict(sorted(counts_si.items()))
    ev.extra["impl_to_spec_counts"] = dict(sorted(counts_is.items()))
    ev.extra["std_defined"] = STD_DEFINED
    ev.exhaustive = True
    ev.assumptions = [
        "strings are sequences of Unicode scalar values; the alphabets contain one representative per UTF-8 width, "
        "ASCII/Latin-1 letters of both cases, \\n, \\r, space and non-ASCII white space; other characters are "
        "assumed to behave like the representative of their class",
        "u64::MAX stands for all indices/counts beyond every length (passed as 1000000 in the spec)",
        "to_lowercase/to_uppercase are asserted for ASCII, one-to-one Latin-1 letters, the letters of Builtins.CaseTable (digraphs incl. title case, Greek alpha, Cyrillic a) and caseless characters only",
        "float to_string/pow are asserted only where the result is exact (see std_defined); in the Builtins part "
        "floats are dyadic numbers with small mantissas and the special values; abs/floor/ceil/round/sqrt/is_* on "
        "arbitrary bit patterns (inexact sqrt, ties, subnormals, NaN) are decided by the Ieee.tla part",
        "Prefix.new is called with valid lengths only (invalid lengths abort: property C10)",
        "exhaustive only within the bounds listed in exhaustive_parts; beyond them seeded random arguments",
    ]
    # float built-ins on arbitrary bit patterns (inexact results, ties, subnormals, NaN): spec/Ieee.tla
    from checks import c01ieee
    c01ieee.run_ieee_builtins(tier, ev, verd)
    rc = verd.finish()
    ev.write(len(verd.violations))
    return rc


def replay(path):
    obj = json.load(open(path))["replay"]
    if isinstance(obj, dict) and obj.get("part") == "ieee":
        from checks import c01ieee
        return c01ieee.replay_ieee(obj, PID)
    vlib.build_harness(["c17"])
    verd = Verdicts(PID)
    res = vlib.run_batch("c17", [{"m": obj["m"], "a": obj["a"]}], nproc=1, pid=PID, tag="replay")
    # the expectation is recomputed by TLC from the specification
    d = vlib.workdir(PID, "trace")
    p = os.path.join(d, "replay.ndjson")
    got = res[0].get("r")
    exp = obj.get("expected")
    if vlib.outcome_of(res[0]) == "returned":
        vlib.write_ndjson(p, [{"m": obj["m"], "a": obj["a"], "res": got}])
        r = vlib.validate_trace("TraceBuiltins", "TraceBuiltins.cfg", p)
        if r.ok:
            print("replay: %s%s returned %s, accepted by Builtins" % (obj["m"], json.dumps(obj["a"]), json.dumps(got)))
            return 0
        if r.postcondition_failed and r.replay:
            exp = r.replay[0]["spec"]
        else:
            raise vlib.ToolError("trace validation failed to run: %s" % r.error)
    judge(obj["m"], obj["a"], exp, res[0], verd, "replay")
    return verd.finish()
