"""C20, second half - the evaluator's checked memory (roto::lir::Memory) stops with a panic on every
out-of-bounds, misaligned or dangling access and is otherwise a faithful memory.

Spec: spec/EvalMem.tla (+ MCEvalMem.tla, TraceEvalMem.tla), bound to the real Memory through the
cfg-guarded hook roto::verif::EvalMem (harness/src/bin/c20mem.rs).

design: TLC explores the full state graph of EvalMem under structural bounds (mode "check") and checks the
      state invariants (frame ids fresh, shadow memory agrees, a pointer into a popped frame never
      resolves again) and the step properties (dangling/unknown => panic, panic changes nothing, reads
      return the shadow bytes, writes are local, sizes never change) on every transition.
S->I: TLC emits behaviours with the specified outcome of every operation: an edge cover of the bounded
      state graph (every operation of a rich alphabet taken once from every reachable memory state, mode
      "cover"), every behaviour of a short length (mode "all") and seeded random walks (-simulate); each ends
      with a sweep over the final memory.  They are replayed on a fresh roto::verif::EvalMem and compared
      step by step.  The situation class of the final operation of every behaviour is computed by the spec;
      the classes the property talks about must all occur (anti-vacuity).
I->S: the harness' seeded generator drives the real memory through long histories (call/return nesting,
      offset chains, copies of 1..40 bytes, deliberate faults) and logs every operation with its outcome;
      TLC validates the log against EvalMem (TraceEvalMem.tla).

Entry point for lib/checks/c20.py: run_mem(tier, ev, verd).  Stand-alone: python3 lib/checks/c20mem.py
[--tier quick|thorough] [--replay FILE] (prints the verdict lines, writes no evidence).
"""
import json
import os
import sys
import time

if __name__ == "__main__":
    sys.path.insert(0, os.path.dirname(os.path.dirname(os.path.abspath(__file__))))

import vlib

PID = "C20"
PART = "evalmem"
BIN = "c20mem"
OPNAMES = ["allocate", "push_frame", "pop_frame", "offset_by", "write", "read", "copy", "get_byte"]
READONLY = ("read", "get_byte")
STEP_PROPERTIES = ["DanglingAlwaysPanics", "UnknownPointerPanics", "PanicChangesNothing", "ReadFaithful",
                   "GetFaithful", "WriteIsLocal", "OnlyWritersWrite", "AllocationSizesNeverChange", "IdsMonotonic"]

# situation classes (op:tag, computed by MCEvalMem.Tags for the final operation of a behaviour) that the
# property statement talks about: each must occur in the emitted behaviours
REQUIRED_CLASSES = [
    # dangling pointer whose stack index is occupied by a NEW frame with enough allocations and an
    # allocation the access would fit in: only the frame id check can stop it
    "read:dangling-reused-would-fit", "write:dangling-reused-would-fit", "get_byte:dangling-reused-would-fit",
    "copy:from:dangling-reused-would-fit", "copy:to:dangling-reused-would-fit",
    "read:dangling-reused-fewer-allocs", "get_byte:dangling-reused-fewer-allocs",
    # dangling pointer beyond the current stack
    "read:dangling-beyond-stack", "write:dangling-beyond-stack", "get_byte:dangling-beyond-stack",
    "copy:from:dangling-beyond-stack", "copy:to:dangling-beyond-stack",
    # bounds: one byte too far / ends exactly at the end
    "read:oob-by-one", "write:oob-by-one", "copy:from:oob-by-one", "copy:to:oob-by-one",
    "read:ends-at-end", "write:ends-at-end", "copy:from:ends-at-end", "copy:to:ends-at-end",
    # alignment
    "read:misaligned-by-1", "read:misaligned-by-2", "read:misaligned-by-4",
    "write:misaligned-by-1", "write:misaligned-by-2", "write:misaligned-by-4",
    "copy:from:misaligned-by-1", "copy:to:misaligned-by-2",
    # zero-length accesses
    "read:zero-len-at-0", "read:zero-len-at-nonzero", "write:zero-len-at-0", "write:zero-len-at-nonzero",
    "copy:from:zero-len-at-0", "copy:from:zero-len-at-nonzero", "copy:to:zero-len-at-nonzero",
    # copies
    "copy:size-not-multiple-of-8", "copy:size-not-multiple-of-8-tail-differs", "copy:changes-destination",
    "copy:between-frames", "copy:between-allocations-of-one-frame", "copy:overlap-same-range", "copy:overlap-partial",
    # frames
    "pop_frame:root", "pop_frame:frame", "push_frame:over-dangling-pointers",
    # addresses
    "get_byte:at-len", "get_byte:at-len-zero-sized", "get_byte:inside", "get_byte:ends-at-end",
    # pointer indices that were never handed out
    "read:unknown-pointer", "write:unknown-pointer", "get_byte:unknown-pointer", "offset_by:unknown-pointer",
    "copy:from:unknown-pointer", "copy:to:unknown-pointer",
    "offset_by:of-dangling", "offset_by:of-live", "allocate:zero-sized",
]


def _set(xs):
    return "{%s}" % ", ".join(str(x) for x in xs)


def write_cfg(path, c, properties=False):
    """c: dict with mode, n, depth, allocs, nptrs, ids, build alphabet (sizes, offs, wl, seeds, rs, cs) and the
    alphabet of the final operation (p_sizes, p_offs, p_wl, p_rs, p_cs; default: the build alphabet)."""
    g = lambda k, d: c.get(k, c[d])
    with open(path, "w") as f:
        f.write("SPECIFICATION MCSpec\nCONSTANTS\n")
        f.write('  Mode = "%s"\n  N = %d\n  BuildChanges = %s\n' % (c["mode"], c["n"], "TRUE" if c.get("build_changes") else "FALSE"))
        f.write("  MaxDepth = %d\n  MaxAllocs = %d\n  MaxPtrs = %d\n  MaxIds = %d\n" % (c["depth"], c["allocs"], c["nptrs"], c["ids"]))
        f.write("  AllocSizes = %s\n  Offsets = %s\n  WriteLens = %s\n  Seeds = %s\n  ReadSizes = %s\n  CopySizes = %s\n" %
                (_set(c["sizes"]), _set(c["offs"]), _set(c["wl"]), _set(c["seeds"]), _set(c["rs"]), _set(c["cs"])))
        f.write("  PAllocSizes = %s\n  POffsets = %s\n  PWriteLens = %s\n  PReadSizes = %s\n  PCopySizes = %s\n" %
                (_set(g("p_sizes", "sizes")), _set(g("p_offs", "offs")), _set(g("p_wl", "wl")), _set(g("p_rs", "rs")), _set(g("p_cs", "cs"))))
        f.write("VIEW MCView\nINVARIANTS Inv Emit\n")
        if properties:
            f.write("PROPERTIES %s\n" % " ".join(STEP_PROPERTIES))
        f.write("CHECK_DEADLOCK FALSE\n")


def describe(c):
    keys = ["mode", "n", "depth", "allocs", "nptrs", "ids", "sizes", "offs", "wl", "seeds", "rs", "cs",
            "p_sizes", "p_offs", "p_wl", "p_rs", "p_cs"]
    return " ".join("%s=%s" % (k, json.dumps(c[k]).replace(" ", "")) for k in keys if k in c)


# ------------------------------------------------------------------------------------- configurations

def plans(tier):
    """(design-check configurations, behaviour configurations, walks)"""
    full = dict(p_sizes=[0, 1, 4], p_offs=[0, 1, 2, 4], p_wl=[0, 1, 2, 4], p_rs=[0, 1, 2, 4, 8], p_cs=[0, 2, 4])
    wide = dict(p_sizes=[0, 8], p_offs=[0, 1, 4], p_wl=[0, 1, 2, 4, 8], p_rs=[0, 1, 2, 4, 8], p_cs=[0, 2, 4, 8])
    big = dict(p_sizes=[0, 12], p_offs=[0, 4, 8], p_wl=[0, 4], p_rs=[0, 4, 12, 16], p_cs=[0, 4, 12, 16])
    if tier == "quick":
        checks = [
            dict(name="frames", mode="check", n=0, depth=3, allocs=2, nptrs=3, ids=4, sizes=[0, 2], offs=[1], wl=[0, 2],
                 seeds=[1], rs=[0, 1, 2, 4], cs=[0, 2]),
            dict(name="bytes", mode="check", n=0, depth=2, allocs=1, nptrs=3, ids=3, sizes=[4], offs=[2], wl=[2, 4],
                 seeds=[1, 2], rs=[0, 1, 2, 4], cs=[2, 4]),
        ]
        behaviours = [
            # frames and pointers: deep enough for pop + push + allocate under a dangling pointer
            dict(name="frames", mode="cover", n=6, depth=2, allocs=2, nptrs=3, ids=3, sizes=[4], offs=[4], wl=[4],
                 seeds=[1], rs=[], cs=[], **full),
            # alignment: pointers at offsets 1, 2, 4 into 8- and 12-byte allocations
            dict(name="align", mode="cover", n=3, depth=1, allocs=2, nptrs=3, ids=1, sizes=[8, 12], offs=[1, 2, 4], wl=[],
                 seeds=[1], rs=[], cs=[], **wide),
            # contents: 12/16-byte allocations, 4-byte writes at 0 and 8, copies of 12 and 16 bytes
            dict(name="copies", mode="cover", n=5, depth=1, allocs=2, nptrs=3, ids=1, sizes=[12, 16], offs=[8], wl=[4],
                 seeds=[1], rs=[], cs=[], **big),
            dict(name="short", mode="all", n=3, depth=2, allocs=2, nptrs=3, ids=3, sizes=[0, 2], offs=[1], wl=[1, 2],
                 seeds=[1], rs=[1, 2], cs=[2], **full),
        ]
        walks = [dict(name="walk", num=24, depth=14)]
    else:
        checks = [
            dict(name="frames", mode="check", n=0, depth=3, allocs=2, nptrs=4, ids=4, sizes=[0, 2, 4], offs=[1, 2], wl=[0, 2],
                 seeds=[1], rs=[0, 1, 2, 4], cs=[0, 2, 4]),
            dict(name="bytes", mode="check", n=0, depth=2, allocs=2, nptrs=4, ids=3, sizes=[4], offs=[2], wl=[2, 4],
                 seeds=[1], rs=[0, 1, 2, 4], cs=[2, 4]),
        ]
        # (bounds measured: 75k + 46k + 153k + 88k behaviours, 3.6 M operations; the first thorough plan - three frames,
        # four / five pointers - emitted 3.1 M + > 10 M behaviours and exhausted the memory of the driver)
        behaviours = [
            dict(name="frames", mode="cover", n=7, depth=2, allocs=2, nptrs=3, ids=3, sizes=[0, 4], offs=[4], wl=[4],
                 seeds=[1], rs=[], cs=[], **full),
            dict(name="frames3", mode="cover", n=6, depth=3, allocs=2, nptrs=3, ids=4, sizes=[4], offs=[4], wl=[4],
                 seeds=[1], rs=[], cs=[], **full),
            dict(name="align", mode="cover", n=3, depth=1, allocs=2, nptrs=3, ids=1, sizes=[8, 12], offs=[1, 2, 4], wl=[],
                 seeds=[1], rs=[], cs=[], **wide),
            dict(name="copies", mode="cover", n=6, depth=1, allocs=2, nptrs=3, ids=1, sizes=[12, 16], offs=[4, 8], wl=[4],
                 seeds=[1, 2], rs=[], cs=[4, 12], **big),
            dict(name="short", mode="all", n=4, depth=2, allocs=2, nptrs=3, ids=3, sizes=[0, 2], offs=[1], wl=[1, 2],
                 seeds=[1], rs=[1, 2], cs=[2], **full),
        ]
        walks = [dict(name="walk", num=400, depth=24)]
    return checks, behaviours, walks


WALK_CFG = dict(mode="all", build_changes=True, depth=5, allocs=3, nptrs=12, ids=9,
                sizes=[0, 1, 4, 8, 12, 16], offs=[1, 2, 4, 8], wl=[1, 2, 4], seeds=[1, 2, 3], rs=[], cs=[4, 8, 12, 16],
                p_sizes=[0, 8], p_offs=[0, 1, 4], p_wl=[0, 1, 2, 4], p_rs=[0, 1, 2, 4, 8, 12, 16], p_cs=[0, 1, 4, 8, 12, 16])


# ----------------------------------------------------------------------------------------- S -> I

def final_classes(case):
    """op:tag of the final operation of an emitted behaviour (the operation before the sweep)"""
    for op in case["ops"]:
        if "tags" in op and op["tags"] != ["sweep"]:
            return op["op"], ["%s:%s" % (op["op"], t) for t in op["tags"]]
    return None, []


def generate(tier, ev, info):
    """All TLC runs of the S->I side, three at a time with two workers each (<= 6 TLC workers)."""
    checks, behaviours, walks = plans(tier)
    d = vlib.workdir(PID, "cfg")
    jobs = []
    for c in checks:
        cfg = os.path.join(d, "evalmem_check_%s.cfg" % c["name"])
        write_cfg(cfg, c, properties=True)
        jobs.append(("check", c, cfg, dict(workers=2, heap="6g")))
    for c in behaviours:
        cfg = os.path.join(d, "evalmem_%s_%s.cfg" % (c["mode"], c["name"]))
        write_cfg(cfg, c)
        jobs.append(("emit", c, cfg, dict(workers=2, heap="8g")))
    for w in walks:
        c = dict(WALK_CFG, n=w["depth"], name=w["name"], num=w["num"])
        cfg = os.path.join(d, "evalmem_sim_%s.cfg" % w["name"])
        write_cfg(cfg, c)
        jobs.append(("walk", c, cfg, dict(workers=1, heap="6g", simulate=w["num"], depth=w["depth"] + 1, tlc_seed=vlib.seed())))
    from concurrent.futures import ThreadPoolExecutor
    # longest first
    order = sorted(range(len(jobs)), key=lambda i: 0 if jobs[i][0] == "check" else 1)
    with ThreadPoolExecutor(max_workers=3) as ex:
        futs = {i: ex.submit(vlib.run_tlc, "MCEvalMem", jobs[i][2], timeout=3000, coverage=False, **jobs[i][3]) for i in order}
        results = [futs[i].result() for i in range(len(jobs))]
    cases = []
    info["design_check"] = []
    info["behaviours"] = []
    for (kind, c, cfg, _), r in zip(jobs, results):
        if kind == "check":
            vlib.require_tlc_ok(r, "MCEvalMem design check %s" % c["name"])
            if r.distinct < 100:
                raise vlib.ToolError("MCEvalMem design check %s explored only %d states" % (c["name"], r.distinct))
            info["design_check"].append({"bounds": describe(c), "distinct_states": r.distinct, "transitions": r.generated,
                                         "step_properties": STEP_PROPERTIES, "wall_s": round(r.wall, 1)})
        elif kind == "emit":
            vlib.require_tlc_ok(r, "MCEvalMem %s %s" % (c["mode"], c["name"]))
            info["behaviours"].append({"bounds": describe(c), "distinct_states": r.distinct, "emitted": len(r.replay),
                                       "wall_s": round(r.wall, 1)})
        else:
            if r.error or r.invariant_violated:
                vlib.require_tlc_ok(r, "MCEvalMem simulate")
            info["behaviours"].append({"bounds": "simulate num=%d depth=%d seed=%d %s" % (c["num"], c["n"], vlib.seed(), describe(c)),
                                       "emitted": len(r.replay), "wall_s": round(r.wall, 1)})
        ev.add_tlc(r)
        for x in r.replay:
            x["cfg"] = c["name"]
        cases.extend(r.replay)
        r.replay = []
        r.stdout = ""
    # --- anti-vacuity: every action as final operation, every situation class of the property statement
    classes = {}
    finals = {}
    for c in cases:
        op, cl = final_classes(c)
        if op is None:
            raise vlib.ToolError("emitted behaviour without a final operation: %s" % json.dumps(c)[:300])
        finals[op] = finals.get(op, 0) + 1
        for t in cl:
            classes[t] = classes.get(t, 0) + 1
    missing = [a for a in OPNAMES if finals.get(a, 0) == 0]
    if missing:
        raise vlib.ToolError("EvalMem actions never taken as the final operation of an emitted behaviour: %s" % missing)
    missing = [t for t in REQUIRED_CLASSES if classes.get(t, 0) == 0]
    if missing:
        raise vlib.ToolError("situations of the property statement that no emitted behaviour ends in (vacuous): %s" % missing)
    info["behaviours_by_final_operation"] = dict(sorted(finals.items()))
    info["behaviours_by_situation_of_final_operation"] = dict(sorted(classes.items()))
    info["required_situations"] = {t: classes[t] for t in REQUIRED_CLASSES}
    return cases


def same_outcome(exp, got):
    if not isinstance(got, dict) or exp.get("k") != got.get("k"):
        return False
    if exp["k"] in ("index", "bytes"):
        return exp.get("v") == got.get("v")
    return True


def signature(op, exp, got):
    gk = got.get("k", "?") if isinstance(got, dict) else "?"
    if gk == exp.get("k"):
        gk = gk + "-with-other-value"
    return {"part": PART, "op": op.get("op", "?"), "kind_of_failure": "outcome-differs", "expected": exp.get("k", "?"),
            "got": gk, "cls": exp.get("why", "-")}


def args_only(ops):
    """what the harness gets: operation names and arguments, no expectation"""
    return [{a: v for a, v in o.items() if a not in ("out", "tags")} for o in ops]


def strip(case):
    """the behaviour as the harness needs it to replay it (keeps the expected outcomes)"""
    return {"ops": case["ops"], "cfg": case.get("cfg", "?")}


def compare(case, res, verd):
    """Step-by-step comparison of one replayed behaviour.  Returns the number of differing steps reported.
    After a difference at an operation that cannot change the memory (read, get_byte) the comparison goes on;
    after any other difference the two memories may have diverged and the rest would be follow-up noise."""
    ops = case["ops"]
    oc = vlib.outcome_of(res)
    if oc != "returned":
        step = res.get("step", -1)
        op = ops[step] if isinstance(step, int) and 0 <= step < len(ops) else {}
        verd.report({"part": PART, "op": op.get("op", "?"), "kind_of_failure": oc.split(":")[0], "expected": op.get("out", {}).get("k", "?"),
                     "got": oc, "cls": op.get("out", {}).get("why", "-")},
                    "evaluator memory: the replay of a behaviour did not return (%s) at step %s %s: %s" %
                    (oc, step, json.dumps(op), str(res)[:300]), {"case": strip(case), "result": res})
        return 1
    try:
        outs = res["r"]["outs"]
        if len(outs) != len(ops):
            raise KeyError("number of outcomes")
    except (KeyError, TypeError) as ex:
        verd.report({"part": PART, "op": "?", "kind_of_failure": "corrupted-result", "expected": "?", "got": "?", "cls": "-"},
                    "evaluator memory: malformed result record (%r): %s" % (ex, str(res)[:300]), {"case": strip(case), "result": res})
        return 1
    n = 0
    for k, (op, got) in enumerate(zip(ops, outs)):
        exp = op["out"]
        if same_outcome(exp, got):
            continue
        n += 1
        args = {a: v for a, v in op.items() if a not in ("out", "tags")}
        verd.report(signature(op, exp, got),
                    "evaluator memory, step %d %s: EvalMem specifies %s, roto::lir::Memory gave %s; behaviour: %s" %
                    (k, json.dumps(args), json.dumps(exp), json.dumps(got)[:200],
                     json.dumps([{a: v for a, v in o.items() if a not in ("out", "tags")} for o in ops[:k + 1]])[:1200]),
                    {"case": strip(case), "step": k, "got": got})
        if op["op"] not in READONLY:
            break
    return n


def replay_and_compare(cases, ev, verd, info):
    t0 = time.time()
    results = vlib.run_batch(BIN, [{"ops": args_only(c["ops"])} for c in cases], extra=["replay"], nproc=8, stall=60, pid=PID, tag="mem_replay")
    info["replay_wall_s"] = round(time.time() - t0, 1)
    differing = 0
    steps = 0
    for c, res in zip(cases, results):
        differing += 1 if compare(c, res, verd) else 0
        steps += len(c["ops"])
        op, _ = final_classes(c)
        pure = [{a: v for a, v in o.items() if a not in ("out", "tags")} for o in c["ops"] if o.get("tags") != ["sweep"]]
        nontrivial = op in ("write", "read", "copy", "get_byte", "offset_by", "pop_frame", "push_frame") and \
            any(o["op"] == "allocate" for o in pure)
        ev.case({"part": PART, "ops": pure}, nontrivial, key=vlib.shash([PART, pure]))
        ev.traces += 1
    info["behaviours_replayed"] = len(cases)
    info["operations_compared"] = steps
    info["behaviours_with_a_differing_step"] = differing
    return cases


# ----------------------------------------------------------------------------------------- I -> S

def _prints(r, tag):
    out = []
    for (t, raw) in r.prints:
        if t == tag:
            out.append(json.loads(json.loads('"' + raw + '"')))
    return out


def validate_events(events, path, verd, info, ev):
    """events: list of trace events (with 'reset' separators).  Returns (ok, summary)."""
    vlib.write_ndjson(path, events)
    # = vlib.validate_trace, with a metadir of its own (several files are validated concurrently)
    meta = vlib.workdir("_tlc", "TraceEvalMem_" + os.path.basename(path).replace(".ndjson", ""), clean=True)
    r = vlib.run_tlc("TraceEvalMem", "TraceEvalMem.cfg", workers=1, env={"TRACE": path}, timeout=3000, heap="6g",
                     deque=True, coverage=False, tag="UNMATCHED", metadir=meta)
    ev.add_tlc(r)
    mism = _prints(r, "MISMATCH")
    summ = _prints(r, "SUMMARY")
    if r.postcondition_failed and r.replay:
        un = r.replay[0]
        verd.report({"part": PART, "op": str(un["ev"].get("op", "?")), "kind_of_failure": "trace-rejected", "expected": "?", "got": "?", "cls": "-"},
                    "evaluator memory: a recorded event cannot be bound to any EvalMem action (line %s): %s" % (un["line"], json.dumps(un["ev"])[:400]),
                    {"trace": path, "unmatched": un})
        return False, None
    if not r.ok or len(summ) != 1:
        raise vlib.ToolError("trace validation of %s failed to run: %s\n%s" % (path, r.error, r.stdout[-2000:]))
    summ = summ[0]
    if summ["mismatches"] != len(mism) or summ["events"] != len(events):
        raise vlib.ToolError("trace validation of %s: %d MISMATCH lines but the summary says %s" % (path, len(mism), summ))
    # mismatches, run by run (a run = the events between two resets); within a run stop after the first one at
    # an operation that changes the memory
    run_of = []
    k = -1
    for e in events:
        if e["op"] == "reset":
            k += 1
        run_of.append(k)
    closed = set()
    bad_runs = set()
    for m in sorted(mism, key=lambda m: m["line"]):
        run = run_of[m["line"] - 1]
        bad_runs.add(run)
        if run in closed:
            continue
        e = m["ev"]
        sig = signature(e, m["expected"], e.get("out", {}))
        args = {a: v for a, v in e.items() if a != "out"}
        verd.report(sig, "evaluator memory, recorded history %s line %d (run %d) %s: roto::lir::Memory gave %s, EvalMem specifies %s" %
                    (os.path.basename(path), m["line"], run, json.dumps(args), json.dumps(e.get("out"))[:200], json.dumps(m["expected"])),
                    {"trace": path, "line": m["line"], "event": e, "expected": m["expected"]})
        if e["op"] not in READONLY:
            closed.add(run)
    summ["runs"] = k + 1
    summ["runs_with_mismatch"] = len(bad_runs)
    return len(mism) == 0, summ


def impl_to_spec(tier, ev, verd, info):
    nruns, nops = (24, 400) if tier == "quick" else (240, 1200)
    base = vlib.seed() * 1000 + 20
    cases = [{"seed": base + i, "nops": nops} for i in range(nruns)]
    t0 = time.time()
    results = vlib.run_batch(BIN, cases, extra=["record"], nproc=8, stall=60, pid=PID, tag="mem_record")
    d = vlib.workdir(PID, "trace")
    files = []
    per_file = 40
    opcount, outcount = {}, {}
    good = 0
    events = []
    nfile = 0
    for i, (case, res) in enumerate(zip(cases, results)):
        if vlib.outcome_of(res) != "returned":
            verd.report({"part": PART, "op": "?", "kind_of_failure": vlib.outcome_of(res).split(":")[0], "expected": "?", "got": vlib.outcome_of(res), "cls": "-"},
                        "evaluator memory: recording a random history did not return: %s %s" % (case, str(res)[:300]), {"record": case, "result": res})
        else:
            events.append({"op": "reset"})
            for e in res["r"]["events"]:
                e = dict(e)
                e["out"] = {k: v for k, v in e["out"].items() if k != "msg"}
                events.append(e)
                opcount[e["op"]] = opcount.get(e["op"], 0) + 1
                outcount[e["out"]["k"]] = outcount.get(e["out"]["k"], 0) + 1
                ev.impl_actions.add("Memory." + e["op"])
            good += 1
        if events and ((i + 1) % per_file == 0 or i + 1 == len(cases)):
            files.append((os.path.join(d, "evalmem_%d.ndjson" % nfile), events, good))
            nfile += 1
            events, good = [], 0
    missing = [a for a in OPNAMES if opcount.get(a, 0) == 0]
    if missing and files:
        raise vlib.ToolError("the recorder never performed: %s" % missing)
    info["record_wall_s"] = round(time.time() - t0, 1)
    t0 = time.time()
    tally = {}
    nev = 0
    accepted = 0
    from concurrent.futures import ThreadPoolExecutor
    with ThreadPoolExecutor(max_workers=4) as ex:
        futs = [ex.submit(validate_events, evs, path, verd, info, ev) for (path, evs, n) in files]
        for f in futs:
            ok, summ = f.result()
            if summ:
                nev += summ["events"]
                for k, v in summ["tally"].items():
                    tally[k] = tally.get(k, 0) + v
                # a run is accepted iff every one of its events had the specified outcome
                accepted += summ["runs"] - summ["runs_with_mismatch"]
                ev.traces += summ["runs"] - summ["runs_with_mismatch"]
    info["recorded_runs"] = nruns
    info["recorded_runs_accepted"] = accepted
    info["recorded_events_validated"] = nev
    info["recorded_operations"] = dict(sorted(opcount.items()))
    info["recorded_outcomes"] = dict(sorted(outcount.items()))
    info["specified_outcome_classes_of_recorded_events"] = dict(sorted(tally.items()))
    info["trace_validation_wall_s"] = round(time.time() - t0, 1)
    if nev:
        weak = [k for k in ("bytes", "done", "index", "oob", "unaligned", "dangling-frame-reused", "dangling-beyond-stack", "unknown-pointer")
                if tally.get(k, 0) == 0]
        if weak:
            raise vlib.ToolError("recorded histories never reached an operation whose specified outcome is: %s" % weak)


# ------------------------------------------------------------------------------------------ entry

class _Buffered:
    """collects what the I->S side (run in a thread next to the replay) wants to tell Verdicts / Evidence"""

    def __init__(self):
        self.reports, self.tlc, self.traces, self.impl_actions = [], [], 0, set()

    def report(self, sig, desc, rep):
        self.reports.append((sig, desc, rep))

    def add_tlc(self, r):
        self.tlc.append(r)

    def flush(self, ev, verd):
        for r in self.tlc:
            ev.add_tlc(r)
        ev.traces += self.traces
        ev.impl_actions.update(self.impl_actions)
        for x in self.reports:
            verd.report(*x)


def run_mem(tier, ev, verd):
    """Evaluator-memory part of C20.  ev: vlib.Evidence, verd: vlib.Verdicts of the caller (PID C20); the caller
    finishes both.  Raises vlib.ToolError for tool failures."""
    t0 = time.time()
    vlib.build_harness([BIN])
    info = {}
    cases = generate(tier, ev, info)
    info["generation_wall_s"] = round(time.time() - t0, 1)
    # the replay (harness processes) and the recorder + trace validation (one TLC worker per file) side by side
    from concurrent.futures import ThreadPoolExecutor
    buf = _Buffered()
    with ThreadPoolExecutor(max_workers=1) as ex:
        fut = ex.submit(impl_to_spec, tier, buf, buf, info)
        replay_and_compare(cases, ev, verd, info)
        fut.result()
    buf.flush(ev, verd)
    info["wall_s"] = round(time.time() - t0, 1)
    ev.extra[PART] = info
    ev.assumptions = list(ev.assumptions) + [
        "evaluator memory: exhaustive only within the stated structural bounds (frames, allocations, pointers, sizes); "
        "larger shapes are seeded walks and recorded random histories",
        "evaluator memory: offsets and sizes stay far below 2^31 (no usize overflow of offset + size)",
    ]
    return info


def replay_mem(path):
    """Re-run the replay object of a violation file written for the evalmem part."""
    obj = json.load(open(path))["replay"]
    vlib.build_harness([BIN])
    verd = vlib.Verdicts(PID)
    if "case" in obj:
        case = obj["case"]
        res = vlib.run_batch(BIN, [{"ops": args_only(case["ops"])}], extra=["replay"], nproc=1, pid=PID, tag="mem_replay1")
        compare(case, res[0], verd)
    elif "trace" in obj:
        events = vlib.read_ndjson(obj["trace"])
        ev = vlib.Evidence(PID, "quick")
        validate_events(events, os.path.join(vlib.workdir(PID, "trace"), "evalmem_replay.ndjson"), verd, {}, ev)
    return verd.finish()


def main(argv):
    tier = "quick"
    if "--tier" in argv:
        tier = argv[argv.index("--tier") + 1]
    try:
        if "--replay" in argv:
            return replay_mem(argv[argv.index("--replay") + 1])
        ev = vlib.Evidence(PID, tier)      # never written: stand-alone runs leave /verif/evidence alone
        verd = vlib.Verdicts(PID)
        info = run_mem(tier, ev, verd)
        print(json.dumps(info, indent=1))
        print("states=%d transitions=%d evaluations=%d distinct_nontrivial=%d traces=%d" %
              (ev.states, ev.transitions, ev.evaluations, len(ev.distinct), ev.traces))
        rc = verd.finish()
        print("HELD" if rc == 0 else "VIOLATED", "property=%s part=%s tier=%s wall=%.1fs" % (PID, PART, tier, info["wall_s"]))
        return rc
    except vlib.ToolError as ex:
        print("TOOL-ERROR: %s" % ex)
        return 2


if __name__ == "__main__":
    sys.exit(main(sys.argv[1:]))
