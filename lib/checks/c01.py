"""C01 - compiled scripts compute the language-defined result.

Spec: spec/RotoSem.tla (+ BitVec.tla, Dyadic.tla), bound by TraceSem.tla.
Every native execution of a compiled script - (1) one program per (type, operator) over all pairs of
boundary operands for the 8 integer types, both float types and bool, incl. compound assignment and
unary minus; (2) literal typing programs (suffixes, context-fixed types, default i32/f64, f32
rounding, the minimum of a signed type written as the negation of a literal); (3) the match matrix (enums with 2..5
variants, every single variant / pair of variants named in the arms + `_`, guarded arms and guarded `_` arms, every
variant as examinee); (4) seeded random programs over the core language with nested expressions, blocks, if,
match, while, for, early return and (recursive) calls - is recorded (program AST, host inputs,
result, host-call log) and validated by TLC: accepted iff RotoSem.Eval gives that result and log.
"""
import semlib
import vlib
from checks import c01ieee

PID = "C01"
CORE = ["ints", "bool", "float", "char", "loops", "calls", "recfn", "ret", "enum", "opt", "rec", "list", "str", "fstr", "generic", "filtermap", "copymut", "hostopt", "shadow", "gconst", "kconst", "mods", "exprstmt", "hmeth", "anonrec"]


def run(tier):
    fam = [("core", CORE, 3, 250, 4000, 2), ("arith", ["ints", "bool", "float", "loops", "calls", "recfn", "ret"], 4, 150, 2500, 3)]
    extra = [("matrix", semlib.matrix_cases(tier)), ("literals", semlib.literal_cases()), ("match", semlib.match_cases()),
             ("negmin", semlib.negmin_cases(), True)]
    return semlib.run_sem_check(
        PID, tier, fam,
        rule=("cases = recorded native executions (program, inputs); families: operator matrix (type x operator x "
              "boundary operand pairs), literal typing, seeded random programs; distinct = distinct (source, inputs); "
              "non-trivial = program longer than a single operation (matrix and literal cases count as non-trivial because "
              "each isolates one operator/typing rule)"),
        assumptions=["RotoSem's own float arithmetic (Dyadic) covers exactly representable results; inexact results, ties, "
                     "subnormals, overflow and NaN operands of + - * / unary minus and the comparisons are decided by the "
                     "Ieee.tla part on operand bit patterns (NaN results: only `is a NaN` is asserted)",
                     "integer division by zero and MIN / -1 are outside the domain (C10)",
                     "u64 literals above i64::MAX are rejected by the parser and therefore not generated",
                     "program size and nesting are bounded by the generator"],
        extra_cases=extra,
        required_kinds=["bin:add", "bin:sub", "bin:mul", "bin:div", "bin:rem", "bin:lt", "bin:ge", "un:neg", "un:not",
                        "cset", "if", "match", "while", "for", "ret", "call", "block", "flit"],
        extra_parts=[c01ieee.run_ieee])


def replay(path):
    import json
    obj = json.load(open(path))["replay"]
    if isinstance(obj, dict) and obj.get("part") == "ieee":
        return c01ieee.replay_ieee(obj, PID)
    print(obj.get("src", ""))
    return run("quick")
