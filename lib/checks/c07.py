"""C07 - ill-typed scripts never compile.

Spec: spec/Typing.tla (typing judgement WellTyped), spec/MCTyping.tla (seed programs,
      the edit operators Break(family, site) and the invariants SeedsWellTyped /
      MutantIllTyped), spec/TraceTyping.tla (validation of recorded compiler runs).
S->I: TLC enumerates every (seed, family, site); the invariant certifies that the edited
      program is rejected by the judgement; each certified mutant (and each seed) is printed to
      roto source by this module (representation mapping only) and compiled by the real
      compiler (harness/src/bin/c07.rs).  Required: mutant -> Err with error kind "type";
      seed -> Ok (otherwise generator defect, counted separately, tool error).
      Namesake dimension: seeds that declare a record / enum / generic enum under the name of a built-in type
      (Option, Verdict, Result, String, bool, u32, List, ...; templates and the renaming operator of MCTyping.tla)
      and the families namesake-* that confuse such a type with the built-in where a rule mentions the built-in.
      Method calls: seeds that call the built-in methods of String / List / numbers / bool / IpAddr / Prefix on every form of
      receiver; families method-receiver (a value of another type as the receiver: literals, another parameter, another
      field - the judgement decides which the method does not accept, e.g. the non-generic List[String].join on a List[u64]),
      method-arg-type, method-arg-count, method-unknown.
      Divergence accounting: family fallthrough-after-branch - the body of a function that must return a value ends in a
      statement (if, if-else, match with / without guards and `_` arms, while, for, && / ||, nested) in which some but not all
      paths exit; the shapes come from a grammar in MCTyping.tla, AllExit (the rule "every way through it exits") is held
      against the judgement in both directions (mutants ill typed, twin seeds well typed).
I->S: seeded random well-typed-by-construction programs (larger than the TLC seeds) and
      random single edits of them are compiled; every event {program, outcome} is validated
      by TLC against WellTyped (TraceTyping.tla).  Rejected programs the judgement accepts
      are "completeness notes", never violations.
"""
import json
import os
import random
import re

import vlib
from vlib import Evidence, Verdicts, run_tlc, require_tlc_ok

PID = "C07"

# --------------------------------------------------------------------------- AST helpers
# A program is {"decls":[..], "nodes":[..]}; nodes refer to each other by 1-based index
# (TLA+ sequences).  The helpers below build nested trees (children are dicts) and
# `flatten` turns them into the node table.  Types are {"k": ..} objects.

INT_TYS = ["i8", "i16", "i32", "i64", "u8", "u16", "u32", "u64"]
SIGNED = ["i8", "i16", "i32", "i64"]
UNSIGNED = ["u8", "u16", "u32", "u64"]
FLOAT_TYS = ["f32", "f64"]


def T(k):
    return {"k": k}


def Opt(a):
    return {"k": "opt", "a": a}


def ListOf(a):
    return {"k": "list", "a": a}


def Named(n):
    return {"k": "named", "n": n}


CHILD_FIELDS = {
    "neg": ["e"], "not": ["e"], "fld": ["e"], "try": ["e"], "let": ["e"], "bin": ["l", "r"],
    "assign": ["e"], "cassign": ["e"], "while": ["c", "b"], "for": ["e", "b"],
}


def flatten(decls):
    """nested decls (children inline) -> {"decls", "nodes"} with 1-based child indexes"""
    nodes = []

    def fl(e):
        n = dict(e)
        k = n["k"]
        for f in CHILD_FIELDS.get(k, []):
            n[f] = fl(n[f])
        if k == "if":
            n["c"] = fl(n["c"])
            n["t"] = fl(n["t"])
            n["e"] = [fl(x) for x in n["e"]]
        elif k == "blk":
            n["ss"] = [fl(x) for x in n["ss"]]
            n["last"] = [fl(x) for x in n["last"]]
        elif k in ("call", "ctor"):
            n["args"] = [fl(x) for x in n["args"]]
        elif k == "mcall":
            n["e"] = fl(n["e"])
            n["args"] = [fl(x) for x in n["args"]]
        elif k == "rec":
            n["fs"] = [{"n": f["n"], "e": fl(f["e"])} for f in n["fs"]]
        elif k == "match":
            n["e"] = fl(n["e"])
            n["arms"] = [dict(a, g=[fl(x) for x in a["g"]], b=fl(a["b"])) for a in n["arms"]]
        elif k == "ret":
            n["e"] = [fl(x) for x in n["e"]]
        elif k == "list":
            n["es"] = [fl(x) for x in n["es"]]
        nodes.append(n)
        return len(nodes)

    out = []
    for d in decls:
        d = dict(d)
        if d["k"] == "const":
            d["e"] = fl(d["e"])
        elif d["k"] in ("fn", "filtermap"):
            d["body"] = fl(d["body"])
        out.append(d)
    return {"decls": out, "nodes": nodes}


# ------------------------------------------------------------------------ pretty printer
# Representation mapping only: program AST -> roto source.  Compound sub-expressions are
# always parenthesised, so the printed text has exactly the structure of the tree.

OPS = {"add": "+", "sub": "-", "mul": "*", "div": "/", "mod": "%", "lt": "<", "le": "<=", "gt": ">",
       "ge": ">=", "eq": "==", "ne": "!=", "and": "&&", "or": "||"}
ATOMS = {"int", "float", "bool", "str", "unit", "ip", "var", "call", "ctor", "list", "mcall"}


def ty_src(t, own_option=False):
    """own_option: the script declares a type called Option of its own, so the path `Option[..]` would not be the
    built-in: an optional optional is then written with the sugar only (`T??`)"""
    k = t["k"]
    if k == "unit":
        return "()"
    if k == "opt":
        if t["a"]["k"] != "opt" or own_option:
            return ty_src(t["a"], own_option) + "?"
        return "Option[%s]" % ty_src(t["a"], own_option)
    if k == "list":
        return "List[%s]" % ty_src(t["a"], own_option)
    if k == "named":
        return t["n"]
    if k == "verdict":
        return "Verdict[%s, %s]" % (ty_src(t["a"], own_option), ty_src(t["r"], own_option))
    if k == "tparam":
        return t["n"]
    if k == "gen":
        return "%s[%s]" % (t["n"], ", ".join(ty_src(a, own_option) for a in t["as"]))
    return k


class Printer:
    def __init__(self, prog):
        self.P = prog
        self.N = prog["nodes"]
        self.own_option = any(d["n"] == "Option" for d in prog["decls"])

    def ty(self, t):
        return ty_src(t, self.own_option)

    def node(self, i):
        return self.N[i - 1]

    def atom(self, i):
        n = self.node(i)
        s = self.expr(i)
        if n["k"] in ATOMS or (n["k"] == "fld" and self.node(n["e"])["k"] in ("var", "fld")):
            return s
        return "(" + s + ")"

    def expr(self, i):
        n = self.node(i)
        k = n["k"]
        if k == "ip":
            return ["::1", "1.2.3.4", "2001:db8::2"][n["v"] % 3]
        if k == "int":
            return "%d%s" % (n["v"], n["suf"])
        if k == "float":
            return "%s%s" % (n["v"], n["suf"])
        if k == "bool":
            return "true" if n["v"] else "false"
        if k == "str":
            return json.dumps(n["v"])
        if k == "unit":
            return "()"
        if k == "var":
            return n["n"]
        if k == "neg":
            return "-(" + self.expr(n["e"]) + ")"
        if k == "not":
            return "!(" + self.expr(n["e"]) + ")"
        if k == "bin":
            return "%s %s %s" % (self.atom(n["l"]), OPS[n["op"]], self.atom(n["r"]))
        if k == "if":
            s = "if %s %s" % (self.atom(n["c"]), self.block(n["t"]))
            if n["e"]:
                s += " else " + self.block(n["e"][0])
            return s
        if k == "blk":
            return self.block(i)
        if k == "let":
            return "let %s%s = %s;" % (n["n"], (": " + self.ty(n["t"][0])) if n["t"] else "", self.expr(n["e"]))
        if k == "assign":
            return "%s = %s" % (".".join(n["p"]), self.atom(n["e"]))
        if k == "cassign":
            return "%s %s= %s" % (".".join(n["p"]), OPS[n["op"]], self.atom(n["e"]))
        if k == "call":
            return "%s(%s)" % (n["f"], ", ".join(self.expr(a) for a in n["args"]))
        if k == "mcall":
            # a method call; a receiver that is a variable or a field path prints as a path (`r.flags.join(..)`)
            return "%s.%s(%s)" % (self.atom(n["e"]), n["m"], ", ".join(self.expr(a) for a in n["args"]))
        if k == "ctor":
            # en == "": the bare constructors Some(..) / None of the prelude (always the built-in Option)
            s = "%s.%s" % (n["en"], n["v"]) if n["en"] else n["v"]
            if n["call"]:
                s += "(%s)" % ", ".join(self.expr(a) for a in n["args"])
            return s
        if k == "rec":
            fs = ", ".join("%s: %s" % (f["n"], self.expr(f["e"])) for f in n["fs"])
            return ("%s { %s }" % (n["n"], fs)) if n["n"] else "{ %s }" % fs
        if k == "fld":
            return "%s.%s" % (self.atom(n["e"]), n["f"])
        if k == "match":
            arms = []
            for a in n["arms"]:
                pat = a["v"]
                if a["hb"]:
                    pat += "(%s)" % ", ".join(a["bs"])
                if a["g"]:
                    pat += " if " + self.atom(a["g"][0])
                arms.append("%s => %s" % (pat, self.block(a["b"])))
            return "match %s { %s }" % (self.atom(n["e"]), " ".join(arms))
        if k == "try":
            return self.atom(n["e"]) + "?"
        if k == "ret":
            return n["kind"] + ((" " + self.atom(n["e"][0])) if n["e"] else "")
        if k == "list":
            return "[%s]" % ", ".join(self.expr(e) for e in n["es"])
        if k == "while":
            return "while %s %s" % (self.atom(n["c"]), self.block(n["b"]))
        if k == "for":
            return "for %s in %s %s" % (n["n"], self.atom(n["e"]), self.block(n["b"]))
        raise vlib.ToolError("printer: unknown node kind %r" % k)

    def block(self, i):
        n = self.node(i)
        if n["k"] != "blk":
            raise vlib.ToolError("printer: block expected, got %r" % n["k"])
        parts = []
        for s in n["ss"]:
            sn = self.node(s)
            parts.append(self.expr(s) if sn["k"] == "let" else self.expr(s) + ";")
        for e in n["last"]:
            parts.append(self.expr(e))
        return "{ " + " ".join(parts) + " }" if parts else "{ }"

    def decl(self, d):
        k = d["k"]
        tp = "[%s]" % ", ".join(d["tp"]) if d.get("tp") else ""
        if k == "record":
            return "record %s%s { %s }" % (d["n"], tp, ", ".join("%s: %s" % (f["n"], self.ty(f["t"])) for f in d["fs"]))
        if k == "enum":
            vs = []
            for v in d["vs"]:
                vs.append(v["n"] + ("(%s)" % ", ".join(self.ty(t) for t in v["ts"]) if v["ts"] else ""))
            return "enum %s%s { %s }" % (d["n"], tp, ", ".join(vs))
        if k == "const":
            return "const %s: %s = %s;" % (d["n"], self.ty(d["t"]), self.expr(d["e"]))
        ps = ", ".join("%s: %s" % (p["n"], self.ty(p["t"])) for p in d["ps"])
        if k == "fn":
            ret = "" if d["ret"]["k"] == "unit" else " -> " + self.ty(d["ret"])
            return "fn %s(%s)%s %s" % (d["n"], ps, ret, self.block(d["body"]))
        if k == "filtermap":
            return "filtermap %s(%s) %s" % (d["n"], ps, self.block(d["body"]))
        raise vlib.ToolError("printer: unknown declaration kind %r" % k)

    def source(self):
        return "\n".join(self.decl(d) for d in self.P["decls"]) + "\n"


def to_source(prog):
    return Printer(prog).source()


# ------------------------------------------------------- random well-typed programs (I->S)
# Type-directed generator: every expression is produced FOR a type, so the program is well
# typed by construction (the judgement and the real compiler both have to confirm that).
# Names are unique per function.  Constant initialisers are literal arithmetic only (they are
# executed at compile time).

def I(v, suf=""):
    return {"k": "int", "v": v, "suf": suf}


def V(n):
    return {"k": "var", "n": n}


def Blk(ss, last=None):
    return {"k": "blk", "ss": ss, "last": [last] if last is not None else []}


FLOAT_LITS = ["1.5", "2.5", "3.0", "4.25", "7.0", "0.5"]
# built-in names a random program may declare a record / enum under (not List: the generator annotates list types)
GEN_NAMESAKES = ["Option", "Option", "Verdict", "Result", "String", "String", "bool", "bool", "i32", "u32", "i64", "u8", "f64",
                 "IpAddr", "Prefix"]


class Gen:
    def __init__(self, rng, size):
        self.rng = rng
        self.size = size
        self.records = {}      # name -> [(field, type)]
        self.enums = {}        # name -> [(variant, [types])]
        self.consts = []       # (name, type)
        self.fns = []          # (name, [param types], ret)  callable so far (declared before or self)
        self.counter = 0
        self.decls = []
        self.ns_pool = []      # built-in names still to be given to declared types (namesakes)
        self.shadow = set()    # built-in names this program declares a type under: never WRITTEN for the built-in

    def type_name(self, p):
        """name of the next declared record / enum: a built-in's name while the pool lasts"""
        if self.ns_pool and self.rng.random() < 0.6:
            return self.ns_pool.pop()
        return self.fresh(p)

    def some(self, e):
        # the bare constructor where the program declares an Option of its own (and now and then elsewhere)
        bare = "Option" in self.shadow or self.rng.random() < 0.15
        return {"k": "ctor", "en": "" if bare else "Option", "v": "Some", "args": [e], "call": True}

    def none(self):
        bare = "Option" in self.shadow or self.rng.random() < 0.15
        return {"k": "ctor", "en": "" if bare else "Option", "v": "None", "args": [], "call": False}

    def fresh(self, p):
        self.counter += 1
        return "%s%d" % (p, self.counter)

    # ----- types
    def num_ty(self):
        return T(self.rng.choice([x for x in ["i32", "i32", "u8", "i64", "f64", "u32", "i8", "u64", "f32", "i16", "u16"]
                                  if x not in self.shadow]))

    def prim_ty(self):
        r = self.rng.random()
        t = self.num_ty() if r < 0.55 else T("bool") if r < 0.8 else T("String")
        return self.num_ty() if t["k"] in self.shadow else t

    def any_ty(self, depth=0):
        r = self.rng.random()
        if depth < 2 and r < 0.12:
            return Opt(self.any_ty(depth + 1))
        if depth < 2 and r < 0.22:
            return ListOf(self.any_ty(depth + 1))
        if r < 0.34 and self.records:
            return Named(self.rng.choice(sorted(self.records)))
        if r < 0.44 and self.enums:
            return Named(self.rng.choice(sorted(self.enums)))
        return self.prim_ty()

    # ----- expressions
    def lit(self, t):
        k = t["k"]
        if k in INT_TYS:
            hi = 100 if k in ("i8", "u8") else 1000
            return I(self.rng.randrange(0, hi), self.rng.choice(["", "", k]))
        if k in FLOAT_TYS:
            return {"k": "float", "v": self.rng.choice(FLOAT_LITS), "suf": self.rng.choice(["", "", k])}
        if k == "bool":
            return {"k": "bool", "v": self.rng.random() < 0.5}
        if k == "String":
            return {"k": "str", "v": self.rng.choice(["a", "bc", "", "x y"])}
        if k == "unit":
            return {"k": "unit"}
        if k == "opt":
            if self.rng.random() < 0.3:
                return self.none()
            return self.some(self.lit(t["a"]))
        if k == "list":
            return {"k": "list", "es": [self.lit(t["a"]) for _ in range(self.rng.randrange(0, 3))]}
        if k == "named" and t["n"] in self.records:
            return {"k": "rec", "n": t["n"], "fs": [{"n": f, "e": self.lit(ft)} for f, ft in self.records[t["n"]]]}
        if k == "named":
            v, ts = self.rng.choice(self.enums[t["n"]])
            return {"k": "ctor", "en": t["n"], "v": v, "args": [self.lit(x) for x in ts], "call": bool(ts)}
        raise vlib.ToolError("gen: no literal for %r" % (t,))

    def vars_of(self, env, t):
        return [n for (n, vt) in env["vars"] if vt == t]

    def expr(self, env, t, depth):
        """an expression of type t in environment env"""
        rng = self.rng
        k = t["k"]
        if depth <= 0 or rng.random() < 0.15:
            vs = self.vars_of(env, t)
            if vs and rng.random() < 0.7:
                return V(rng.choice(vs))
            cs = [n for (n, ct) in self.consts if ct == t]
            if cs and rng.random() < 0.4 and not env.get("const"):
                return V(rng.choice(cs))
            return self.lit(t)
        opts = ["leaf", "if", "blk"]
        if not env.get("const"):
            opts += ["call", "match", "fld", "mcall"]
            if env["ret"]["k"] == "opt":
                opts.append("try")
        if k in INT_TYS or k in FLOAT_TYS:
            opts += ["arith", "arith", "arith"]
            if k in SIGNED or k in FLOAT_TYS:
                opts.append("neg")
        elif k == "bool":
            opts += ["cmp", "cmp", "logic", "logic", "not", "eq"]
        elif k == "String":
            opts += ["concat"]
        elif k == "list":
            opts += ["listlit", "listlit", "concat"]
        elif k == "opt":
            opts += ["some", "some"]
        elif k == "named":
            opts += ["make", "make"]
        c = rng.choice(opts)
        d = depth - 1
        if c == "arith":
            ops = ["add", "sub", "mul"] + ([] if env.get("const") else ["div"] + (["mod"] if k in INT_TYS else []))
            return {"k": "bin", "op": rng.choice(ops), "l": self.expr(env, t, d), "r": self.expr(env, t, d)}
        if c == "neg":
            return {"k": "neg", "e": self.expr_definite(env, t, d)}
        if c == "cmp":
            nt = self.num_ty()
            return {"k": "bin", "op": rng.choice(["lt", "le", "gt", "ge"]), "l": self.expr_definite(env, nt, d), "r": self.expr(env, nt, d)}
        if c == "eq":
            pt = self.prim_ty()
            return {"k": "bin", "op": rng.choice(["eq", "ne"]), "l": self.expr_definite(env, pt, d), "r": self.expr(env, pt, d)}
        if c == "logic":
            return {"k": "bin", "op": rng.choice(["and", "or"]), "l": self.expr(env, t, d), "r": self.expr(env, t, d)}
        if c == "not":
            return {"k": "not", "e": self.expr(env, t, d)}
        if c == "concat":
            return {"k": "bin", "op": "add", "l": self.expr_definite(env, t, d), "r": self.expr(env, t, d)}
        if c == "listlit":
            return {"k": "list", "es": [self.expr(env, t["a"], d) for _ in range(rng.randrange(1, 4))]}
        if c == "some":
            return self.some(self.expr(env, t["a"], d))
        if c == "make":
            if t["n"] in self.records:
                fs = [{"n": f, "e": self.expr(env, ft, d)} for f, ft in self.records[t["n"]]]
                rng.shuffle(fs)
                anon = rng.random() < 0.3 and fs
                return {"k": "rec", "n": "" if anon else t["n"], "fs": fs}
            v, ts = rng.choice(self.enums[t["n"]])
            return {"k": "ctor", "en": t["n"], "v": v, "args": [self.expr(env, x, d) for x in ts], "call": bool(ts)}
        if c == "if":
            return {"k": "if", "c": self.expr(env, T("bool"), d), "t": self.block(env, t, d, 1), "e": [self.block(env, t, d, 1)]}
        if c == "blk":
            return self.block(env, t, d, 2)
        if c == "call":
            fs = [f for f in self.fns if f[2] == t]
            if fs:
                f = rng.choice(fs)
                return {"k": "call", "f": f[0], "args": [self.expr(env, pt, d) for pt in f[1]]}
            return self.expr(env, t, d)
        if c == "fld":
            cands = []
            for (n, vt) in env["vars"]:
                if vt["k"] == "named" and vt["n"] in self.records:
                    for f, ft in self.records[vt["n"]]:
                        if ft == t:
                            cands.append((n, f))
            if cands:
                n, f = rng.choice(cands)
                return {"k": "fld", "e": V(n), "f": f}
            return self.expr(env, t, d)
        if c == "try":
            return {"k": "try", "e": self.expr_definite(env, Opt(t), d)}
        if c == "mcall":
            m = self.mcall(env, t, d)
            return m if m is not None else self.expr(env, t, d)
        if c == "match":
            return self.match(env, t, d)
        vs = self.vars_of(env, t)
        if vs:
            return V(rng.choice(vs))
        return self.lit(t)

    def mcall(self, env, t, d):
        """a call of a built-in method whose documented result type is t (None when there is none).  The receiver is
        `definite` (roto looks the method up in the type the receiver has on its own)."""
        rng = self.rng
        k = t["k"]
        S, B, U64 = T("String"), T("bool"), T("u64")

        def mc(recv_t, m, arg_ts):
            # the program never writes a shadowed built-in name; its values then only come from literals
            return {"k": "mcall", "e": self.expr_definite(env, recv_t, d), "m": m, "args": [self.expr(env, a, d) for a in arg_ts]}

        def elem():
            e = self.any_ty(1)
            return e
        cands = []
        if k == "bool":
            cands += [lambda: mc(S, rng.choice(["contains", "starts_with", "ends_with", "eq"]), [S]),
                      lambda: mc(ListOf(elem()), "is_empty", [])]
            et = self.prim_ty()
            cands.append(lambda: mc(ListOf(et), "contains", [et]))
            if "f64" not in self.shadow:
                cands.append(lambda: mc(T("f64"), rng.choice(["is_nan", "is_finite", "is_infinite"]), []))
        elif k == "String":
            cands += [lambda: mc(self.num_ty(), "to_string", []), lambda: mc(B, "to_string", []),
                      lambda: mc(S, rng.choice(["trim", "trim_start", "trim_end", "to_uppercase", "to_lowercase", "to_string"]), []),
                      lambda: mc(S, "append", [S]), lambda: mc(S, "replace", [S, S]), lambda: mc(S, "repeat", [U64]),
                      lambda: mc(ListOf(S), "join", [S]), lambda: mc(ListOf(S), "join", [S])]
        elif k == "u64":
            cands += [lambda: mc(ListOf(elem()), rng.choice(["len", "capacity"]), [])]
        elif k in FLOAT_TYS:
            cands += [lambda: mc(t, rng.choice(["abs", "ceil", "floor", "round", "sqrt"]), []), lambda: mc(t, "pow", [t])]
        elif k == "opt":
            cands.append(lambda: mc(ListOf(t["a"]), "get", [U64]))
            if t["a"] == U64:
                et = self.prim_ty()
                cands.append(lambda: mc(ListOf(et), "index", [et]))
            if t["a"] == S:
                cands.append(lambda: mc(S, rng.choice(["strip_prefix", "strip_suffix"]), [S]))
        elif k == "list":
            cands.append(lambda: mc(t, "concat", [t]))
            if t["a"] == S:
                cands += [lambda: mc(S, "split", [S]), lambda: mc(S, rng.choice(["splitn", "rsplitn"]), [U64, S])]
        if not cands or any(x in self.shadow for x in ("String", "bool", "u64")):
            return None
        return rng.choice(cands)()

    def expr_definite(self, env, t, depth):
        """an expression whose own type is t without help from the context (a variable, a call,
        a suffixed literal): operands that roto checks against a fresh variable"""
        vs = self.vars_of(env, t)
        if vs and self.rng.random() < 0.8:
            return V(self.rng.choice(vs))
        fs = [f for f in self.fns if f[2] == t]
        if fs and self.rng.random() < 0.5 and not env.get("const") and depth > 0:
            f = self.rng.choice(fs)
            return {"k": "call", "f": f[0], "args": [self.expr(env, pt, depth - 1) for pt in f[1]]}
        k = t["k"]
        if k in INT_TYS:
            return I(self.rng.randrange(0, 100), k)
        if k in FLOAT_TYS:
            return {"k": "float", "v": self.rng.choice(FLOAT_LITS), "suf": k}
        if k == "opt":
            return self.some(self.expr_definite(env, t["a"], depth - 1))
        if k == "list":
            return {"k": "list", "es": [self.expr_definite(env, t["a"], depth - 1)]}
        return self.lit(t)

    def match(self, env, t, d):
        rng = self.rng
        cands = [(n, vt) for (n, vt) in env["vars"] if vt["k"] == "opt" or (vt["k"] == "named" and vt["n"] in self.enums)]
        if cands and rng.random() < 0.7:
            n, st = rng.choice(cands)
            scrut = V(n)
        else:
            st = Opt(self.prim_ty()) if (rng.random() < 0.5 or not self.enums) else Named(rng.choice(sorted(self.enums)))
            scrut = self.expr_definite(env, st, d)
        if st["k"] == "opt":
            variants = [("Some", [st["a"]]), ("None", [])]
        else:
            variants = list(self.enums[st["n"]])
        variants = variants[:]
        rng.shuffle(variants)
        arms = []
        use_default = len(variants) > 1 and rng.random() < 0.3
        covered = variants[:-1] if use_default else variants
        for v, ts in covered:
            if ts and rng.random() < 0.25:
                bs = [self.fresh("b") for _ in ts]
                env2 = dict(env, vars=env["vars"] + list(zip(bs, ts)))
                arms.append({"v": v, "bs": bs, "hb": True, "g": [self.expr(env2, T("bool"), d)], "b": self.block(env2, t, d, 1)})
            bs = [self.fresh("b") for _ in ts]
            env2 = dict(env, vars=env["vars"] + list(zip(bs, ts)))
            arms.append({"v": v, "bs": bs, "hb": bool(ts), "g": [], "b": self.block(env2, t, d, 1)})
        if use_default:
            arms.append({"v": "_", "bs": [], "hb": False, "g": [], "b": self.block(env, t, d, 1)})
        return {"k": "match", "e": scrut, "arms": arms}

    # ----- statements and blocks
    def block(self, env, t, depth, maxstmts):
        """a block of type t (unit: no last expression)"""
        rng = self.rng
        env = dict(env, vars=list(env["vars"]))
        ss = []
        for _ in range(rng.randrange(0, maxstmts + 1)):
            ss.append(self.stmt(env, depth))
        if t["k"] == "unit":
            if rng.random() < 0.2:
                return Blk(ss, {"k": "unit"})
            return Blk(ss)
        if not env.get("const") and env["kind"] == "fn" and rng.random() < 0.08:
            ss.append({"k": "ret", "kind": "return", "e": [] if env["ret"]["k"] == "unit" else [self.expr(env, env["ret"], depth - 1)]})
            return Blk(ss)
        return Blk(ss, self.expr(env, t, depth - 1))

    def stmt(self, env, depth):
        rng = self.rng
        d = depth - 1
        opts = ["let", "let", "let"]
        if not env.get("const"):
            if env["vars"]:
                opts += ["assign", "assign", "cassign"]
            opts += ["if", "while", "for", "exprstmt", "ifret"]
            if any(vt["k"] == "list" for (_, vt) in env["vars"]) and "u64" not in self.shadow:
                opts += ["listop"]
        c = rng.choice(opts)
        if c == "listop":
            n, vt = rng.choice([(n, vt) for (n, vt) in env["vars"] if vt["k"] == "list"])
            if rng.random() < 0.7:
                return {"k": "mcall", "e": V(n), "m": "push", "args": [self.expr(env, vt["a"], d)]}
            return {"k": "mcall", "e": V(n), "m": "swap", "args": [self.expr(env, T("u64"), d), self.expr(env, T("u64"), d)]}
        if c == "let":
            t = self.any_ty()
            n = self.fresh("v")
            e = self.expr(env, t, d)
            # a type the context cannot determine (None, []) needs the annotation
            ambiguous = any(x in json.dumps(t) for x in ('"opt"', '"list"'))
            s = {"k": "let", "n": n, "t": [t] if (ambiguous or rng.random() < 0.7) else [], "e": e}
            env["vars"].append((n, t))
            return s
        if c == "assign":
            n, t = rng.choice(env["vars"])
            if t["k"] == "named" and t["n"] in self.records and self.records[t["n"]] and rng.random() < 0.6:
                f, ft = rng.choice(self.records[t["n"]])
                return {"k": "assign", "p": [n, f], "e": self.expr(env, ft, d)}
            return {"k": "assign", "p": [n], "e": self.expr(env, t, d)}
        if c == "cassign":
            nums = [(n, t) for (n, t) in env["vars"] if t["k"] in INT_TYS or t["k"] in FLOAT_TYS]
            if nums:
                n, t = rng.choice(nums)
                ops = ["add", "sub", "mul", "div"] + (["mod"] if t["k"] in INT_TYS else [])
                return {"k": "cassign", "op": rng.choice(ops), "p": [n], "e": self.expr(env, t, d)}
            return self.stmt(env, depth) if depth > 0 else {"k": "unit"}
        if c == "if":
            n = {"k": "if", "c": self.expr(env, T("bool"), d), "t": self.block(env, T("unit"), d, 2), "e": []}
            if rng.random() < 0.4:
                n["e"] = [self.block(env, T("unit"), d, 2)]
            return n
        if c == "ifret" and env["kind"] == "fn":
            r = {"k": "ret", "kind": "return", "e": [] if env["ret"]["k"] == "unit" else [self.expr(env, env["ret"], d)]}
            return {"k": "if", "c": self.expr(env, T("bool"), d), "t": Blk([r]), "e": []}
        if c == "ifret":
            return {"k": "if", "c": self.expr(env, T("bool"), d), "t": Blk([{"k": "ret", "kind": "reject", "e": []}]), "e": []}
        if c == "while":
            return {"k": "while", "c": self.expr(env, T("bool"), d), "b": self.block(env, T("unit"), d, 2)}
        if c == "for":
            et = self.any_ty(1)
            n = self.fresh("it")
            env2 = dict(env, vars=env["vars"] + [(n, et)])
            return {"k": "for", "n": n, "e": self.expr_definite(env, ListOf(et), d), "b": self.block(env2, T("unit"), d, 2)}
        return self.expr(env, self.prim_ty(), d)

    # ----- declarations
    def program(self):
        rng = self.rng
        if rng.random() < 0.3:
            # namesakes: some of the declared types get the name of a built-in type; the program then never writes
            # that name for the built-in (it uses the built-in through literals, operators, `T?`, bare Some / None)
            self.ns_pool = rng.sample(sorted(set(GEN_NAMESAKES)), rng.randrange(1, 4))
            if rng.random() < 0.5:
                self.ns_pool[0] = rng.choice(GEN_NAMESAKES)
            self.ns_pool = list(dict.fromkeys(self.ns_pool))
            self.shadow = set(self.ns_pool)
        for _ in range(rng.randrange(1 if self.ns_pool else 0, 3)):
            n = self.type_name("R")
            fs = [(self.fresh("f"), self.any_ty(1)) for _ in range(rng.randrange(1, 4))]
            self.records[n] = fs
            self.decls.append({"k": "record", "n": n, "fs": [{"n": f, "t": t} for f, t in fs]})
        for _ in range(rng.randrange(1 if self.ns_pool else 0, 3)):
            n = self.type_name("E")
            vs = [(self.fresh("K"), [self.any_ty(1) for _ in range(rng.choice([0, 0, 1, 1, 2]))]) for _ in range(rng.randrange(1, 4))]
            self.enums[n] = vs
            self.decls.append({"k": "enum", "n": n, "vs": [{"n": v, "ts": ts} for v, ts in vs]})
        # spare type declarations: declared, never constructed, so edits of their members break no other rule
        spare = []
        for _ in range(rng.randrange(1, 4)):
            n = self.type_name("S")
            mts = []
            for _ in range(rng.randrange(1, 4)):
                base = rng.choice([self.prim_ty(), self.prim_ty()] + [Named(x) for x in spare] + [Named(x) for x in sorted(self.records)])
                mts.append(rng.choice([base, Opt(base), ListOf(base), Opt(ListOf(base))]))
            if rng.random() < 0.5:
                self.decls.append({"k": "record", "n": n, "fs": [{"n": self.fresh("f"), "t": t} for t in mts]})
            else:
                self.decls.append({"k": "enum", "n": n, "vs": [{"n": self.fresh("K"), "ts": [t]} for t in mts]})
            spare.append(n)
        for _ in range(rng.randrange(0, 3)):
            n = self.fresh("C")
            t = self.prim_ty()
            env = {"vars": [], "ret": {"k": "none"}, "kind": "const", "const": True}
            refs = [c for (c, ct) in self.consts if ct == t]
            e = self.expr(env, t, 2)
            if refs and rng.random() < 0.5 and t["k"] in INT_TYS + FLOAT_TYS:
                e = {"k": "bin", "op": "add", "l": V(rng.choice(refs)), "r": self.lit(t)}
            self.decls.append({"k": "const", "n": n, "t": t, "e": e})
            self.consts.append((n, t))
        for _ in range(rng.randrange(2, 2 + self.size)):
            n = self.fresh("fn")
            pts = [self.any_ty() for _ in range(rng.randrange(0, 4))]
            pns = [self.fresh("p") for _ in pts]
            ret = self.any_ty() if rng.random() < 0.85 else T("unit")
            self.fns.append((n, pts, ret))   # recursion allowed
            env = {"vars": list(zip(pns, pts)), "ret": ret, "kind": "fn"}
            body = self.block(env, ret, 3, 3)
            self.decls.append({"k": "fn", "n": n, "ps": [{"n": a, "t": b} for a, b in zip(pns, pts)], "ret": ret, "body": body})
        if rng.random() < 0.5:
            n = self.fresh("fm")
            pts = [self.any_ty() for _ in range(rng.randrange(0, 3))]
            pns = [self.fresh("p") for _ in pts]
            env = {"vars": list(zip(pns, pts)), "ret": {"k": "verdict"}, "kind": "filtermap"}
            at = self.prim_ty()
            ss = [self.stmt(env, 2) for _ in range(rng.randrange(0, 3))]
            acc = {"k": "ret", "kind": "accept", "e": [self.expr(env, at, 2)]}
            rej = {"k": "ret", "kind": "reject", "e": []}
            body = Blk(ss, {"k": "if", "c": self.expr(env, T("bool"), 2), "t": Blk([], acc), "e": [Blk([], rej)]})
            self.decls.append({"k": "filtermap", "n": n, "ps": [{"n": a, "b": b, "t": b}.copy() for a, b in zip(pns, pts)], "body": body})
            for p in self.decls[-1]["ps"]:
                p.pop("b", None)
        return flatten(self.decls)


def random_program(rng, size=3):
    return Gen(rng, size).program()


# ------------------------------------------------------------------ blind single edits (I->S)
# Random single edits of a program at random positions.  They are NOT claimed to be ill typed:
# the judgement (TraceTyping.tla) classifies every edited program, the real compiler has to
# agree whenever the judgement rejects.

MUT_OPS = ["rec-member", "insert-use", "lit", "rename", "swap-op", "wrap", "arg", "field", "arm", "elem", "annot", "dup-stmt", "del-stmt",
           "swap-stmt", "insert-exit", "insert-assign", "suffix", "dup-decl", "decl-type", "member", "pattern", "namesake",
           "method", "fall-shape"]

# arm forms of the random exit / fall-through shapes: (variant, guarded)
MATCH_FORMS = [[("Some", 1), ("Some", 0), ("None", 0)], [("Some", 0), ("None", 0)], [("Some", 0), ("_", 0)],
               [("Some", 0), ("_", 1), ("None", 0)], [("Some", 1), ("_", 0)], [("None", 0), ("Some", 1), ("_", 0)],
               [("Some", 1), ("None", 1), ("_", 0)], [("None", 1), ("Some", 0), ("None", 0)]]


def fall_shape(rng, add, mk_exit, depth):
    """a random statement built from exit blocks, empty blocks, if / if-else / match (with and without guards, `_` arms) /
    while / for / && / ||; returns the index of the statement node.  Whether some path falls through is for the judgement."""
    TRUE = {"k": "bool", "v": True}

    def block(as_operand=False):
        r = rng.random()
        if r < 0.55:
            ss, fell = [mk_exit()], False
        elif r < 0.75 or depth <= 0:
            ss, fell = [], True
        else:
            ss, fell = [fall_shape(rng, add, mk_exit, depth - 1)], True
        last = [add(dict(TRUE))] if (as_operand and fell) else []
        return add({"k": "blk", "ss": ss, "last": last})

    c = rng.choice(["if1", "ifelse", "ifelse", "match", "match", "match", "match", "while", "for", "and", "or"])
    if c == "if1":
        return add({"k": "if", "c": add(dict(TRUE)), "t": block(), "e": []})
    if c == "ifelse":
        return add({"k": "if", "c": add(dict(TRUE)), "t": block(), "e": [block()]})
    if c == "while":
        return add({"k": "while", "c": add({"k": "bool", "v": False}), "b": block()})
    if c == "for":
        return add({"k": "for", "n": "zz_it", "e": add({"k": "list", "es": [add(I(0))]}), "b": block()})
    if c in ("and", "or"):
        return add({"k": "bin", "op": c, "l": add({"k": "bool", "v": c == "and"}), "r": block(True)})
    arms = []
    for v, g in rng.choice(MATCH_FORMS):
        arms.append({"v": v, "bs": ["zz_v"] if v == "Some" else [], "hb": v == "Some", "g": [add(dict(TRUE))] if g else [], "b": block()})
    scrut = add({"k": "ctor", "en": "", "v": "Some", "args": [add(I(1))], "call": True})
    return add({"k": "match", "e": scrut, "arms": arms})

RANDOM_TYPES = [T("i32"), T("u8"), T("i64"), T("f64"), T("bool"), T("String"), T("unit"), Opt(T("i32")),
                ListOf(T("u8")), T("u32"), T("i8")]


def _names_in(prog):
    ns = set()
    for d in prog["decls"]:
        ns.add(d["n"])
        for p in d.get("ps", []):
            ns.add(p["n"])
    for n in prog["nodes"]:
        if n["k"] in ("let", "for"):
            ns.add(n["n"])
        if n["k"] == "match":
            for a in n["arms"]:
                ns.update(a["bs"])
    return sorted(ns)


def _rand_lit(rng):
    return rng.choice([{"k": "bool", "v": True}, {"k": "str", "v": "x"}, {"k": "unit"}, I(1), I(3, "u8"), I(2, "i64"),
                       {"k": "float", "v": "2.5", "suf": ""}, {"k": "ctor", "en": "Option", "v": "None", "args": [], "call": False},
                       {"k": "list", "es": []}])


EXPR_KINDS = {"int", "float", "bool", "str", "unit", "var", "neg", "not", "bin", "if", "blk", "call", "ctor", "rec",
              "fld", "match", "try", "list", "mcall"}


def _rename_ty(t, old, new):
    if t["k"] in ("named", "gen") and t["n"] == old:
        t["n"] = new
    if "a" in t and isinstance(t["a"], dict):
        _rename_ty(t["a"], old, new)
    for a in t.get("as", []):
        _rename_ty(a, old, new)


def rename_type(P, old, new):
    """rename the declared type `old` everywhere it is written (declaration, type expressions, record literals,
    constructor paths)"""
    for d in P["decls"]:
        if d["n"] == old and d["k"] in ("record", "enum"):
            d["n"] = new
        for f in d.get("fs", []) + d.get("ps", []):
            _rename_ty(f["t"], old, new)
        for v in d.get("vs", []):
            for t in v["ts"]:
                _rename_ty(t, old, new)
        for key in ("t", "ret"):
            if key in d:
                _rename_ty(d[key], old, new)
    for n in P["nodes"]:
        if n["k"] == "let":
            for t in n["t"]:
                _rename_ty(t, old, new)
        elif n["k"] == "rec" and n["n"] == old:
            n["n"] = new
        elif n["k"] == "ctor" and n["en"] == old:
            n["en"] = new


def namesakes_of(prog):
    return sorted(d["n"] for d in prog["decls"] if d["k"] in ("record", "enum") and d["n"] in BUILTIN_NAMES)


def mutate(rng, prog):
    """one random edit; returns (program, operator name) or None when the operator does not apply"""
    P = json.loads(json.dumps(prog))
    N = P["nodes"]
    D = P["decls"]
    op = rng.choice(MUT_OPS)

    def pick(kinds):
        c = [i for i, n in enumerate(N) if n["k"] in kinds]
        return rng.choice(c) if c else None

    def add(n):
        N.append(n)
        return len(N)

    blocks = [i for i, n in enumerate(N) if n["k"] == "blk"]
    if op == "method":
        # a method call appears or changes: the name (any documented method of any type, or a name no type has), the
        # receiver (a literal / some name of the program), the arguments.  The judgement decides what is ill typed.
        names = ALL_METHOD_NAMES + STATIC_FUNCTION_NAMES + ["zz_nomethod"]
        calls = [i for i, n in enumerate(N) if n["k"] == "mcall"]
        c = rng.choice(["wrap", "rename", "recv", "recv", "arg-add", "arg-drop", "arg-lit"]) if calls else "wrap"
        if c == "wrap":
            i = pick(EXPR_KINDS - {"blk"})
            if i is None:
                return None
            inner = add(N[i])
            N[i] = {"k": "mcall", "e": inner, "m": rng.choice(names), "args": [add(_rand_lit(rng)) for _ in range(rng.choice([0, 0, 1, 1, 2]))]}
        else:
            n = N[rng.choice(calls)]
            if c == "rename":
                n["m"] = rng.choice([x for x in names if x != n["m"]])
            elif c == "recv":
                n["e"] = add(V(rng.choice(_names_in(P))) if rng.random() < 0.5 else
                             rng.choice([_rand_lit(rng), {"k": "list", "es": [add(I(1, "u64"))]}, {"k": "list", "es": [add({"k": "bool", "v": True})]},
                                         {"k": "list", "es": [add({"k": "str", "v": "a"})]}]))
            elif c == "arg-add":
                n["args"].append(add(_rand_lit(rng)))
            elif c == "arg-drop" and n["args"]:
                n["args"].pop(rng.randrange(len(n["args"])))
            elif c == "arg-lit" and n["args"]:
                n["args"][rng.randrange(len(n["args"]))] = add(_rand_lit(rng))
            else:
                return None
    elif op == "fall-shape":
        # the body of a function that returns a value (a filtermap that ends in accept / reject; the initialiser of an
        # annotated let) ends in a statement in which its value is returned on some paths, maybe on all
        fns = [d for d in D if d["k"] in ("fn", "filtermap") and N[d["body"] - 1]["last"]
               and (d["k"] == "fn" or N[N[d["body"] - 1]["last"][0] - 1]["k"] == "ret")]
        if not fns:
            return None
        d = rng.choice(fns)
        b = N[d["body"] - 1]
        lets = [x for x in b["ss"] if N[x - 1]["k"] == "let" and N[x - 1]["t"] and N[x - 1]["t"][0] == d.get("ret")]
        if lets and rng.random() < 0.2:
            ln = N[rng.choice(lets) - 1]
            e = ln["e"]
            ln["e"] = add({"k": "blk", "ss": [fall_shape(rng, add, lambda: add({"k": "ret", "kind": "return", "e": [e]}), 2)], "last": []})
        else:
            e = b["last"][0]
            mk_exit = (lambda: add({"k": "ret", "kind": "return", "e": [e]})) if d["k"] == "fn" else (lambda: e)
            b["ss"].append(fall_shape(rng, add, mk_exit, 2))
            b["last"] = []
    elif op == "namesake":
        # a declared type and a built-in type of the same name: (a) a declared type is renamed to a built-in name
        # (everywhere, so the program stays well typed unless it also writes that name for the built-in);
        # (b) `Some(1)?` / accept / reject at the start of a function that returns a namesake; (c) a literal of the
        # built-in as the value of such a function.  Whether the result is ill typed is for the judgement to say.
        ns = namesakes_of(P)
        fns = [d for d in D if d["k"] == "fn" and (d["ret"].get("n") in ns or d["ret"]["k"] in ns)]
        c = rng.choice(["rename", "exit", "exit", "lit"]) if fns else "rename"
        if c == "rename":
            tds = [d for d in D if d["k"] in ("record", "enum")]
            free = [b for b in BUILTIN_NAMES if all(d["n"] != b for d in D)]
            if not tds or not free:
                return None
            rename_type(P, rng.choice(tds)["n"], rng.choice(free))
        elif c == "exit":
            d = rng.choice(fns)
            w = rng.choice(["try", "try", "accept", "reject"])
            if w == "try":
                some = add({"k": "ctor", "en": "", "v": "Some", "args": [add(I(1))], "call": True})
                st = add({"k": "try", "e": some})
            else:
                st = add({"k": "ret", "kind": w, "e": [add(I(1))]})
            N[d["body"] - 1]["ss"].insert(0, st)
        else:
            d = rng.choice(fns)
            b = N[d["body"] - 1]
            if not b["last"]:
                return None
            N[b["last"][0] - 1] = rng.choice([{"k": "str", "v": "x"}, {"k": "bool", "v": True}, I(1), I(1, "u32"),
                                              {"k": "ctor", "en": "", "v": "None", "args": [], "call": False},
                                              {"k": "float", "v": "1.5", "suf": "f64"}])
    elif op == "rec-member":
        # a member mentioning a declared type (itself or another), plain / under Option / under List, at any position
        tds = [d for d in D if d["k"] in ("record", "enum")]
        if not tds:
            return None
        d = rng.choice(tds)
        x = Named(rng.choice([d["n"], d["n"]] + [e["n"] for e in tds]))
        t = rng.choice([x, Opt(x), ListOf(x), Opt(ListOf(x)), ListOf(Opt(x))])
        if d["k"] == "record":
            d["fs"].insert(rng.randrange(len(d["fs"]) + 1), {"n": "zz_rec", "t": t})
        else:
            d["vs"].insert(rng.randrange(len(d["vs"]) + 1), {"n": "ZzRec", "ts": [t]})
    elif op == "insert-use":
        # a bare use of some name of the program at a random place (in scope or not: the judgement decides)
        b = rng.choice(blocks)
        s = add(V(rng.choice(_names_in(P))))
        N[b]["ss"].insert(rng.randrange(len(N[b]["ss"]) + 1), s)
    elif op == "lit":
        i = pick(EXPR_KINDS - {"blk"})
        if i is None:
            return None
        N[i] = _rand_lit(rng)
    elif op == "rename":
        i = pick({"var", "call", "fld", "assign", "cassign", "ctor", "rec"})
        if i is None:
            return None
        n = N[i]
        new = rng.choice(_names_in(P) + ["zz_unknown"])
        if n["k"] == "var":
            n["n"] = new
        elif n["k"] == "call":
            n["f"] = new
        elif n["k"] == "fld":
            n["f"] = new
        elif n["k"] in ("assign", "cassign"):
            n["p"][rng.randrange(len(n["p"]))] = new
        elif n["k"] == "ctor":
            # (a bare constructor has no path: another bare name would not be a constructor at all, so it gets a path)
            if rng.random() < 0.5 and n["en"]:
                n["v"] = new
            else:
                n["en"] = new
        else:
            n["n"] = new
    elif op == "swap-op":
        i = pick({"bin", "cassign"})
        if i is None:
            return None
        ops = ["add", "sub", "mul", "div", "mod"] + ([] if N[i]["k"] == "cassign" else ["lt", "le", "gt", "ge", "eq", "ne", "and", "or"])
        N[i]["op"] = rng.choice([o for o in ops if o != N[i]["op"]])
    elif op == "wrap":
        i = pick(EXPR_KINDS - {"blk"})
        if i is None:
            return None
        inner = add(N[i])
        w = rng.choice(["neg", "not", "try", "some", "list", "fld"])
        N[i] = {"neg": {"k": "neg", "e": inner}, "not": {"k": "not", "e": inner}, "try": {"k": "try", "e": inner},
                "some": {"k": "ctor", "en": "Option", "v": "Some", "args": [inner], "call": True},
                "list": {"k": "list", "es": [inner]}, "fld": {"k": "fld", "e": inner, "f": "zz_f"}}[w]
    elif op == "arg":
        i = pick({"call", "ctor"})
        if i is None:
            return None
        n = N[i]
        c = rng.choice(["add", "drop", "swap", "nocall"])
        if c == "add":
            n["args"].append(add(_rand_lit(rng)))
            if n["k"] == "ctor":
                n["call"] = True
        elif c == "drop" and n["args"]:
            n["args"].pop(rng.randrange(len(n["args"])))
        elif c == "swap" and len(n["args"]) > 1:
            a, b = rng.sample(range(len(n["args"])), 2)
            n["args"][a], n["args"][b] = n["args"][b], n["args"][a]
        elif c == "nocall" and n["k"] == "ctor":
            n["call"] = not n["call"]
            if not n["call"]:
                n["args"] = []
        else:
            return None
    elif op == "field":
        i = pick({"rec"})
        if i is None or not N[i]["fs"]:
            return None
        n = N[i]
        c = rng.choice(["drop", "dup", "rename", "anon", "swapval"])
        x = rng.randrange(len(n["fs"]))
        if c == "drop":
            n["fs"].pop(x)
        elif c == "dup":
            n["fs"].append(dict(n["fs"][x]))
        elif c == "rename":
            n["fs"][x]["n"] = rng.choice([f["n"] for f in n["fs"]] + ["zz_f"])
        elif c == "anon":
            n["n"] = "" if n["n"] else rng.choice([d["n"] for d in D if d["k"] in ("record", "enum")] + ["ZzR"])
        elif len(n["fs"]) > 1:
            y = (x + 1) % len(n["fs"])
            n["fs"][x]["e"], n["fs"][y]["e"] = n["fs"][y]["e"], n["fs"][x]["e"]
        else:
            return None
    elif op == "arm":
        i = pick({"match"})
        if i is None or not N[i]["arms"]:
            return None
        arms = N[i]["arms"]
        c = rng.choice(["drop", "dup", "default-first", "unguard", "guard-true", "move"])
        x = rng.randrange(len(arms))
        if c == "drop":
            arms.pop(x)
        elif c == "dup":
            arms.insert(rng.randrange(len(arms) + 1), json.loads(json.dumps(arms[x])))
        elif c == "default-first":
            arms.insert(rng.randrange(len(arms)), {"v": "_", "bs": [], "hb": False, "g": [], "b": arms[x]["b"]})
        elif c == "unguard" and arms[x]["g"]:
            arms[x]["g"] = []
        elif c == "guard-true" and not arms[x]["g"]:
            arms[x]["g"] = [add({"k": "bool", "v": True})]
        elif c == "move" and len(arms) > 1:
            a = arms.pop(x)
            arms.insert(rng.randrange(len(arms) + 1), a)
        else:
            return None
    elif op == "pattern":
        i = pick({"match"})
        if i is None or not N[i]["arms"]:
            return None
        a = rng.choice(N[i]["arms"])
        c = rng.choice(["variant", "sibling", "sibling", "addbind", "dropbind", "dupbind"])
        if c == "sibling":
            # take over the variant and binding shape of another arm of the same match
            others = [o for o in N[i]["arms"] if o is not a and o["v"] not in ("_", a["v"])]
            if not others:
                return None
            o = rng.choice(others)
            a["v"], a["hb"] = o["v"], o["hb"]
            a["bs"] = ["zz_s%d" % k for k in range(len(o["bs"]))]
        elif c == "variant":
            a["v"] = rng.choice(["Some", "None", "Accept", "ZzV", "_"] + [v["n"] for d in D if d["k"] == "enum" for v in d["vs"]])
            if a["v"] == "_":
                a["bs"], a["hb"] = [], False
        elif c == "addbind" and a["v"] != "_":
            a["bs"].append("zz_b%d" % len(a["bs"]))
            a["hb"] = True
        elif c == "dropbind" and a["bs"]:
            a["bs"].pop()
            a["hb"] = bool(a["bs"])
        elif c == "dupbind" and len(a["bs"]) > 1:
            a["bs"][1] = a["bs"][0]
        else:
            return None
    elif op == "elem":
        i = pick({"list"})
        if i is None:
            return None
        n = N[i]
        if n["es"] and rng.random() < 0.5:
            N[n["es"][rng.randrange(len(n["es"]))] - 1] = _rand_lit(rng)
        else:
            n["es"].append(add(_rand_lit(rng)))
    elif op == "annot":
        i = pick({"let"})
        if i is None:
            return None
        N[i]["t"] = [] if (N[i]["t"] and rng.random() < 0.3) else [rng.choice(RANDOM_TYPES + [Named("ZzT")])]
    elif op == "dup-stmt":
        b = rng.choice(blocks)
        if not N[b]["ss"]:
            return None
        x = rng.randrange(len(N[b]["ss"]))
        N[b]["ss"].insert(rng.randrange(len(N[b]["ss"]) + 1), N[b]["ss"][x])
    elif op == "del-stmt":
        b = rng.choice(blocks)
        if N[b]["ss"] and rng.random() < 0.7:
            N[b]["ss"].pop(rng.randrange(len(N[b]["ss"])))
        elif N[b]["last"]:
            N[b]["last"] = []
        else:
            return None
    elif op == "swap-stmt":
        b = rng.choice(blocks)
        if len(N[b]["ss"]) < 2:
            return None
        x = rng.randrange(len(N[b]["ss"]) - 1)
        N[b]["ss"][x], N[b]["ss"][x + 1] = N[b]["ss"][x + 1], N[b]["ss"][x]
    elif op == "insert-exit":
        c = rng.choice(["ret", "try", "const-ret", "const-try"])
        if c in ("ret", "try"):
            b = rng.choice(blocks)
            if c == "ret":
                e = [] if rng.random() < 0.5 else [add(_rand_lit(rng))]
                s = add({"k": "ret", "kind": rng.choice(["return", "accept", "reject"]), "e": e})
            else:
                some = add({"k": "ctor", "en": rng.choice(["Option", ""]), "v": "Some", "args": [add(I(1))], "call": True})
                s = add({"k": "try", "e": some})
            N[b]["ss"].insert(rng.randrange(len(N[b]["ss"]) + 1), s)
        else:
            cs = [d for d in D if d["k"] == "const"]
            if not cs:
                return None
            d = rng.choice(cs)
            if c == "const-ret":
                d["e"] = add({"k": "ret", "kind": "return", "e": [d["e"]]})
            else:
                some = add({"k": "ctor", "en": "Option", "v": "Some", "args": [d["e"]], "call": True})
                d["e"] = add({"k": "try", "e": some})
    elif op == "insert-assign":
        b = rng.choice(blocks)
        target = rng.choice(_names_in(P))
        val = add(V(target) if rng.random() < 0.6 else _rand_lit(rng))
        if rng.random() < 0.7:
            s = add({"k": "assign", "p": [target], "e": val})
        else:
            s = add({"k": "cassign", "op": "add", "p": [target], "e": val})
        N[b]["ss"].insert(rng.randrange(len(N[b]["ss"]) + 1), s)
    elif op == "suffix":
        i = pick({"int", "float"})
        if i is None:
            return None
        N[i]["suf"] = rng.choice(INT_TYS + [""]) if N[i]["k"] == "int" else rng.choice(FLOAT_TYS + [""])
    elif op == "dup-decl":
        d = json.loads(json.dumps(rng.choice(D)))
        if rng.random() < 0.5:
            d["n"] = rng.choice([x["n"] for x in D])
        else:
            pass
        D.insert(rng.randrange(len(D) + 1), d)
    elif op == "decl-type":
        d = rng.choice(D)
        t = rng.choice(RANDOM_TYPES + [Named("ZzT")] + [Named(x["n"]) for x in D if x["k"] in ("record", "enum")])
        if d["k"] == "const":
            d["t"] = t
        elif d["k"] == "fn" and (not d["ps"] or rng.random() < 0.5):
            d["ret"] = t
        elif d["k"] in ("fn", "filtermap") and d["ps"]:
            rng.choice(d["ps"])["t"] = t
        elif d["k"] == "record" and d["fs"]:
            rng.choice(d["fs"])["t"] = Opt(t) if rng.random() < 0.3 else t
        elif d["k"] == "enum" and d["vs"]:
            v = rng.choice(d["vs"])
            if v["ts"] and rng.random() < 0.5:
                v["ts"][rng.randrange(len(v["ts"]))] = t
            else:
                v["ts"].append(t)
        else:
            return None
    elif op == "member":
        d = rng.choice(D)
        key = {"record": "fs", "enum": "vs", "fn": "ps", "filtermap": "ps"}.get(d["k"])
        if key is None or not d[key]:
            return None
        c = rng.choice(["dup", "drop", "rename"])
        x = rng.randrange(len(d[key]))
        if c == "dup":
            d[key].append(json.loads(json.dumps(d[key][x])))
        elif c == "drop":
            d[key].pop(x)
        else:
            d[key][x]["n"] = rng.choice([m["n"] for m in d[key]] + ["zz_m"])
    return P, op


# --------------------------------------------------------------------------------- check
ALL_TYS = ["i8", "i16", "i32", "i64", "u8", "u16", "u32", "u64", "f32", "f64"]
FAMILIES = ["operand-bool", "operand-str", "logic-int", "cond-nonbool", "arg-count", "arg-type",
            "field-unknown", "field-dup", "field-drop", "field-access-unknown", "field-type",
            "name-undeclared", "name-out-of-scope", "match-drop-arm", "match-after-default",
            "match-dup-arm", "neg-unsigned", "exit-forbidden", "assign-non-local", "redeclare",
            "recursive-type", "recursive-const", "elem-type", "return-type", "let-type", "assign-type",
            "fallthrough-after-loop", "fallthrough-after-shortcircuit", "cassign-result-type", "match-rename-arm", "name-sibling-scope", "recursive-member",
            "namesake-exit", "namesake-operand", "namesake-return", "namesake-arg", "namesake-let", "namesake-field", "namesake-shadow",
            "method-receiver", "method-arg-type", "method-arg-count", "method-unknown", "fallthrough-after-branch"]
# the namesake dimension (script types declared under the name of a built-in type, Typing.tla "name resolution")
NS_FAMILIES = [f for f in FAMILIES if f.startswith("namesake-")]
NS_SHADOW_RULE = ("a type that cannot equal the expected one (or a recursive type) through a declaration that shadows a "
                  "built-in name")
# site kinds of the namesake families that must all occur among the certified mutants (anti-vacuity)
NS_SITE_KINDS = {"namesake-exit": ["try-ret", "accept-ret", "reject-ret"], "namesake-operand": ["op", "try-operand"],
                 "namesake-return": ["lit-ret", "ns-ret"]}
BUILTIN_NAMES = ["i8", "i16", "i32", "i64", "u8", "u16", "u32", "u64", "f32", "f64", "bool", "String", "IpAddr", "Prefix",
                 "Option", "List", "Verdict", "Result"]
NS_TIER = {
    # names, payload types of the templates, families applied to the namesake seeds, types whose seeds are renamed
    "quick": (["Option", "Verdict", "Result", "String", "bool", "u32", "List", "IpAddr"], ["i32"],
              NS_FAMILIES[:-1] + ["exit-forbidden", "return-type", "arg-type", "let-type", "operand-str", "cond-nonbool"], ["i32"]),
    "thorough": (BUILTIN_NAMES, ["i32", "u8"], [f for f in FAMILIES if f != "namesake-shadow"], ["i32", "u8", "f64"]),
}
# the method-call dimension (Typing.tla "methods"): candidate names for the edit "rename the method" (names only: whether a
# receiver has the method, with which parameters, is decided by the judgement).  Documented in docs/source/reference/std.
METHODS = {
    "String": ["append", "contains", "ends_with", "eq", "repeat", "replace", "rsplitn", "split", "splitn", "starts_with",
               "strip_prefix", "strip_suffix", "to_lowercase", "to_string", "to_uppercase", "trim", "trim_end", "trim_start",
               "bytes", "chars", "lines"],
    "List": ["capacity", "concat", "contains", "get", "index", "is_empty", "join", "len", "push", "swap"],
    "float": ["abs", "ceil", "floor", "is_finite", "is_infinite", "is_nan", "pow", "round", "sqrt", "to_string"],
    "IpAddr": ["eq", "is_ipv4", "is_ipv6", "to_canonical", "to_string"],
    "Prefix": ["addr", "eq", "len", "max_addr", "min_addr", "to_string"],
}
ALL_METHOD_NAMES = sorted({m for ms in METHODS.values() for m in ms})
# the receiver-less functions of the types (List.new, String.from_chars, Prefix.new): called through a value they are ill
# typed (no parameter for the receiver).  `xs.new()` on a list made the type checker panic on the pinned tree (index out of
# bounds in method_call / path_function_call), repaired by a fix: commit (F-C06-static-fn-called-as-method); they are
# candidate names of the renaming edits like every method name.
STATIC_FUNCTION_NAMES = ["new", "from_chars"]
METH_FAMILIES = ["method-receiver", "method-arg-type", "method-arg-count", "method-unknown"]
DIV_FAMILY = "fallthrough-after-branch"
METH_TIER = {
    # method names a call is renamed to, types of the divergence seeds, functions that get every shape up to depth 2
    "quick": (["len", "join", "contains", "to_string", "floor", "push", "get", "trim", "is_ipv4", "addr", "eq", "concat", "new"],
              ["i32"], ["dv1"]),
    "thorough": (ALL_METHOD_NAMES + STATIC_FUNCTION_NAMES, ["i32", "u8", "f64"], ["dv1", "dv2", "dv3", "dv4", "dv5"]),
}
# what must occur among the certified mutants of the new families (anti-vacuity; the tags are computed by TLC)
METH_SITE_KINDS = {"method-receiver": ["lit", "var", "field"], "method-arg-count": ["add", "drop"], "method-unknown": ["fresh", "other"]}
DIV_TAGS = ["if1", "ifelse", "match", "while", "for", "and", "or", "nested", "guarded-variant-arm-falls", "guarded-wildcard-arm-falls",
            "unguarded-variant-arm-falls", "unguarded-wildcard-arm-falls", "only-guarded-arms-fall"] + ["form%d" % k for k in range(1, 8)]
DIV_WHERE = ["fn-body", "filtermap-body", "let-init"]

# the rule list of the property statement; every rule must be hit by a family that produced mutants
RULES = ["operand type / arithmetic or ordering on non-numbers", "operand type", "condition type",
         "wrong argument count", "argument type", "missing, duplicate or unknown record field", "field type",
         "unknown or out-of-scope name", "non-exhaustive match", "unreachable match arm",
         "negating an unsigned value", "?, accept/reject or return where the enclosing item forbids it",
         "assigning to something that is not a local variable", "redeclaring a name in the same scope",
         "recursive types or constants", "element type", "return type", "assigned value type", NS_SHADOW_RULE]


def mc_cfg(path, tys, max_members, tier):
    def tla_set(xs):
        return "{%s}" % ", ".join('"%s"' % x for x in xs)
    names, ns_tys, ns_fams, ren_tys = NS_TIER[tier]
    swap, div_tys, div_deep = METH_TIER[tier]
    with open(path, "w") as f:
        f.write("SPECIFICATION MCSpec\nCONSTANTS\n  NumTys = %s\n  Families = %s\n  MaxMembers = %d\n"
                "  NsNames = %s\n  NsTys = %s\n  NsFamilies = %s\n  RenameTys = %s\n"
                "  SwapMethods = %s\n  DivTys = %s\n  DivDeepFns = %s\n"
                "INVARIANTS SeedWellTyped MutantIllTyped Emit\nCHECK_DEADLOCK FALSE\n"
                % (tla_set(tys), tla_set(FAMILIES), max_members, tla_set(names), tla_set(ns_tys),
                   tla_set(ns_fams if ns_fams is not None else FAMILIES), tla_set(ren_tys if ren_tys is not None else tys),
                   tla_set(swap), tla_set(div_tys), tla_set(div_deep)))


def norm_msg(res):
    """first line of a panic message with numbers abstracted (scope / temporary ids differ per program)"""
    msg = str(res.get("panic", res.get("crash", "")))
    line = msg.strip().splitlines()[0] if msg.strip() else ""
    return re.sub(r"[0-9]+", "N", line)[:110]


def features(prog):
    """syntactic features of a program that crash signatures refer to (representation level only)"""
    fs = set()
    for n in prog["nodes"]:
        if n["k"] == "match" and any(a["v"] == "_" and a["g"] for a in n["arms"]):
            fs.add("guarded-wildcard-arm")
        if (n["k"] == "ctor" and n["en"] in ("Option", "") and n["v"] == "None") or (n["k"] == "list" and not n["es"]):
            fs.add("none-or-empty-list-literal")
    return "+".join(sorted(fs)) or "-"


def panic_sig(res, prog):
    """signature fields of a crash of the compiler (C06-type finding seen while checking C07)"""
    oc = vlib.outcome_of(res)
    stage = {0: "parse", 1: "typecheck", 2: "lower/codegen"}.get(res.get("step"), "?")
    return {"kind_of_failure": "compiler-crash", "outcome": oc.split(":")[0], "stage": stage, "message": norm_msg(res),
            "features": features(prog)}


def short(res):
    r = dict(res)
    if "panic" in r:
        r["panic"] = str(r["panic"])[:160]
    return r


def classify(res):
    """harness result -> 'ok' | 'type' | 'parse' | 'other-error' | 'crash-accepted' | 'crash'"""
    oc = vlib.outcome_of(res)
    if oc != "returned":
        return "crash-accepted" if res.get("step") == 2 else "crash"
    r = res["r"]
    if r["outcome"] == "ok":
        return "ok"
    kinds = r.get("kinds") or []
    if kinds and all(k == "type" for k in kinds):
        return "type"
    if "parse" in kinds:
        return "parse"
    return "other-error"


def namesake_guard(tier, seeds, mutants, ev):
    """anti-vacuity of the namesake dimension: the seeds and certified mutants TLC emitted really declare script types
    under built-in names, for every name and declaration kind of the tier, and every kind of confusion occurs"""
    names = NS_TIER[tier][0]
    ns_seeds = [c for c in seeds if c.get("cls") == "ns"]
    templ = {}
    for c in ns_seeds:
        if c["seed"].startswith("ns_"):
            _, n, kind, _t = c["seed"].split("_")
            if n not in c["ns"]:
                raise vlib.ToolError("namesake seed %s does not declare a type called %s" % (c["seed"], n))
            templ.setdefault(n, set()).add(kind)
    renamed = [c for c in ns_seeds if "~" in c["seed"]]
    missing = [n for n in names if templ.get(n) != {"record", "enum", "genum"}]
    if missing:
        raise vlib.ToolError("vacuous namesake dimension: no record/enum/generic-enum template seed for %s" % missing)
    if not renamed:
        raise vlib.ToolError("vacuous namesake dimension: the renaming operator produced no well-typed seed")
    per_family = {f: {} for f in NS_FAMILIES}
    kinds = {}
    for m in mutants:
        if m["family"] not in per_family:
            continue
        if not m["ns"]:
            raise vlib.ToolError("namesake mutant without a namesake declaration: %s %s" % (m["seed"], m["site"]))
        for n in m["ns"]:
            per_family[m["family"]][n] = per_family[m["family"]].get(n, 0) + 1
        w = m["site"].get("w")
        if w:
            kinds[(m["family"], w)] = kinds.get((m["family"], w), 0) + 1
    lacking = [(f, w) for f, ws in NS_SITE_KINDS.items() for w in ws if not kinds.get((f, w))]
    lacking += [("namesake-exit", n) for n in names if not per_family["namesake-exit"].get(n)]
    lacking += [(f, "fewer than 3 built-in names") for f in NS_FAMILIES if f != "namesake-field" and len(per_family[f]) < 3]
    if lacking:
        raise vlib.ToolError("vacuous namesake dimension: no certified mutant for %s" % lacking)
    ns_all = [m for m in mutants if m.get("cls") == "ns"]
    ev.extra["namesake"] = {
        "builtin_names": names,
        "template_seeds": sum(1 for c in ns_seeds if c["seed"].startswith("ns_")),
        "renamed_seeds": len(renamed),
        "mutants_of_namesake_seeds_all_families": len(ns_all),
        "mutants_per_namesake_family_and_builtin_name": per_family,
        "site_kinds": {"%s/%s" % k: v for k, v in sorted(kinds.items())},
    }


def method_div_guard(tier, seeds, mutants, ev):
    """anti-vacuity of the method-call and divergence-accounting dimensions: the seeds really call methods (every documented
    method of the fragment legally, every receiver form), each new family has certified mutants of every kind of site, and the
    exit / fall-through shapes TLC built cover every construct, arm form and position named in METH_SITE_KINDS / DIV_TAGS"""
    def walk(prog):
        for n in prog["nodes"]:
            if n["k"] == "mcall":
                yield n, prog["nodes"][n["e"] - 1]
    used, recv_forms = {}, {}
    for c in seeds:
        if c.get("cls") == "twin":
            continue
        for n, r in walk(c["prog"]):
            used[n["m"]] = used.get(n["m"], 0) + 1
            recv_forms[r["k"]] = recv_forms.get(r["k"], 0) + 1
    view_methods = {"bytes", "chars", "lines"}       # results outside the fragment: known to the judgement, not used by seeds
    unused = [m for m in ALL_METHOD_NAMES if m not in used and m not in view_methods]
    if unused:
        raise vlib.ToolError("vacuous method dimension: no well-typed seed calls %s" % unused)
    lacking = [k for k in ("var", "fld", "call", "list", "str", "int", "bin", "mcall", "try") if not recv_forms.get(k)]
    if lacking:
        raise vlib.ToolError("vacuous method dimension: no seed has a receiver of the form %s" % lacking)
    kinds, per_method = {}, {}
    for m in mutants:
        if m["family"] in METH_FAMILIES:
            w = m["site"].get("w", "-")
            kinds[(m["family"], w)] = kinds.get((m["family"], w), 0) + 1
            meth = [n["m"] for n in m["prog"]["nodes"] if n["k"] == "mcall"]
            if not meth:
                raise vlib.ToolError("method mutant without a method call: %s %s" % (m["seed"], m["site"]))
    # receiver edits per called method (the method of the edited call is the same in seed and mutant)
    for m in mutants:
        if m["family"] == "method-receiver":
            name = m["prog"]["nodes"][m["site"]["i"] - 1]["m"]
            per_method[name] = per_method.get(name, 0) + 1
    missing = [(f, w) for f, ws in METH_SITE_KINDS.items() for w in ws if not kinds.get((f, w))]
    missing += [("method-arg-type", "-")] if not kinds.get(("method-arg-type", "-")) else []
    # a receiver of another type must have been tried for every method the seeds call, in particular the non-generic List.join
    missing += [("method-receiver", m) for m in used if not per_method.get(m)]
    if missing:
        raise vlib.ToolError("vacuous method dimension: no certified mutant for %s" % missing)
    tags, where, per_where_tags = {}, {}, {}
    div = [m for m in mutants if m["family"] == DIV_FAMILY]
    for m in div:
        st = m["site"]
        where[st["w"]] = where.get(st["w"], 0) + 1
        for t in st["tags"]:
            tags[t] = tags.get(t, 0) + 1
            per_where_tags.setdefault(st["w"], set()).add(t)
    missing = [t for t in DIV_TAGS if not tags.get(t)] + [w for w in DIV_WHERE if not where.get(w)]
    # the guarded-arm forms must occur in every position (function body, filtermap body, initialiser block of a let)
    for w in DIV_WHERE:
        missing += [(w, t) for t in ("only-guarded-arms-fall", "guarded-variant-arm-falls", "guarded-wildcard-arm-falls", "if1")
                    if t not in per_where_tags.get(w, set())]
    twins = [c for c in seeds if c.get("cls") == "twin"]
    if missing or not twins:
        raise vlib.ToolError("vacuous divergence dimension: no certified mutant for %s (twin seeds: %d)" % (missing, len(twins)))
    ev.extra["method_calls"] = {
        "methods_called_by_seeds": used, "receiver_forms_in_seeds": recv_forms,
        "mutants_per_family_and_site_kind": {"%s/%s" % k: v for k, v in sorted(kinds.items())},
        "receiver_edits_per_method": per_method, "renamed_to": METH_TIER[tier][0],
    }
    ev.extra["divergence_shapes"] = {
        "mutants": len(div), "distinct_shapes": len({m["site"]["code"] for m in div}), "positions": where, "tags": tags,
        "twin_seeds_exiting_on_every_path": len(twins),
    }


def spec_to_impl(tier, ev, verd):
    """S->I: TLC-certified mutants of the TLC seeds are compiled by the real compiler."""
    d = vlib.workdir(PID, "cfg")
    cfg = os.path.join(d, "mc_%s.cfg" % tier)
    mc_cfg(cfg, ["i32", "u8", "f64"] if tier == "quick" else ALL_TYS, 2 if tier == "quick" else 3, tier)
    r = run_tlc("MCTyping", cfg, workers=6, timeout=1500, heap="8g", coverage=False)
    require_tlc_ok(r, "MCTyping (SeedWellTyped / MutantIllTyped)")
    ev.add_tlc(r)
    seeds = [c for c in r.replay if c["kind"] == "seed"]
    mutants = [c for c in r.replay if c["kind"] == "mutant"]
    # anti-vacuity: every family yields mutants, every rule of the statement is hit
    fam_count = {f: 0 for f in FAMILIES}
    rule_count = {x: 0 for x in RULES}
    for m in mutants:
        if m["family"] not in fam_count or m["rule"] not in rule_count:
            raise vlib.ToolError("unknown family/rule in TLC output: %s / %s" % (m["family"], m["rule"]))
        fam_count[m["family"]] += 1
        rule_count[m["rule"]] += 1
    missing = [f for f, n in fam_count.items() if n == 0] + [x for x, n in rule_count.items() if n == 0]
    if missing or not seeds:
        raise vlib.ToolError("vacuous model run: no mutants for %s (seeds=%d)" % (missing, len(seeds)))
    namesake_guard(tier, seeds, mutants, ev)
    method_div_guard(tier, seeds, mutants, ev)
    ev.extra["mutants_per_family"] = fam_count
    ev.extra["mutants_per_rule"] = rule_count
    ev.extra["tlc_seeds"] = len(seeds)
    cases = seeds + mutants
    for c in cases:
        c["src"] = to_source(c["prog"])
    results = vlib.run_batch("c07", [{"src": c["src"]} for c in cases], nproc=8, pid=PID, tag="mc_" + tier, stall=60)
    seeds_rejected = []
    rejected_ok = 0
    for c, res in zip(cases, results):
        cl = classify(res)
        if c["kind"] == "seed":
            ev.case({"seed": c["seed"], "src": c["src"]}, False)
            if cl == "ok":
                continue
            if cl in ("crash", "crash-accepted"):
                verd.report(panic_sig(res, c["prog"]), "the compiler crashed on the well-typed seed %s (C06-type finding): %s\n%s" %
                            (c["seed"], short(res), c["src"]), {"kind": "compile", "src": c["src"], "expect": "ok", "prog": c["prog"]})
            else:
                # a seed the judgement accepts but the compiler rejects: completeness / generator matter, not C07
                seeds_rejected.append((c["seed"], res.get("r", {}).get("msg", "")))
            continue
        ev.case({"seed": c["seed"], "family": c["family"], "site": c["site"], "src": c["src"]}, True, key=vlib.shash(c["src"]))
        ev.traces += 1
        ev.impl_actions.add(c["family"])
        rep = {"kind": "compile", "src": c["src"], "expect": "type-error", "seed": c["seed"], "family": c["family"],
               "rule": c["rule"], "site": c["site"], "lax_rule": c.get("lax_rule", ""), "prog": c["prog"]}
        if cl == "type":
            rejected_ok += 1
        elif cl in ("ok", "crash-accepted"):
            # a renamed arm leaves one variant covered twice AND another one uncovered: never the known duplicate-arm finding
            rule = c.get("lax_rule") or ("non-exhaustive-match+duplicate-variant-arm" if c["family"] == "match-rename-arm" else c["family"])
            after = "" if cl == "ok" else " (code generation then panicked: %s)" % norm_msg(res)
            verd.report({"kind_of_failure": "ill-typed-accepted", "rule": rule},
                        "ILL-TYPED SCRIPT ACCEPTED (edit %s at %s of seed %s breaks the rule \"%s\"; the judgement rejects it, "
                        "the type checker accepted it%s):\n%s" % (c["family"], c["site"], c["seed"], c["rule"], after, c["src"]), rep)
        elif cl == "parse":
            raise vlib.ToolError("printer defect: mutant does not parse (%s): %s\n%s" % (c["family"], res["r"]["msg"], c["src"]))
        elif cl == "crash":
            verd.report(panic_sig(res, c["prog"]), "the compiler crashed instead of reporting a type error (edit %s of seed %s): %s\n%s" %
                        (c["family"], c["seed"], short(res), c["src"]), rep)
        else:
            verd.report({"kind_of_failure": "not-a-type-error", "rule": c["family"]},
                        "ill-typed script rejected, but not with a type error report: %s\n%s" % (short(res), c["src"]), rep)
    if len(seeds_rejected) * 5 > len(seeds):
        raise vlib.ToolError("more than 20%% of the TLC seeds do not compile (generator defect): %s" % seeds_rejected[:5])
    # the twins of the fall-through shapes (every path exits) and the method seeds show that the compiler accepts the
    # constructs as such: if it does not, the mutants of those families would be rejected for another reason (vacuous)
    new_rejected = [n for n, _ in seeds_rejected if n.startswith(("twin_", "mstr_", "mlist_", "mip", "div_"))]
    if new_rejected:
        raise vlib.ToolError("seeds of the method / divergence dimension rejected by the compiler: %s" % new_rejected[:5])
    for name, msg in seeds_rejected:
        vlib.log("C07 completeness note: seed %s is accepted by the judgement but rejected by the compiler: %s" % (name, msg))
    ev.extra["tlc_seeds_rejected_by_compiler"] = [s for s, _ in seeds_rejected]
    ev.extra["tlc_mutants"] = len(mutants)
    ev.extra["tlc_mutants_rejected_with_type_error"] = rejected_ok
    return mutants


def validate_events(events, tag, ev):
    """TLC trace validation of compile events; returns (unmatched list, note ids)"""
    d = vlib.workdir(PID, "trace")
    path = os.path.join(d, "trace_%s.ndjson" % tag)
    vlib.write_ndjson(path, events)
    # same as vlib.validate_trace, with a metadir of its own (several validations run in parallel)
    r = run_tlc("TraceTyping", "TraceTyping.cfg", workers=1, env={"TRACE": path}, timeout=1800, heap="6g", deque=True,
                coverage=False, tag="UNMATCHED", metadir=vlib.workdir(PID, "tlcmeta_" + tag, clean=True))
    ev.add_tlc(r)
    if r.error or r.invariant_violated or r.deadlock or r.postcondition_failed:
        raise vlib.ToolError("trace validation failed to run (%s): %s\n%s" % (tag, r.error, r.stdout[-2000:]))
    notes = []
    for t, raw in r.prints:
        if t == "NOTE":
            notes.append(json.loads(vlib._unescape_tla(raw))["id"])
    seen = set()
    unmatched = []
    for u in r.replay:
        if u["id"] not in seen:
            seen.add(u["id"])
            unmatched.append(u)
    return unmatched, sorted(set(notes)), path


def impl_to_spec(tier, ev, verd):
    """I->S: random programs and blind single edits; every compile event is judged by TLC."""
    rng = random.Random(vlib.seed() * 13 + 7)
    nprog, chunk = (600, 1800) if tier == "quick" else (5000, 3000)
    items = []
    for _ in range(nprog):
        p = random_program(rng, size=3 if rng.random() < 0.8 else 5)
        items.append({"op": "seed", "prog": p})
        for _ in range(6):
            m = mutate(rng, p)
            if m:
                items.append({"op": m[1], "prog": m[0]})
    for k, it in enumerate(items):
        it["id"] = k
        it["src"] = to_source(it["prog"])
    results = vlib.run_batch("c07", [{"src": it["src"]} for it in items], nproc=8, pid=PID, tag="rec_" + tier, stall=60)
    events = []
    stats = {"seed-ok": 0, "seed-rejected": 0, "edit-ok": 0, "edit-rejected": 0, "parse-error": 0, "crash": 0}
    for it, res in zip(items, results):
        cl = classify(res)
        it["cl"] = cl
        it["res"] = res
        if cl in ("crash", "crash-accepted"):
            stats["crash"] += 1
        if cl == "crash":
            verd.report(panic_sig(res, it["prog"]), "the compiler crashed (C06-type finding) on a generated script (%s): %s\n%s" %
                        (it["op"], short(res), it["src"]), {"kind": "compile", "src": it["src"], "expect": "no-crash", "prog": it["prog"]})
        if cl in ("ok", "crash-accepted"):
            events.append({"id": it["id"], "prog": it["prog"], "outcome": "ok"})
        elif cl == "type":
            events.append({"id": it["id"], "prog": it["prog"], "outcome": "type"})
        elif cl == "parse":
            stats["parse-error"] += 1      # a blind edit outside the printable fragment: not an event
            continue
        elif cl == "other-error":
            verd.report({"kind_of_failure": "not-a-type-error", "rule": it["op"]},
                        "script rejected with an unexpected report: %s\n%s" % (short(res), it["src"]), {"kind": "compile", "src": it["src"]})
            continue
        if cl != "crash":
            key = ("seed" if it["op"] == "seed" else "edit") + ("-ok" if cl in ("ok", "crash-accepted") else "-rejected")
            stats[key] += 1
        ev.impl_actions.add("compile:" + it["op"])
    if stats["parse-error"] * 20 > len(items):
        raise vlib.ToolError("more than 5%% of the generated scripts do not parse (printer/generator defect)")
    from concurrent.futures import ThreadPoolExecutor
    parts = [events[i:i + chunk] for i in range(0, len(events), chunk)]
    notes_total = []
    with ThreadPoolExecutor(max_workers=3) as ex:
        futs = [ex.submit(validate_events, part, "%s_%d" % (tier, k), ev) for k, part in enumerate(parts)]
        for part, f in zip(parts, futs):
            unmatched, notes, path = f.result()
            byid = {e["id"]: e for e in part}
            ev.traces += len(part) - len(unmatched)
            notes_total += notes
            bad_ids = set()
            for u in unmatched:
                it = items[u["id"]]
                bad_ids.add(u["id"])
                rule = u.get("lax_rule") or ("blind:" + it["op"])
                after = "" if it["cl"] == "ok" else " (code generation then panicked: %s)" % norm_msg(it["res"])
                verd.report({"kind_of_failure": "ill-typed-accepted", "rule": rule},
                            "ILL-TYPED SCRIPT ACCEPTED (random edit '%s'): the judgement of Typing.tla rejects this program, the "
                            "type checker accepted it%s:\n%s" % (it["op"], after, it["src"]),
                            {"kind": "trace", "event": byid[u["id"]], "src": it["src"], "op": it["op"], "lax_rule": u.get("lax_rule", "")})
            # a crash after the type checker accepted a program the judgement accepts too: C06-type finding
            for e in part:
                it = items[e["id"]]
                if it["cl"] == "crash-accepted" and e["id"] not in bad_ids:
                    verd.report(panic_sig(it["res"], it["prog"]),
                                "the compiler crashed (C06-type finding) on a generated script the judgement accepts (%s): %s\n%s" %
                                (it["op"], short(it["res"]), it["src"]),
                                {"kind": "compile", "src": it["src"], "expect": "no-crash", "prog": it["prog"]})
    for i in notes_total[:10]:
        vlib.log("C07 completeness note (not a violation): accepted by the judgement, rejected by the compiler (%s): %s" %
                 (items[i]["op"], results[i]["r"]["msg"]))
    # how many rejected events did the judgement itself reject (the direction C07 asserts)
    rejected = sum(1 for e in events if e["outcome"] == "type")
    ev.extra["impl_events"] = dict(stats, total_events=len(events), completeness_notes=len(notes_total),
                                   judged_ill_typed_and_rejected=rejected - len(notes_total))
    ops = {}
    for it in items:
        ops[it["op"]] = ops.get(it["op"], 0) + 1
    missing = [o for o in MUT_OPS if ops.get(o, 0) == 0]
    if missing:
        raise vlib.ToolError("random edit operators never applied: %s" % missing)
    ev.extra["impl_edit_ops"] = ops
    # anti-vacuity of the namesake dimension on this side: random programs that declare a type under a built-in name
    # (and use it), and edits of such programs, really occur among the events TLC judged
    evid = {e["id"] for e in events}
    ns_seed = [it for it in items if it["op"] == "seed" and it["id"] in evid and namesakes_of(it["prog"])]
    ns_seed_ok = [it for it in ns_seed if it["cl"] == "ok"]
    ns_edit = [it for it in items if it["op"] != "seed" and it["id"] in evid and namesakes_of(it["prog"])]
    ns_names = sorted({n for it in ns_seed_ok for n in namesakes_of(it["prog"])})
    ev.extra["impl_namesake"] = {"random_programs_declaring_a_namesake": len(ns_seed), "of_these_compiled": len(ns_seed_ok),
                                 "edited_programs_declaring_a_namesake": len(ns_edit),
                                 "of_these_rejected": sum(1 for it in ns_edit if it["cl"] == "type"),
                                 "builtin_names_declared_in_compiled_programs": ns_names}
    if len(ns_seed_ok) * 10 < nprog or len(ns_names) < 3 or not ns_edit:
        raise vlib.ToolError("vacuous namesake dimension in the random programs: %s" % ev.extra["impl_namesake"])
    # the same for method calls and for the exit / fall-through shapes
    def methods_in(prog):
        return [n["m"] for n in prog["nodes"] if n["k"] == "mcall"]
    mc_seed_ok = [it for it in items if it["op"] == "seed" and it["cl"] == "ok" and methods_in(it["prog"])]
    mc_names = sorted({m for it in mc_seed_ok for m in methods_in(it["prog"])})
    per_op = {}
    for o in ("method", "fall-shape"):
        its = [it for it in items if it["op"] == o and it["id"] in evid]
        per_op[o] = {"events": len(its), "accepted": sum(1 for it in its if it["cl"] in ("ok", "crash-accepted")),
                     "rejected": sum(1 for it in its if it["cl"] == "type")}
    ev.extra["impl_methods_and_shapes"] = {"random_programs_calling_methods_compiled": len(mc_seed_ok),
                                           "method_names_in_compiled_programs": mc_names, "edits": per_op}
    # (whether a blind edit keeps a program well typed depends on the seed: only "the edits occur and some are rejected" is
    # required; VERIF_SEED=1 had 137 method edits, all rejected)
    if len(mc_seed_ok) * 4 < nprog or len(mc_names) < 10 or any(v["events"] == 0 or v["rejected"] == 0 for v in per_op.values()):
        raise vlib.ToolError("vacuous method / divergence dimension in the random programs: %s" % ev.extra["impl_methods_and_shapes"])
    if rejected - len(notes_total) < len(events) // 10:
        raise vlib.ToolError("vacuous trace: the judgement rejected only %d of %d events" % (rejected - len(notes_total), len(events)))
    return events


def binding_selfcheck(mutants, ev):
    """The trace binding must be able to reject: certified ill-typed mutants logged as 'ok' have to be UNMATCHED,
    logged as 'type' they have to be accepted."""
    pick = [m for m in mutants if not m.get("lax_rule")][:: max(1, len(mutants) // 6)][:6]
    # and one of each namesake family (the judgement has to resolve the shadowed names to reject them)
    for f in NS_FAMILIES + METH_FAMILIES + [DIV_FAMILY]:
        pick += [m for m in mutants if m["family"] == f][:1]
    # (the guarded-arm shapes: the judgement has to count the guarded arm for the divergence of the match)
    pick += [m for m in mutants if m["family"] == DIV_FAMILY and "only-guarded-arms-fall" in m["site"]["tags"]][:2]
    good = [{"id": k, "prog": m["prog"], "outcome": "type"} for k, m in enumerate(pick)]
    bad = [{"id": k, "prog": m["prog"], "outcome": "ok"} for k, m in enumerate(pick)]
    u1, _, _ = validate_events(good, "selfcheck_good", ev)
    u2, _, _ = validate_events(bad, "selfcheck_corrupt", ev)
    if u1 or len(u2) != len(bad):
        raise vlib.ToolError("trace binding self-check failed: faithful trace unmatched=%d, corrupted trace unmatched=%d of %d" %
                             (len(u1), len(u2), len(bad)))
    ev.extra["binding_selfcheck"] = "faithful trace of %d certified mutants accepted; same trace with outcome flipped to ok: %d/%d events rejected" % (len(good), len(u2), len(bad))


def run(tier):
    ev = Evidence(PID, tier)
    verd = Verdicts(PID)
    vlib.build_harness(["c07"])
    ev.rule = ("cases = programs compiled by the real compiler: (a) every (seed, edit family, site) mutant TLC certified ill-typed "
               "(invariant MutantIllTyped over all sites of all seeds), (b) random programs and blind random edits judged by TLC "
               "(TraceTyping); distinct = distinct source texts of certified mutants; non-trivial = the program is an edited one "
               "(seeds are not counted)")
    mutants = spec_to_impl(tier, ev, verd)
    binding_selfcheck(mutants, ev)
    impl_to_spec(tier, ev, verd)
    ev.exhaustive = True
    ev.assumptions = [
        "fragment: single module; i8..u64, f32, f64, bool, String, (), Option, List, named records and enums, anonymous record "
        "literals, Verdict of filtermaps, calls of the built-in methods of String / List / numbers / bool / IpAddr / Prefix on a value; "
        "no f-strings, receiver-less functions of types (List.new, String.from_chars, Prefix.new), generic functions declared in "
        "scripts, imports, runtime items",
        "a method call whose receiver has a type the judgement keeps open (un-suffixed literal, variable bound to one) is not decided",
        "the judgement keeps integer-literal variables / unresolved element and verdict types flexible (accepts more than roto "
        "there); only 'judgement rejects => compiler must reject with a type error' is asserted, completeness is not",
        "exhaustive = all sites of all edit families on the finite seed set of the tier; random programs beyond that are seeded samples",
        "an arm for a variant already covered by an earlier unguarded arm counts as 'unreachable match arm' (property statement)",
        "name resolution (Typing.tla Res / Norm): a record or enum declared under a built-in's name shadows the built-in wherever "
        "the name is written; `T?`, bare Some / None, literals, operators, accept / reject and filtermap verdicts stay built-in; "
        "no program declares an item called Some or None",
    ]
    rc = verd.finish()
    ev.write(len(verd.violations))
    return rc


def replay(path):
    obj = json.load(open(path))["replay"]
    vlib.build_harness(["c07"])
    verd = Verdicts(PID)
    ev = Evidence(PID, "quick")
    res = vlib.run_batch("c07", [{"src": obj["src"]}], nproc=1, pid=PID, tag="replay")[0]
    cl = classify(res)
    print("compiler:", cl, short(res))
    print(obj["src"])
    prog = obj.get("prog") or obj.get("event", {}).get("prog")
    accepted = cl in ("ok", "crash-accepted")
    ill = False
    if obj.get("kind") == "trace" and cl in ("ok", "crash-accepted", "type"):
        e = dict(obj["event"], outcome="type" if cl == "type" else "ok")
        unmatched, _, _ = validate_events([e], "replay", ev)
        for u in unmatched:
            ill = True
            verd.report({"kind_of_failure": "ill-typed-accepted", "rule": u.get("lax_rule") or ("blind:" + obj.get("op", "?"))},
                        "ill-typed script accepted (the judgement of Typing.tla rejects it):\n" + obj["src"], obj)
    elif obj.get("expect") == "type-error":
        if accepted:
            ill = True
            fam = obj.get("family", "?")
            verd.report({"kind_of_failure": "ill-typed-accepted", "rule": obj.get("lax_rule") or
                         ("non-exhaustive-match+duplicate-variant-arm" if fam == "match-rename-arm" else fam)},
                        "ill-typed script accepted:\n" + obj["src"], obj)
        elif cl not in ("type", "crash"):
            verd.report({"kind_of_failure": "not-a-type-error", "rule": obj.get("family", "?")}, "not a type error report: %s" % short(res), obj)
    if cl == "crash" or (cl == "crash-accepted" and not ill):
        verd.report(panic_sig(res, prog or {"nodes": []}), "the compiler crashed: %s\n%s" % (short(res), obj["src"]), obj)
    return verd.finish()
