"""C14 - constants are evaluated once, in dependency order, before any call.

Spec: spec/ConstOrder.tla (+ MCConstOrder.tla, TraceConstOrder.tla).
S->I: TLC enumerates dependency graphs of constants and functions (all graphs on
      <= 3 items exhaustively: every kind assignment, every edge set incl. self
      references, every set of context users; 4-6 items by `-simulate` with an
      edge-by-edge build phase and injected cycles / context uses).  For each graph
      TLC prints the specification's verdict (ok / rejected), the constants every
      constant has to wait for, the argument every initialiser passes to `mark`, and
      the value of every constant and function.  python only turns a graph into roto
      source (constants spread over modules, declaration order permuted, references
      direct / through calls / nested blocks / imports / other modules); the harness
      compiles it in a fresh Runtime and logs `mark` calls, the compile outcome and the
      values returned by getters and functions; these are compared with TLC's output.
I->S: the recorded events of every such compilation, plus those of larger seeded
      random graphs (7-10 items) that have no precomputed expectation, are
      concatenated into trace files which TLC validates against ConstOrder
      (TraceConstOrder.tla): any topological order passes; an early, repeated or
      missing evaluation, a mark before a rejection or a wrong value does not.
"""
import itertools
import time
import json
import os
import random
import re
from concurrent.futures import ThreadPoolExecutor

import vlib
from vlib import Evidence, Verdicts, run_tlc, require_tlc_ok, require_coverage

PID = "C14"
FUEL = 3
MODULUS = 1009
CTXVAL = 7

RUN_ACTIONS = ["MCEvalConst", "MCReject", "MCDone", "MCCall", "MCGet"]
BUILD_ACTIONS = ["MCAddEdge", "MCInjectEdge", "MCInjectCtx", "MCStart"]

# forms of a use site of an i32 value (constant, function result, integer context variable)
INT_FORMS = ["paren", "block", "letblock", "ifelse", "cond", "match", "hostarg", "neg", "method", "methodarg", "fstring",
             # two reads of which the textually first lies on a path that is not executed (a branch not taken, a loop
             # body that runs zero times, a match arm not selected): the second read must still see the value
             "skipthen", "skiploop", "skiparm"]
PATH_ONLY_FORMS = ("method", "cond")     # need a path (constant / context variable), not a call
# forms of a use site of the String context variable
STR_FORMS = ["s_hostarg", "s_method", "s_method2", "s_len", "s_cond", "s_methodarg", "s_fstring", "s_letblock", "s_eq"]

LAYOUTS = [
    [[]],
    [[], ["m1"], ["m2"]],
    [[], ["m1"], ["m1", "m2"], ["m3"]],
    [[], ["m1"], ["m1", "m2"], ["m1", "m2", "m3"]],
]


# ------------------------------------------------------------------ TLC side

def mc_cfg(path, n, mode, maxctx=0, minedges=0, maxedges=0, maxinject=0, emit=True):
    with open(path, "w") as f:
        f.write("""SPECIFICATION MCSpec
CONSTANTS
  Fuel = %d
  Modulus = %d
  CtxVal = %d
  N = %d
  Mode = "%s"
  MaxCtx = %d
  MinEdges = %d
  MaxEdges = %d
  MaxInject = %d
INVARIANTS Inv%s
CHECK_DEADLOCK FALSE
""" % (FUEL, MODULUS, CTXVAL, n, mode, maxctx, minedges, maxedges, maxinject, " Emit" if emit else ""))


def graph_key(c):
    return json.dumps([c["n"], c["kind"], sorted(map(tuple, c["refs"])), sorted(c["ctx"])])


def normalise(c):
    c["refs"] = sorted([list(e) for e in c["refs"]])
    c["ctx"] = sorted(c["ctx"])
    c["deps"] = [sorted(d) for d in c["deps"]]
    return c


def generate_graphs(tier, ev):
    """All graphs on <= 3 items (exhaustive) + simulated graphs on 4-6 items, each with
    the specification's verdict and expected observations."""
    d = vlib.workdir(PID, "cfg")
    graphs = {}
    cov = {}
    exhaustive = []

    def add(r, family):
        for c in r.replay:
            c = normalise(c)
            c["family"] = family
            graphs.setdefault(graph_key(c), c)
        for a, (_, tot) in r.coverage.items():
            cov[a] = cov.get(a, 0) + tot

    for n in (1, 2, 3):
        cfg = os.path.join(d, "all_%d.cfg" % n)
        maxctx = 1 if (tier == "quick" and n == 3) else n
        mc_cfg(cfg, n, "all", maxctx=maxctx)
        r = run_tlc("MCConstOrder", cfg, workers=6, timeout=1200, coverage=True)
        require_tlc_ok(r, "MCConstOrder all graphs N=%d" % n)
        ev.add_tlc(r)
        before = len(graphs)
        add(r, "all%d" % n)
        expect = (2 ** n) * (2 ** (n * n)) * sum(1 for k in range(2 ** n) if bin(k).count("1") <= maxctx)
        if len(graphs) - before != expect:
            raise vlib.ToolError("MCConstOrder N=%d emitted %d graphs, expected %d" % (n, len(graphs) - before, expect))
        exhaustive.append("N=%d (context users <= %d): %d graphs, %d states" % (n, maxctx, expect, r.distinct))
    require_coverage_counts(cov, RUN_ACTIONS, "exhaustive runs")

    # seeded simulation: graphs on 4..6 items built edge by edge, optionally damaged
    if tier == "quick":
        plan = [(4, 2, 6, 1, 60), (5, 4, 9, 2, 60), (6, 5, 11, 1, 60), (6, 3, 8, 0, 40), (5, 1, 5, 2, 40)]
    else:
        plan = [(n, lo, hi, inj, 700) for (n, lo, hi) in
                [(4, 1, 4), (4, 3, 8), (5, 2, 6), (5, 5, 11), (6, 3, 8), (6, 6, 14)] for inj in (0, 1, 2)]
        plan = [(n, lo, hi, inj, 60) for (n, lo, hi, inj, _) in plan]
    jobs = []
    for k, (n, lo, hi, inj, num) in enumerate(plan):
        cfg = os.path.join(d, "sim_%d.cfg" % k)
        mc_cfg(cfg, n, "build", minedges=lo, maxedges=hi, maxinject=inj)
        jobs.append((cfg, hi + inj + n + 6, num, vlib.seed() + k))
    simcov = {}
    with ThreadPoolExecutor(max_workers=5) as ex:
        futs = [ex.submit(run_tlc, "MCConstOrder", cfg, workers=1, simulate=num, depth=depth, timeout=1200,
                          tlc_seed=sd, coverage=True,
                          metadir=vlib.workdir("_tlc", "MCConstOrder_" + os.path.basename(cfg), clean=True))
                for (cfg, depth, num, sd) in jobs]
        for f in futs:
            r = f.result()
            if r.error or r.invariant_violated or r.rc != 0:
                require_tlc_ok(r, "MCConstOrder simulate")
            ev.add_tlc(r)
            before = dict(cov)
            add(r, "sim")
            for a in cov:
                simcov[a] = simcov.get(a, 0) + cov[a] - before.get(a, 0)
    require_coverage_counts(simcov, BUILD_ACTIONS + RUN_ACTIONS, "simulation runs")
    ev.extra["mc_action_counts"] = cov
    return [graphs[k] for k in sorted(graphs)], exhaustive


def require_coverage_counts(cov, actions, what):
    missing = [a for a in actions if cov.get(a, 0) == 0]
    if missing:
        raise vlib.ToolError("%s: spec actions never taken (vacuous model run): %s" % (what, missing))


# ------------------------------------------------- graph -> roto source (mapping)

def item_name(g, i):
    return ("C%d" if g["kind"][i - 1] == "c" else "f%d") % i


def qual(a, b, name, style):
    """path of `name` declared in module b as written inside module a"""
    if style == "abs":
        return ".".join(["pkg"] + b + [name])
    p = 0
    while p < len(a) and p < len(b) and a[p] == b[p]:
        p += 1
    return ".".join(["super"] * (len(a) - p) + b[p:] + [name])


def make_script(g, rng, layout_idx=None, order=None):
    """Map a dependency graph to a roto script (list of source files) + the functions to call.
    Only representation choices are made here (names, modules, declaration order, the
    syntactic form of every reference); each edge i->j is mentioned exactly once in the
    body of i and contributes exactly one term to its sum."""
    n = g["n"]
    layout = LAYOUTS[layout_idx if layout_idx is not None else rng.randrange(len(LAYOUTS))]
    nmod = len(layout)
    home = {i: rng.randrange(nmod) for i in range(1, n + 1)}
    order = list(order) if order is not None else rng.sample(range(1, n + 1), n)
    succ = {i: [] for i in range(1, n + 1)}
    for (i, j) in g["refs"]:
        succ[i].append(j)
    imports = {m: [] for m in range(nmod)}       # module-level import lines
    imported = {m: {} for m in range(nmod)}       # module -> imported identifier -> module it comes from
    styles_used = set()
    # Identifiers are a rendering choice.  naming = unique: C<i> / f<i>; shared: items of DIFFERENT modules may
    # have the same identifier (unique only inside a module), every reference still designates the intended
    # item (plain inside its module, by path or a non-clashing import from elsewhere).
    naming = "shared" if nmod > 1 and rng.random() < 0.6 else "unique"
    styles_used.add("naming:" + naming)
    names = {}
    if naming == "unique":
        names = {i: item_name(g, i) for i in range(1, n + 1)}
    else:
        used = {m: set() for m in range(nmod)}
        for i in rng.sample(range(1, n + 1), n):
            pool = ["KA", "KB", "KC", "KD", "KE", "KF", "KG", "KH", "KI", "KJ"] if g["kind"][i - 1] == "c" else \
                   ["ga", "gb", "gc", "gd", "ge", "gf", "gg", "gh", "gi", "gj"]
            free = [x for x in pool if x not in used[home[i]]]
            names[i] = rng.choice(free[:2])
            used[home[i]].add(names[i])
    declared = {m: {names[i] for i in names if home[i] == m} for m in range(nmod)}
    # same identifier at both ends of a dependency chain through one other item, in different modules
    for (a, y) in g["refs"]:
        for (y2, b) in g["refs"]:
            if y2 == y and a != b and y not in (a, b) and names[a] == names[b] and home[a] != home[b]:
                kinds = g["kind"][a - 1] + g["kind"][y - 1] + g["kind"][b - 1]
                styles_used.add("samename:" + {"ccc": "const-const-const", "cfc": "const-fn-const",
                                               "fcf": "fn-const-fn", "fff": "fn-fn-fn"}[kinds])

    def mention(m, j, call_arg):
        """expression of value `item j`, written inside module index m"""
        a, b = layout[m], layout[home[j]]
        name = names[j]
        local_import = None
        if home[j] == m:
            how = rng.choice(["plain", "plain", "plain", "abs"])
        else:
            how = rng.choice(["abs", "rel", "import_top", "import_local"])
            # an import must not clash with a declaration of this module or with another import
            if how in ("import_top", "import_local") and name in declared[m]:
                how = rng.choice(["abs", "rel"])
            if how == "import_top" and imported[m].get(name, home[j]) != home[j]:
                how = rng.choice(["abs", "rel"])
            if how == "import_local" and name in imported[m] and imported[m][name] != home[j]:
                how = rng.choice(["abs", "rel"])
        if how == "plain":
            path = name
        elif how in ("abs", "rel"):
            path = qual(a, b, name, how)
        elif how == "import_top":
            if name not in imported[m]:
                imported[m][name] = home[j]
                imports[m].append("import %s;" % qual(a, b, name, rng.choice(["abs", "rel"])))
            path = name
        else:
            local_import = "import %s;" % qual(a, b, name, rng.choice(["abs", "rel"]))
            path = name
        styles_used.add("path:" + how)
        e = path if call_arg is None else "%s(%s)" % (path, call_arg)
        role = "const" if call_arg is None else "fn"
        return use_int(e, role, "t%d" % j, local_import, call_arg is None)

    def use_int(e, role, tmp, local_import, is_path):
        """one use site of the i32 expression e (a constant path, a function call, a context variable)"""
        forms = INT_FORMS if is_path else [f for f in INT_FORMS if f not in PATH_ONLY_FORMS]
        wrap = rng.choice(forms + ["direct"])
        if local_import and wrap not in ("block", "letblock", "cond", "skiploop"):
            wrap = "block"
        styles_used.add("use:%s:%s" % (role, wrap))
        imp = (local_import + " ") if local_import else ""
        if wrap == "direct":
            return e
        if wrap == "paren":
            return "(%s)" % e
        if wrap == "block":
            return "({ %s%s })" % (imp, e)
        if wrap == "letblock":
            return "({ %slet %s = %s; %s })" % (imp, tmp, e, tmp)
        if wrap == "ifelse":
            return "(if 1 == 1 { %s } else { 0 })" % e
        if wrap == "skipthen":
            return "(if 1 == 2 { %s } else { %s })" % (e, e)
        if wrap == "skiploop":
            return "({ %slet %s = 0; while 1 == 2 { %s = %s; } (%s + %s) })" % (imp, tmp, tmp, e, e, tmp)
        if wrap == "skiparm":
            return "(match Option.Some(1) { None => %s, Some(%s) => %s })" % (e, tmp, e)
        if wrap == "cond":
            # the only use site is a loop condition; the loop counts up to the value (0 <= value < Modulus)
            return "({ %slet %s = 0; while %s < %s { %s = %s + 1; } %s })" % (imp, tmp, tmp, e, tmp, tmp, tmp)
        if wrap == "match":
            return "(match Option.Some(%s) { Some(%s) => %s, None => 0 })" % (e, tmp, tmp)
        if wrap == "hostarg":
            return "keep(%s)" % e
        if wrap == "method":
            return "num(%s.to_string())" % e
        if wrap == "methodarg":
            return 'num("".append(f"{%s}"))' % e
        if wrap == "fstring":
            return 'num(f"{%s}")' % e
        return "(0 - (0 - %s))" % e

    def use_ctx():
        """one use site of a context variable; its value is CtxVal"""
        if rng.random() < 0.5:
            return use_int(rng.choice(["ctxv", "ctxw"]), "ctx", "x", None, True)
        form = rng.choice(STR_FORMS)
        styles_used.add("use:ctx:" + form)
        sv = str(CTXVAL)
        return {
            "s_hostarg": "num(ctxs)",
            "s_method": "num(ctxs.to_uppercase())",
            "s_method2": "num(ctxs.trim())",
            "s_len": "(if ctxs.bytes().len() == %d { %d } else { 0 })" % (len(sv), CTXVAL),
            "s_cond": '(if ctxs.contains("%s") { %d } else { 0 })' % (sv, CTXVAL),
            "s_methodarg": 'num("".append(ctxs))',
            "s_fstring": 'num(f"{ctxs}")',
            "s_letblock": "num({ let x = ctxs; x })",
            "s_eq": '(if ctxs == "%s" { %d } else { 0 })' % (sv, CTXVAL),
        }[form]

    def terms(i, in_fn):
        m = home[i]
        ts = []
        for j in rng.sample(succ[i], len(succ[i])):
            if g["kind"][j - 1] == "c":
                ts.append(mention(m, j, None))
            else:
                ts.append(mention(m, j, "n - 1" if in_fn else str(FUEL)))
        if i in g["ctx"]:
            ts.insert(rng.randrange(len(ts) + 1), use_ctx())
        return ts

    decls = {m: [] for m in range(nmod)}
    for i in order:
        m = home[i]
        name = names[i]
        if g["kind"][i - 1] == "c":
            ts = terms(i, False)
            s = " + ".join(ts) if ts else "0"
            st = rng.randrange(3)
            styles_used.add("const:%d" % st)
            if st == 0:
                init = "mark(%d, %s)" % (i, s)
            elif st == 1:
                init = "{ let s = %s; mark(%d, s) }" % (s, i)
            else:
                init = "keep(mark(%d, %s))" % (i, s)
            decls[m].append("const %s: i32 = %s;" % (name, init))
        else:
            ts = terms(i, True)
            st = rng.randrange(3)
            styles_used.add("fn:%d" % st)
            if st == 0:
                s = " + ".join(ts) if ts else "0"
                body = "if n <= 0 { 0 } else { (%s) %% %d }" % (s, MODULUS)
            elif st == 1:
                s = " + ".join(ts) if ts else "0"
                body = "if n <= 0 { return 0; } let s = %s; s %% %d" % (s, MODULUS)
            else:
                lets = " ".join("let a%d = %s;" % (k, t) for k, t in enumerate(ts))
                s = " + ".join("a%d" % k for k in range(len(ts))) if ts else "0"
                body = "if n <= 0 { return 0; } %s (%s) %% %d" % (lets, s, MODULUS)
            decls[m].append("fn %s(n: i32) -> i32 { %s }" % (name, body))
    # Observers (not items of the graph: nothing depends on them).  Observation is optional in ConstOrder
    # (Get / Call may or may not happen) but evaluation is not: a constant that nothing reads, that is read
    # only by other unread constants, only in unreachable code, or only by functions nobody calls still
    # has to be evaluated exactly once.  observe = all: a getter per constant and every function called;
    # some: each with probability 1/2; none: no getter, no call.
    observe = rng.choice(["all", "some", "some", "none"])
    styles_used.add("observe:" + observe)
    gets, calls = [], []
    helper = {}
    for i in range(1, n + 1):
        watched = observe == "all" or (observe == "some" and rng.random() < 0.5)
        if g["kind"][i - 1] == "c":
            m = rng.randrange(nmod)
            path = names[i] if m == home[i] else qual(layout[m], layout[home[i]], names[i], rng.choice(["abs", "rel"]))
            if watched:
                gname = "get_c%d" % i
                decls[m].insert(rng.randrange(len(decls[m]) + 1), "fn %s() -> i32 { %s }" % (gname, path))
                gets.append({"id": i, "name": ".".join(layout[m] + [gname])})
                helper[i] = "getter"
            else:
                # possibly a mention in code that can never run (never called by the harness either)
                h = rng.choice(["none", "none", "after_return", "after_return2", "if_false"])
                helper[i] = h
                if h == "after_return":
                    decls[m].insert(rng.randrange(len(decls[m]) + 1), "fn late_c%d(x: i32) -> i32 { return x; %s }" % (i, path))
                elif h == "after_return2":
                    decls[m].insert(rng.randrange(len(decls[m]) + 1),
                                    "fn late_c%d(x: i32) -> i32 { if x > 0 { return 1; } else { return 2; } keep(%s) }" % (i, path))
                elif h == "if_false":
                    decls[m].insert(rng.randrange(len(decls[m]) + 1), "fn never_c%d() -> i32 { if false { %s } else { 0 } }" % (i, path))
        elif watched:
            calls.append({"id": i, "name": ".".join(layout[home[i]] + [names[i]]), "arg": FUEL})
    # families of constants that nothing live reads (classification only, for the vacuity guard)
    called = {c["id"] for c in calls}
    readers = {i: {a for (a, b) in g["refs"] if b == i} for i in range(1, n + 1)}
    isc = lambda i: g["kind"][i - 1] == "c"
    lonely = lambda i: isc(i) and not readers[i] and helper[i] != "getter"          # no reader at all in the graph
    for i in range(1, n + 1):
        if not isc(i) or helper[i] == "getter":
            continue
        if not readers[i]:
            styles_used.add("unread:constant" if helper[i] == "none" else "unread:unreachable-code-only")
        elif all(lonely(r) and helper[r] == "none" for r in readers[i]):
            styles_used.add("unread:chain")
        elif all((not isc(r)) and r not in called and readers[r] <= {r} for r in readers[i]):
            styles_used.add("unread:uncalled-function-only")
    files = []
    for m, p in enumerate(layout):
        children = [k for k, q in enumerate(layout) if len(q) == len(p) + 1 and q[:len(p)] == p]
        if not p:
            fname = "pkg.roto"
        elif children:
            fname = "/".join(p) + "/mod.roto"
        else:
            fname = "/".join(p) + ".roto"
        src = "\n".join(imports[m] + decls[m]) + "\n"
        files.append({"name": fname, "module": p[-1] if p else "pkg", "children": children, "src": src})
    use_ctx = bool(g["ctx"]) or rng.random() < 0.25
    return ({"files": files, "ctx": use_ctx, "ctxv": CTXVAL, "modulus": MODULUS, "calls": calls, "gets": gets},
            styles_used)


def graph_of(c):
    return {"n": c["n"], "kind": c["kind"], "refs": c["refs"], "ctx": c["ctx"]}


def random_graph(rng):
    """Seeded generator of larger graphs for the I->S direction (no expectations attached)."""
    n = rng.randrange(7, 11)
    kind = [rng.choice("ccf") if rng.random() < 0.7 else "f" for _ in range(n)]
    rank = rng.sample(range(n), n)
    p = rng.choice([0.12, 0.2, 0.3])
    refs = set()
    for i in range(n):
        for j in range(n):
            if rank[i] < rank[j] and rng.random() < p:
                refs.add((i + 1, j + 1))
            elif kind[i] == "f" and kind[j] == "f" and rng.random() < 0.08:
                refs.add((i + 1, j + 1))          # recursion among functions (also self)
    ctx = set()
    dice = rng.random()
    if dice < 0.2:
        refs.add((rng.randrange(n) + 1, rng.randrange(n) + 1))      # arbitrary extra edge
    elif dice < 0.45:
        for _ in range(rng.choice([1, 1, 2])):
            ctx.add(rng.randrange(n) + 1)
    return {"n": n, "kind": kind, "refs": sorted(list(e) for e in refs), "ctx": sorted(ctx)}


# --------------------------------------------------------------- comparisons

ERR_CYCLE = "recursively defined"
ERR_CTX = "depends on a context variable"


def short(g):
    return "n=%d kind=%s refs=%s ctx=%s" % (g["n"], "".join(g["kind"]), g["refs"], g["ctx"])


def check_outcome(g, hc, res, verd):
    """crash / panic / hang of roto are data. Returns True if the case returned normally."""
    oc = vlib.outcome_of(res)
    if oc == "returned":
        return True
    detail = re.sub(r"pkg(\.\w+)+", "<item>", str(res.get("panic", res.get("crash", "hang"))))[:120]
    verd.report({"kind_of_failure": oc.split(":")[0], "detail": detail},
                "compiling / calling the generated script did not return normally (%s): %s; graph %s" %
                (oc, {k: res[k] for k in res if k != "i"}, short(g)),
                {"graph": g, "hcase": hc, "result": res})
    return False


def compare(c, hc, res, verd):
    """S->I: compare what the real crate did with what TLC computed from ConstOrder."""
    g = graph_of(c)
    if not check_outcome(g, hc, res, verd):
        return False
    r = res["r"]
    rep = {"graph": g, "expect": c, "hcase": hc, "result": r}
    base = {"verdict": c["verdict"], "why": c["why"]}
    marks = [m["k"] for m in r["marks"]]
    if c["verdict"] == "rejected":
        if r["compile"] == "ok":
            verd.report(dict(base, kind_of_failure="accepted-invalid"),
                        "spec rejects the script (%s) but it compiled; marks during compile: %s; graph %s" %
                        (c["why"], marks, short(g)), rep)
            return False
        if r["kinds"] != ["type"] or not (ERR_CYCLE in r["error"] or ERR_CTX in r["error"]):
            raise vlib.ToolError("generated script was rejected for an unrelated reason (generator bug?): %s\n%s" %
                                 (r["error"], json.dumps(hc["files"], indent=1)))
        if marks:
            verd.report(dict(base, kind_of_failure="mark-before-reject"),
                        "constants %s were evaluated although the compilation was rejected; graph %s" % (marks, short(g)), rep)
            return False
        return True
    if r["compile"] != "ok":
        if r["kinds"] != ["type"] or not (ERR_CYCLE in r["error"] or ERR_CTX in r["error"]):
            raise vlib.ToolError("generated script does not compile for an unrelated reason (generator bug?): %s\n%s" %
                                 (r["error"], json.dumps(hc["files"], indent=1)))
        verd.report(dict(base, kind_of_failure="rejected-valid"),
                    "spec accepts the script but roto rejected it: %s; graph %s" % (r["error"], short(g)), rep)
        return False
    if r["missing"]:
        verd.report(dict(base, kind_of_failure="function-missing"),
                    "functions of the compiled package could not be retrieved: %s; graph %s" % (r["missing"], short(g)), rep)
        return False
    consts = [i for i in range(1, c["n"] + 1) if c["kind"][i - 1] == "c"]
    if sorted(marks) != consts:
        kind = "evaluated-twice" if len(set(marks)) < len(marks) else "missing-evaluation"
        verd.report(dict(base, kind_of_failure=kind),
                    "constants evaluated during compile: %s, expected each of %s exactly once; graph %s" % (marks, consts, short(g)), rep)
        return False
    seen = set()
    for m in r["marks"]:
        need = set(c["deps"][m["k"] - 1])
        if not need <= seen:
            verd.report(dict(base, kind_of_failure="evaluated-early"),
                        "constant %d evaluated before its dependencies %s (order %s); graph %s" %
                        (m["k"], sorted(need - seen), marks, short(g)), rep)
            return False
        if m["s"] != c["sums"][m["k"] - 1]:
            verd.report(dict(base, kind_of_failure="wrong-dependency-values"),
                        "initialiser of constant %d saw dependency sum %d, spec says %d (order %s); graph %s" %
                        (m["k"], m["s"], c["sums"][m["k"] - 1], marks, short(g)), rep)
            return False
        seen.add(m["k"])
    if r["marks_after"]:
        verd.report(dict(base, kind_of_failure="evaluated-after-compile"),
                    "constants evaluated again after compilation: %s; graph %s" % (r["marks_after"], short(g)), rep)
        return False
    for o in r["obs"]:
        if o["v"] != c["vals"][o["id"] - 1]:
            verd.report(dict(base, kind_of_failure="wrong-observed-value", what=o["what"]),
                        "%s of item %d returned %d, spec says %d; graph %s" %
                        (o["what"], o["id"], o["v"], c["vals"][o["id"] - 1], short(g)), rep)
            return False
    return True


def events_of(g, r):
    """the recorded run of one case as ConstOrder trace events"""
    evs = [dict(op="graph", **g)]
    for m in r["marks"]:
        evs.append({"op": "mark", "k": m["k"], "s": m["s"]})
    evs.append({"op": "compile", "ok": r["compile"] == "ok"})
    if r["compile"] == "ok":
        for o in r["obs"]:
            evs.append({"op": o["what"], "id": o["id"], "v": o["v"]})
        for m in r["marks_after"]:
            evs.append({"op": "mark", "k": m["k"], "s": m["s"]})
    return evs


def validate_file(path, timeout=1500, heap="6g"):
    """vlib.validate_trace with a private TLC metadir (several validations run concurrently)"""
    name = os.path.basename(path).replace(".ndjson", "")
    return run_tlc("TraceConstOrder", "TraceConstOrder.cfg", workers=1, env={"TRACE": path}, timeout=timeout, heap=heap,
                   deque=True, coverage=False, tag="UNMATCHED",
                   metadir=vlib.workdir("_tlc", "TraceConstOrder_" + name, clean=True))


def validate_runs(runs, verd, ev, tag, nfiles=4):
    """I->S: runs = [(graph, hcase, result_r)].  Concatenate into nfiles trace files, validate each
    with TLC; a rejected case is reported and removed, the rest of its file validated again.
    Returns number of accepted runs."""
    d = vlib.workdir(PID, "trace")
    parts = [runs[k::nfiles] for k in range(nfiles)]
    parts = [p for p in parts if p]

    def one(k, part):
        part = list(part)
        accepted = 0
        tlcs = []
        bad = []
        for attempt in range(6):
            path = os.path.join(d, "%s_%d.ndjson" % (tag, k))
            events, owner = [], []
            for idx, (g, hc, r) in enumerate(part):
                es = events_of(g, r)
                events.extend(es)
                owner.extend([idx] * len(es))
            vlib.write_ndjson(path, events)
            if not events:
                break
            tr = validate_file(path)
            tlcs.append(tr)
            if tr.ok:
                accepted = len(part)
                break
            if tr.postcondition_failed and tr.replay:
                un = tr.replay[0]
                idx = owner[un["line"] - 1]
                bad.append((part[idx], un))
                part = part[:idx] + part[idx + 1:]
                continue
            raise vlib.ToolError("trace validation failed to run: %s\n%s" % (tr.error, tr.stdout[-2000:]))
        else:
            raise vlib.ToolError("more than 5 rejected cases in one trace file; giving up on %s_%d" % (tag, k))
        return accepted, tlcs, bad, part

    total = 0
    with ThreadPoolExecutor(max_workers=len(parts) or 1) as ex:
        futs = [ex.submit(one, k, p) for k, p in enumerate(parts)]
        for f in futs:
            accepted, tlcs, bad, part = f.result()
            for tr in tlcs:
                ev.add_tlc(tr)
            total += accepted
            for (g, hc, r) in part:
                for e in events_of(g, r):
                    ev.impl_actions.add({"mark": "EvalConst", "compile": "Done" if e.get("ok") else "Reject",
                                         "call": "Call", "get": "Get", "graph": "Init"}[e["op"]])
            for ((g, hc, r), un) in bad:
                e = un["ev"]
                verd.report({"kind_of_failure": "trace-rejected", "op": e.get("op", "?"),
                             "compile": r["compile"]},
                            "recorded compilation is not a behaviour of ConstOrder: first unmatched event %s "
                            "(events of the case: %s); graph %s" % (e, events_of(g, r)[1:12], short(g)),
                            {"graph": g, "hcase": hc, "result": r, "unmatched": un})
    return total


def selfcheck_binding(runs):
    """Anti-vacuity of the trace binding: hand-corrupted variants of an accepted recorded run must be
    rejected by TraceConstOrder (a swapped dependent pair, a repeated mark, a wrong value, a mark
    before a rejection)."""
    d = vlib.workdir(PID, "trace")
    good = rej = None
    for (g, hc, r) in runs:
        if r["compile"] == "ok" and good is None:
            ks = [m["k"] for m in r["marks"]]
            dep = [(a, b) for (a, b) in g["refs"] if a in ks and b in ks and a != b]
            if dep and r["obs"]:
                good = (g, r, dep[0])
        if r["compile"] == "err" and rej is None and any(k == "c" for k in g["kind"]):
            rej = (g, r)
        if good and rej:
            break
    if not good or not rej:
        return None
    g, r, (a, b) = good
    base = events_of(g, r)
    ia = next(i for i, e in enumerate(base) if e["op"] == "mark" and e["k"] == a)
    ib = next(i for i, e in enumerate(base) if e["op"] == "mark" and e["k"] == b)
    swapped = list(base)
    swapped[ia], swapped[ib] = swapped[ib], swapped[ia]
    twice = base[:ia + 1] + [base[ia]] + base[ia + 1:]
    missing = base[:ia] + base[ia + 1:]
    io = next(i for i, e in enumerate(base) if e["op"] in ("get", "call"))
    wrong = [dict(e) for e in base]
    wrong[io]["v"] = (wrong[io]["v"] + 1) % MODULUS
    g2, r2 = rej
    base2 = events_of(g2, r2)
    c2 = g2["kind"].index("c") + 1
    early = [base2[0], {"op": "mark", "k": c2, "s": 0}] + base2[1:]
    variants = {"intact": base + base2, "swapped": swapped, "twice": twice, "missing": missing, "wrong-value": wrong,
                "mark-before-reject": early}

    def one(name):
        path = os.path.join(d, "selfcheck_%s.ndjson" % name)
        vlib.write_ndjson(path, variants[name])
        tr = validate_file(path, timeout=600, heap="2g")
        if not tr.ok and not tr.postcondition_failed:
            raise vlib.ToolError("self-check trace validation failed to run: %s" % tr.error)
        return name, tr.ok
    with ThreadPoolExecutor(max_workers=6) as ex:
        res = dict(ex.map(one, list(variants)))
    if not res["intact"]:
        raise vlib.ToolError("self-check: the intact trace was rejected")
    wrongly = [n for n, ok in res.items() if n != "intact" and ok]
    if wrongly:
        raise vlib.ToolError("self-check: corrupted traces were accepted by TraceConstOrder: %s" % wrongly)
    return sorted(n for n in res if n != "intact")


# ----------------------------------------------------------------------- run

def nontrivial(g):
    """the ordering / rejection mechanism is exercised: some constant mentions another item or the context"""
    consts = {i for i in range(1, g["n"] + 1) if g["kind"][i - 1] == "c"}
    return any(a in consts for (a, b) in g["refs"]) or any(i in consts for i in g["ctx"])


def run(tier):
    ev = Evidence(PID, tier)
    verd = Verdicts(PID)
    try:
        return run_body(tier, ev, verd)
    except vlib.ToolError as e:
        if not verd.violations:
            raise
        # never let a tool problem hide violations that were already found
        vlib.log("C14: tool error after violations were found: %s" % str(e)[:500])
        rc = verd.finish()
        ev.write(len(verd.violations))
        return rc


def run_body(tier, ev, verd):
    vlib.build_harness(["c14"])
    rng = random.Random(vlib.seed() * 31 + 14)
    ev.rule = ("case = (dependency graph, generated script); distinct = distinct (graph, script text); non-trivial = "
               "some constant of the graph references another item or the context (so ordering or rejection is "
               "exercised); cases with only independent constants / only functions are counted in evaluations only")
    graphs, exhaustive = generate_graphs(tier, ev)
    vlib.log("C14: %d graphs from TLC (%.0fs)" % (len(graphs), time.time() - ev.t0))

    # S->I: every TLC graph -> scripts (several representations), run, compare;
    # I->S (a): the recorded runs of these cases must be behaviours of ConstOrder.
    # Done in chunks of graphs to bound memory.
    styles = set()
    fam = {}
    picked = {}
    nscripts = 0
    selfchecked = False
    # the small graphs first is fine, but mix families so that every chunk has accepted and rejected runs
    rng.shuffle(graphs)
    chunk = 12000 if tier == "quick" else 4000
    # a small first chunk: on a broken tree (thousands of crashing workers are slow) violations show up early
    bounds = [0, min(2000, len(graphs))] + list(range(2000 + chunk, len(graphs), chunk)) + [len(graphs)]
    bounds = sorted(set(bounds))
    for lo, hi in zip(bounds, bounds[1:]):
        cases = []   # (expectation, hcase)
        for c in graphs[lo:hi]:
            g = graph_of(c)
            n = g["n"]
            if tier == "quick":
                # accepted scripts: single file + random module layout; rejected ones: random layout only
                variants = [(0, None), (None, None)] if c["verdict"] == "ok" or n < 3 else [(None, None)]
            else:
                if n <= 3:
                    # every declaration order in a single file + two random module layouts
                    variants = [(0, p) for p in itertools.permutations(range(1, n + 1))] + [(None, None), (None, None)]
                else:
                    variants = [(0, None), (1, None), (2, None), (3, None)]
            for (lay, order) in variants:
                hc, st = make_script(g, rng, lay, order)
                if c["verdict"] != "ok":
                    # nothing is evaluated there: does not count for these families
                    st = {x for x in st if not x.startswith(("unread:", "samename:"))}
                styles |= st
                cases.append((c, hc))
        nscripts += len(cases)
        results = vlib.run_batch("c14", [hc for (_, hc) in cases], nproc=8, pid=PID, tag="s2i", stall=30)
        runs = []
        for (c, hc), res in zip(cases, results):
            g = graph_of(c)
            ok = compare(c, hc, res, verd)
            key = "%s/%s" % (c["verdict"], c["why"])
            fam[key] = fam.get(key, 0) + 1
            srcs = [f["src"] for f in hc["files"]]
            ev.case({"graph": short(g), "verdict": c["verdict"], "files": srcs,
                     "marks": res.get("r", {}).get("marks")}, nontrivial(g),
                    key=vlib.shash([g, srcs]))
            if ok:
                ev.traces += 1
            if "r" in res:
                runs.append((g, hc, res["r"]))
                cat = None
                if c["verdict"] == "ok" and len(res["r"]["marks"]) >= 3 and len(hc["files"]) > 1 and len(g["refs"]) >= 4:
                    cat = "ok-multi-module"
                elif c["why"] == "cycle" and g["n"] >= 4 and len(hc["files"]) > 1:
                    cat = "rejected-cycle"
                elif c["why"] == "ctx" and g["n"] >= 4 and not any(g["kind"][i - 1] == "c" for i in g["ctx"]):
                    cat = "rejected-ctx-through-function"
                if cat and cat not in picked:
                    o = {"family": cat, "graph": short(g), "verdict": c["verdict"], "files": srcs,
                         "marks": res["r"]["marks"], "observed": [[o["what"], o["id"], o["v"]] for o in res["r"].get("obs", [])][:8]}
                    if len(json.dumps(o)) < 1500:
                        picked[cat] = o
        if not selfchecked:
            sc = selfcheck_binding(runs)
            if sc is not None:
                ev.extra["corrupted_traces_rejected"] = sc
                selfchecked = True
        ev.traces += validate_runs(runs, verd, ev, "s2i", nfiles=6)
        vlib.log("C14: %d scripts compiled, compared and validated (%.0fs)" % (nscripts, time.time() - ev.t0))
        if len(verd.violations) >= 25:
            vlib.log("C14: %d violations so far, not generating further cases" % len(verd.violations))
            rc = verd.finish()
            ev.write(len(verd.violations))
            return rc
    if not selfchecked and not verd.violations:
        raise vlib.ToolError("no suitable recorded run for the corruption self-check")
    want_styles = {"path:plain", "path:abs", "path:rel", "path:import_top", "path:import_local",
                   "const:0", "const:1", "const:2", "fn:0", "fn:1", "fn:2"}
    # every use form must occur in the constant role and in the context role (and, except the method
    # receiver form which needs a path, for function results)
    for f in INT_FORMS + ["direct"]:
        want_styles |= {"use:const:" + f, "use:ctx:" + f}
        if f not in PATH_ONLY_FORMS:
            want_styles.add("use:fn:" + f)
    want_styles |= {"use:ctx:" + f for f in STR_FORMS}
    # constants nothing (live) reads must occur: they still have to be evaluated exactly once
    # items of different modules sharing an identifier, in particular around a dependency chain
    want_styles |= {"naming:unique", "naming:shared", "samename:const-const-const", "samename:const-fn-const",
                    "samename:fn-const-fn"}
    want_styles |= {"observe:all", "observe:some", "observe:none", "unread:constant", "unread:chain",
                    "unread:unreachable-code-only", "unread:uncalled-function-only"}
    if want_styles - styles:
        raise vlib.ToolError("reference styles never generated: %s" % sorted(want_styles - styles))
    for k in ("ok/none", "rejected/cycle", "rejected/ctx", "rejected/cycle+ctx"):
        if not fam.get(k):
            raise vlib.ToolError("case family never generated: %s" % k)
    ev.extra["case_families"] = fam
    ev.extra["scripts_from_tlc_graphs"] = nscripts

    # I->S (b): larger seeded random graphs, no precomputed expectation: TLC decides from the trace alone
    nbig = 1500 if tier == "quick" else 12000
    big = []
    for _ in range(nbig):
        g = random_graph(rng)
        hc, _st = make_script(g, rng)
        big.append((g, hc))
    results = vlib.run_batch("c14", [hc for (_, hc) in big], nproc=8, pid=PID, tag="i2s", stall=30)
    runs2 = []
    nok = nerr = 0
    for (g, hc), res in zip(big, results):
        ev.case({"graph": short(g), "files": [f["src"] for f in hc["files"]]}, nontrivial(g),
                key=vlib.shash([g, [f["src"] for f in hc["files"]]]))
        if not check_outcome(g, hc, res, verd):
            continue
        r = res["r"]
        if r["compile"] == "err" and (r["kinds"] != ["type"] or not (ERR_CYCLE in r["error"] or ERR_CTX in r["error"])):
            raise vlib.ToolError("generated script was rejected for an unrelated reason (generator bug?): %s\n%s" %
                                 (r["error"], json.dumps(hc["files"], indent=1)))
        if r["compile"] == "ok" and r["missing"]:
            verd.report({"kind_of_failure": "function-missing"},
                        "functions of the compiled package could not be retrieved: %s; graph %s" % (r["missing"], short(g)),
                        {"graph": g, "hcase": hc, "result": r})
            continue
        nok += r["compile"] == "ok"
        nerr += r["compile"] == "err"
        runs2.append((g, hc, r))
    if nok < nbig // 5 or nerr < nbig // 20:
        raise vlib.ToolError("random graphs badly balanced: %d accepted, %d rejected of %d" % (nok, nerr, nbig))
    ev.extra["random_graphs"] = {"n": nbig, "compiled": nok, "rejected": nerr}
    ev.traces += validate_runs(runs2, verd, ev, "i2s", nfiles=4)

    vlib.log("C14: random graph traces validated (%.0fs)" % (time.time() - ev.t0))
    if picked:
        ev.samples = list(picked.values()) + [x for x in ev.samples if x.get("verdict") == "ok"][:1]
    ev.exhaustive = True
    ev.extra["exhaustive_parts"] = exhaustive
    ev.assumptions = [
        "scripts have the fixed shape modelled in ConstOrder (one mark call per initialiser, fuel-bounded functions); "
        "other initialiser shapes (strings, lists, records, runtime constants) are not generated",
        "exhaustive for all graphs on <= 3 items; 4-6 items seeded simulation; 7-10 items seeded python generator (I->S only)",
        "references are static mentions; every mentioned item is also used at run time",
        "only accept/reject is compared, never the diagnostic text (text is used only to detect a broken generator)",
        "the order among independent constants is free (any topological order is accepted)",
    ]
    rc = verd.finish()
    ev.write(len(verd.violations))
    return rc


def replay(path):
    obj = json.load(open(path))["replay"]
    vlib.build_harness(["c14"])
    verd = Verdicts(PID)
    ev = Evidence(PID, "quick")
    g, hc = obj["graph"], obj["hcase"]
    res = vlib.run_batch("c14", [hc], nproc=1, pid=PID, tag="replay")[0]
    if "expect" in obj:
        compare(obj["expect"], hc, res, verd)
    elif not check_outcome(g, hc, res, verd):
        return verd.finish()
    if "r" in res:
        validate_runs([(g, hc, res["r"])], verd, ev, "replay", nfiles=1)
    return verd.finish()
