"""C14 - constants are evaluated once, in dependency order, before any call.

Spec: spec/ConstOrder.tla (+ MCConstOrder.tla, TraceConstOrder.tla).
S->I: TLC enumerates dependency graphs of constants and functions (all graphs on
      <= 3 items exhaustively: every kind assignment, every edge set incl. self
      references, every set of context users; 4-6 items by `-simulate` with an
      edge-by-edge build phase and injected cycles / context uses).  For each graph
      TLC prints the specification's verdict (ok / rejected), the constants every
      constant has to wait for, the argument every initialiser passes to `mark`, and
      the value of every constant and function.  python only turns a graph into roto
      source (constants spread over modules, declaration order permuted, references
      direct / through calls / nested blocks / imports / other modules); the harness
      compiles it in a fresh Runtime and logs `mark` calls, the compile outcome and the
      values returned by getters and functions; these are compared with TLC's output.
      Value types and copies (ConstOrder.Types / Mut): the "typed" family gives the constants of all graphs on
      <= 2 items every combination of value types (i32, bool, (), empty record, record of units, record of
      scalars, i32?, nested record, String, List[i32]): each initialiser still calls mark / marku once, so a
      constant that is never evaluated or evaluated twice shows whatever it holds.  The "walk" family (TLC
      `-simulate`) adds a recorded programme of Call-phase actions to a typed graph: Mut (a function copies a
      constant into a local / a by-value parameter of a callee / takes it from a function that returns it,
      modifies the copy - whole value, field, nested field, push ... - and shows the copy and a fresh read of the
      constant), GetV (typed getter), Get, Call, each with the result TLC computed from ConstOrder: the stored
      value never changes, except that a push through a copy of a list constant is visible (lists are shared).
I->S: the recorded events of every such compilation, plus those of larger seeded
      random graphs (7-10 items) that have no precomputed expectation, are
      concatenated into trace files which TLC validates against ConstOrder
      (TraceConstOrder.tla): any topological order passes; an early, repeated or
      missing evaluation, a mark before a rejection or a wrong value does not.
"""
import itertools
import time
import json
import os
import random
import re
from concurrent.futures import ThreadPoolExecutor

import vlib
from vlib import Evidence, Verdicts, run_tlc, require_tlc_ok, require_coverage

PID = "C14"
FUEL = 3
MODULUS = 1009
CTXVAL = 7

RUN_ACTIONS = ["MCEvalConst", "MCReject", "MCDone", "MCCall", "MCGet"]
TYPED_ACTIONS = ["MCGetV", "MCMut"]

# value types of constants and the ways a copy can be modified: mirrors ConstOrder.Types / Hows (used to RENDER
# the cases TLC emits, to let the seeded python generator pick applicable modifications, and as the list the
# anti-vacuity guard wants to see; a disagreement with the spec is rejected by TLC: Mut requires h \in Hows(ty))
TYPES = ["i32", "bool", "unit", "erec", "urec", "rec2", "opt", "nest", "str", "list"]
ZERO_SIZED = ("unit", "erec", "urec")
HOWS = {"i32": ["whole", "add"], "bool": ["whole", "not"], "unit": ["whole"], "erec": ["whole"],
        "urec": ["whole", "field"], "rec2": ["whole", "field", "add"], "opt": ["whole", "none"],
        "nest": ["whole", "field", "deep", "sub"], "str": ["whole", "append"], "list": ["whole", "push"]}
VIAS = ["local", "param", "ret"]
RECORD_DECLS = {"P2": "record P2 { a: i32, b: i32 }", "N3": "record N3 { p: P2, c: i32 }",
                "U2": "record U2 { u: (), w: () }", "E0": "record E0 {}"}
BUILD_ACTIONS = ["MCAddEdge", "MCInjectEdge", "MCInjectCtx", "MCStart"]

# forms of a use site of an i32 value (constant, function result, integer context variable)
INT_FORMS = ["paren", "block", "letblock", "ifelse", "cond", "match", "hostarg", "neg", "method", "methodarg", "fstring",
             # two reads of which the textually first lies on a path that is not executed (a branch not taken, a loop
             # body that runs zero times, a match arm not selected): the second read must still see the value
             "skipthen", "skiploop", "skiparm"]
PATH_ONLY_FORMS = ("method", "cond")     # need a path (constant / context variable), not a call
# forms of a use site of the String context variable
STR_FORMS = ["s_hostarg", "s_method", "s_method2", "s_len", "s_cond", "s_methodarg", "s_fstring", "s_letblock", "s_eq"]

LAYOUTS = [
    [[]],
    [[], ["m1"], ["m2"]],
    [[], ["m1"], ["m1", "m2"], ["m3"]],
    [[], ["m1"], ["m1", "m2"], ["m1", "m2", "m3"]],
]


# ------------------------------------------------------------------ TLC side

def mc_cfg(path, n, mode, maxctx=0, minedges=0, maxedges=0, maxinject=0, emit=True, muton=False, ws=(0, 7, 40),
           maxlen=3, walklen=0):
    with open(path, "w") as f:
        f.write("""SPECIFICATION MCSpec
CONSTANTS
  Fuel = %d
  Modulus = %d
  CtxVal = %d
  N = %d
  Mode = "%s"
  MaxCtx = %d
  MinEdges = %d
  MaxEdges = %d
  MaxInject = %d
  MutOn = %s
  Ws = {%s}
  MaxLen = %d
  WalkLen = %d
INVARIANTS Inv%s
CHECK_DEADLOCK FALSE
""" % (FUEL, MODULUS, CTXVAL, n, mode, maxctx, minedges, maxedges, maxinject, "TRUE" if muton else "FALSE",
       ", ".join(str(w) for w in ws), maxlen, walklen, " Emit" if emit else ""))


def graph_key(c):
    return json.dumps([c["n"], c["kind"], sorted(map(tuple, c["refs"])), sorted(c["ctx"]), c["ty"], c["prog"]])


def normalise(c):
    c["refs"] = sorted([list(e) for e in c["refs"]])
    c["ctx"] = sorted(c["ctx"])
    c["deps"] = [sorted(d) for d in c["deps"]]
    c["ty"] = list(c["ty"])
    c["prog"] = list(c["prog"])
    return c


def generate_graphs(tier, ev):
    """All graphs on <= 3 items (exhaustive) + simulated graphs on 4-6 items, each with
    the specification's verdict and expected observations."""
    d = vlib.workdir(PID, "cfg")
    graphs = {}
    cov = {}
    exhaustive = []

    def add(r, family):
        keys = set()
        for c in r.replay:
            c = normalise(c)
            c["family"] = family
            keys.add(graph_key(c))
            graphs.setdefault(graph_key(c), c)
        for a, (_, tot) in r.coverage.items():
            cov[a] = cov.get(a, 0) + tot
        return len(keys)

    for n in (1, 2, 3):
        cfg = os.path.join(d, "all_%d.cfg" % n)
        maxctx = 1 if (tier == "quick" and n == 3) else n
        mc_cfg(cfg, n, "all", maxctx=maxctx)
        r = run_tlc("MCConstOrder", cfg, workers=6, timeout=1200, coverage=True)
        require_tlc_ok(r, "MCConstOrder all graphs N=%d" % n)
        ev.add_tlc(r)
        before = len(graphs)
        add(r, "all%d" % n)
        expect = (2 ** n) * (2 ** (n * n)) * sum(1 for k in range(2 ** n) if bin(k).count("1") <= maxctx)
        if len(graphs) - before != expect:
            raise vlib.ToolError("MCConstOrder N=%d emitted %d graphs, expected %d" % (n, len(graphs) - before, expect))
        exhaustive.append("N=%d (context users <= %d): %d graphs, %d states" % (n, maxctx, expect, r.distinct))
        if os.environ.get("C14_TIMING"):
            vlib.log("C14: TLC all N=%d: %.1fs" % (n, r.wall))
    require_coverage_counts(cov, RUN_ACTIONS, "exhaustive runs")

    # seeded simulation: graphs on 4..6 items built edge by edge, optionally damaged
    if tier == "quick":
        plan = [(4, 2, 6, 1, 60), (5, 4, 9, 2, 60), (6, 5, 11, 1, 60), (6, 3, 8, 0, 40), (5, 1, 5, 2, 40)]
    else:
        plan = [(n, lo, hi, inj, 700) for (n, lo, hi) in
                [(4, 1, 4), (4, 3, 8), (5, 2, 6), (5, 5, 11), (6, 3, 8), (6, 6, 14)] for inj in (0, 1, 2)]
        plan = [(n, lo, hi, inj, 60) for (n, lo, hi, inj, _) in plan]
    jobs = []
    for k, (n, lo, hi, inj, num) in enumerate(plan):
        cfg = os.path.join(d, "sim_%d.cfg" % k)
        mc_cfg(cfg, n, "build", minedges=lo, maxedges=hi, maxinject=inj)
        jobs.append(("sim", cfg, hi + inj + n + 6, num, vlib.seed() + k, None))
    # value types: every combination of types on all graphs with <= 2 items (exhaustive; the run phase includes
    # GetV / Mut where affordable) ...
    if tier == "quick":
        typed = [(1, 1, True, (0, 7, 40)), (2, 0, False, (0, 7))]
    else:
        typed = [(1, 1, True, (0, 7, 40)), (2, 1, True, (0, 7))]
    for (n, maxctx, muton, ws) in typed:
        cfg = os.path.join(d, "typed_%d.cfg" % n)
        mc_cfg(cfg, n, "typed", maxctx=maxctx, muton=muton, ws=ws)
        nctx = sum(1 for k in range(2 ** n) if bin(k).count("1") <= maxctx)
        expect = sum((len(TYPES) ** kk) * (2 ** (n * n)) * nctx for kk in
                     [sum(bits) for bits in itertools.product((0, 1), repeat=n)])
        jobs.append(("typed%d" % n, cfg, None, None, None, (n, maxctx, muton, expect)))
    # ... and recorded programmes of Call-phase actions (copies of constants modified by functions) on typed
    # graphs built edge by edge
    if tier == "quick":
        walks = [(3, 1, 5, 6, 70), (2, 0, 3, 5, 30)]
    else:
        walks = [(3, 2, 5, 6, 250), (2, 0, 3, 5, 120), (3, 0, 3, 4, 200), (3, 3, 7, 8, 200), (4, 2, 6, 6, 150)]
    for k, (n, lo, hi, wl, num) in enumerate(walks):
        cfg = os.path.join(d, "walk_%d.cfg" % k)
        mc_cfg(cfg, n, "walk", minedges=lo, maxedges=hi, walklen=wl, ws=(0, 7, 40), maxlen=4)
        jobs.append(("walk", cfg, hi + 2 * n + wl + 6, num, vlib.seed() + 100 + k, None))
    simcov = {}
    typedcov = {}

    def tlc_job(job):
        (fam, cfg, depth, num, sd, _x) = job
        md = vlib.workdir("_tlc", "MCConstOrder_" + os.path.basename(cfg), clean=True)
        if fam.startswith("typed"):
            return run_tlc("MCConstOrder", cfg, workers=1, timeout=1200, coverage=True, metadir=md)
        return run_tlc("MCConstOrder", cfg, workers=1, simulate=num, depth=depth, timeout=1200, tlc_seed=sd,
                       coverage=True, metadir=md)

    with ThreadPoolExecutor(max_workers=6) as ex:
        futs = [ex.submit(tlc_job, job) for job in jobs]
        for job, f in zip(jobs, futs):
            fam = job[0]
            r = f.result()
            if os.environ.get("C14_TIMING"):
                vlib.log("C14: TLC %s %s: %.1fs, %d cases" % (fam, os.path.basename(job[1]), r.wall, len(r.replay)))
            if r.error or r.invariant_violated or r.rc != 0:
                require_tlc_ok(r, "MCConstOrder %s" % fam)
            ev.add_tlc(r)
            before = dict(cov)
            ngr = add(r, fam)
            tgt = simcov if fam == "sim" else typedcov
            for a in cov:
                tgt[a] = tgt.get(a, 0) + cov[a] - before.get(a, 0)
            if fam.startswith("typed"):
                (n, maxctx, muton, expect) = job[5]
                if ngr != expect:
                    raise vlib.ToolError("MCConstOrder typed N=%d emitted %d graphs, expected %d" % (n, ngr, expect))
                exhaustive.append("typed N=%d (every combination of %d value types, context users <= %d, copies "
                                  "modified in the run phase: %s): %d graphs, %d states" %
                                  (n, len(TYPES), maxctx, "yes" if muton else "walks only", expect, r.distinct))
    require_coverage_counts(simcov, BUILD_ACTIONS + RUN_ACTIONS, "simulation runs")
    require_coverage_counts(typedcov, ["MCAddEdge", "MCStart"] + RUN_ACTIONS + TYPED_ACTIONS, "typed / walk runs")
    ev.extra["mc_action_counts"] = cov
    return [graphs[k] for k in sorted(graphs)], exhaustive


def require_coverage_counts(cov, actions, what):
    missing = [a for a in actions if cov.get(a, 0) == 0]
    if missing:
        raise vlib.ToolError("%s: spec actions never taken (vacuous model run): %s" % (what, missing))


# ------------------------------------------------- graph -> roto source (mapping)

def item_name(g, i):
    return ("C%d" if g["kind"][i - 1] == "c" else "f%d") % i


def qual(a, b, name, style):
    """path of `name` declared in module b as written inside module a"""
    if style == "abs":
        return ".".join(["pkg"] + b + [name])
    p = 0
    while p < len(a) and p < len(b) and a[p] == b[p]:
        p += 1
    return ".".join(["super"] * (len(a) - p) + b[p:] + [name])


def make_script(g, rng, layout_idx=None, order=None, prog=None):
    """Map a dependency graph to a roto script (list of source files) + the functions to call.
    Only representation choices are made here (names, modules, declaration order, the
    syntactic form of every reference); each edge i->j is mentioned exactly once in the
    body of i and contributes exactly one term to its sum.
    g["ty"]: value types of the constants (ConstOrder.Types); prog: the Call-phase programme (list of
    {"op": "mut"|"getv"|"get"|"call", "id": .., ["via", "how", "w"]}): one function per action."""
    n = g["n"]
    ty = {i: (g.get("ty") or ["i32"] * n)[i - 1] for i in range(1, n + 1)}
    layout = LAYOUTS[layout_idx if layout_idx is not None else rng.randrange(len(LAYOUTS))]
    nmod = len(layout)
    home = {i: rng.randrange(nmod) for i in range(1, n + 1)}
    order = list(order) if order is not None else rng.sample(range(1, n + 1), n)
    succ = {i: [] for i in range(1, n + 1)}
    for (i, j) in g["refs"]:
        succ[i].append(j)
    imports = {m: [] for m in range(nmod)}       # module-level import lines
    imported = {m: {} for m in range(nmod)}       # module -> imported identifier -> module it comes from
    styles_used = set()
    # Identifiers are a rendering choice.  naming = unique: C<i> / f<i>; shared: items of DIFFERENT modules may
    # have the same identifier (unique only inside a module), every reference still designates the intended
    # item (plain inside its module, by path or a non-clashing import from elsewhere).
    naming = "shared" if nmod > 1 and rng.random() < 0.6 else "unique"
    styles_used.add("naming:" + naming)
    names = {}
    if naming == "unique":
        names = {i: item_name(g, i) for i in range(1, n + 1)}
    else:
        used = {m: set() for m in range(nmod)}
        for i in rng.sample(range(1, n + 1), n):
            pool = ["KA", "KB", "KC", "KD", "KE", "KF", "KG", "KH", "KI", "KJ"] if g["kind"][i - 1] == "c" else \
                   ["ga", "gb", "gc", "gd", "ge", "gf", "gg", "gh", "gi", "gj"]
            free = [x for x in pool if x not in used[home[i]]]
            names[i] = rng.choice(free[:2])
            used[home[i]].add(names[i])
    declared = {m: {names[i] for i in names if home[i] == m} for m in range(nmod)}
    # same identifier at both ends of a dependency chain through one other item, in different modules
    for (a, y) in g["refs"]:
        for (y2, b) in g["refs"]:
            if y2 == y and a != b and y not in (a, b) and names[a] == names[b] and home[a] != home[b]:
                kinds = g["kind"][a - 1] + g["kind"][y - 1] + g["kind"][b - 1]
                styles_used.add("samename:" + {"ccc": "const-const-const", "cfc": "const-fn-const",
                                               "fcf": "fn-const-fn", "fff": "fn-fn-fn"}[kinds])

    # ---- value types: representation of ConstOrder.Store / Num / Flat / Apply in roto source
    # a record type is either one of the named records declared in the root module or an anonymous record type
    # (a constant of an anonymous record type cannot be passed to / returned by a function whose signature
    # spells the same anonymous type: roto reports mismatched types; those constants get the named type)
    spelled = {op["id"] for op in (prog or []) if op.get("via") in ("param", "ret")}
    anon = {i: ty[i] in ("urec", "rec2", "nest") and i not in spelled and rng.random() < 0.35 for i in ty}
    need_decl = set()

    def tpath(m, name):
        """a record type declared in the root module, as written inside module index m"""
        need_decl.add(name)
        if name == "N3":
            need_decl.add("P2")
        a = layout[m]
        if not a:
            return rng.choice([name, name, "pkg." + name])
        return rng.choice(["pkg." + name, ".".join(["super"] * len(a) + [name])])

    def tyexpr(m, i):
        t = ty[i]
        if t in ("i32", "bool"):
            return t
        if t == "unit":
            return "()"
        if t == "erec":
            return tpath(m, "E0")
        if t == "urec":
            return "{ u: (), w: () }" if anon[i] else tpath(m, "U2")
        if t == "rec2":
            return "{ a: i32, b: i32 }" if anon[i] else tpath(m, "P2")
        if t == "opt":
            return "i32?"
        if t == "nest":
            return "{ p: { a: i32, b: i32 }, c: i32 }" if anon[i] else tpath(m, "N3")
        return {"str": "String", "list": "List[i32]"}[t]

    def p2lit(m, i, a, b):
        return ("{ a: %s, b: %s }" if anon[i] else tpath(m, "P2") + " { a: %s, b: %s }") % (a, b)

    def build(m, i, v, pure):
        """expression of type ty[i] with the value ConstOrder.Store(ty[i], v); v is an i32 expression that is
        evaluated exactly once (pure: v is a literal, nothing has to be evaluated for a type without leaves)"""
        t = ty[i]
        if t == "i32":
            return v
        if t == "bool":
            return "(%s %% 2 == 1)" % v
        if t in ZERO_SIZED:
            if t == "unit":
                lit = "()"
            elif t == "erec":
                lit = tpath(m, "E0") + " {}"
            else:
                lit = "{ u: (), w: () }" if anon[i] else tpath(m, "U2") + " { u: (), w: () }"
            if pure:
                return lit
            if t == "unit":
                return rng.choice(["{ %s; }" % v, "{ let v = %s; () }" % v])
            return "{ %s; %s }" % (v, lit)
        if t == "rec2":
            return "{ let v = %s; %s }" % (v, p2lit(m, i, "v", "(v + 1) %% %d" % MODULUS))
        if t == "opt":
            return "{ let v = %s; if v %% 2 == 1 { Some(v) } else { None } }" % v
        if t == "nest":
            inner = p2lit(m, i, "v", "(v + 1) %% %d" % MODULUS)
            outer = "{ p: %s, c: %s }" if anon[i] else tpath(m, "N3") + " { p: %s, c: %s }"
            return "{ let v = %s; %s }" % (v, outer % (inner, "(v + 2) %% %d" % MODULUS))
        if t == "str":
            if pure:
                return '"%s"' % v
            return rng.choice(['{ let v = %s; f"{v}" }', "{ let v = %s; v.to_string() }"]) % v
        return "[%s]" % v

    def num_expr(i, pth):
        """i32 expression with the value ConstOrder.Num(ty[i], value of the path expression pth)"""
        t = ty[i]
        if t == "i32":
            return pth
        if t == "bool":
            return "(if %s { 1 } else { 0 })" % pth
        if t in ("unit", "erec"):
            return rng.choice(["({ %s; 0 })", "({ let z = %s; 0 })"]) % pth
        if t == "urec":
            return rng.choice(["({ %s.u; %s.w; 0 })" % (pth, pth), "({ let z = %s; z.u; 0 })" % pth])
        if t == "rec2":
            return "(%s.a + %s.b)" % (pth, pth)
        if t == "opt":
            return "(match %s { Some(o) => o, None => 0 })" % pth
        if t == "nest":
            return "(%s.p.a + %s.p.b + %s.c)" % (pth, pth, pth)
        if t == "str":
            return "num(%s)" % pth
        return "({ let z = 0; for e in %s { z = z + e; } z })" % pth

    def flat_stmts(i, x, out):
        """statements that bind the String `out` to the rendering of ConstOrder.Flat(ty[i], value of x): the
        leaves in decimal, separated by commas"""
        t = ty[i]
        if t == "i32":
            return 'let %s = f"{%s}";' % (out, x)
        if t == "bool":
            return 'let %s = if %s { "1" } else { "0" };' % (out, x)
        if t in ("unit", "erec"):
            return '%s; let %s = "";' % (x, out)
        if t == "urec":
            return '%s.u; let %s = "";' % (x, out)
        if t == "rec2":
            return 'let %s = f"{%s.a},{%s.b}";' % (out, x, x)
        if t == "opt":
            return 'let %s = match %s { Some(o) => f"1,{o}", None => "0" };' % (out, x)
        if t == "nest":
            return 'let %s = f"{%s.p.a},{%s.p.b},{%s.c}";' % (out, x, x, x)
        if t == "str":
            return "let %s = %s;" % (out, x)
        return 'let %s = f"{%s.len()}"; for e in %s { %s = %s.append(f",{e}"); }' % (out, x, x, out, out)

    def modify(m, i, how, w):
        """statements that apply ConstOrder.Apply(ty[i], q, how, w) to the variable q"""
        t = ty[i]
        if how == "whole":
            return "q = %s;" % build(m, i, str(w), True)
        if how == "add":
            lhs = "q" if t == "i32" else "q.a"
            return rng.choice(["%s = %s + %d;" % (lhs, lhs, w), "%s += %d;" % (lhs, w)])
        if how == "not":
            return "q = !q;"
        if how == "field":
            return {"urec": "q.u = ();", "rec2": "q.b = %d;" % w, "nest": "q.c = %d;" % w}[t]
        if how == "deep":
            return "q.p.b = %d;" % w
        if how == "sub":
            return "q.p = %s;" % p2lit(m, i, str(w), "(%d + 1) %% %d" % (w, MODULUS))
        if how == "none":
            return "q = None;"
        if how == "append":
            return 'q = q.append("%d");' % (w % 10)
        if how == "push":
            return "q.push(%d);" % w
        raise vlib.ToolError("unknown modification %s" % how)

    def cpath(m, j):
        """constant / function j as written inside module index m (no import)"""
        if home[j] == m:
            return rng.choice([names[j], names[j], qual(layout[m], layout[m], names[j], "abs")])
        return qual(layout[m], layout[home[j]], names[j], rng.choice(["abs", "rel"]))

    in_fn_now = [False]

    def mention(m, j, call_arg):
        """expression of value `item j`, written inside module index m"""
        a, b = layout[m], layout[home[j]]
        name = names[j]
        local_import = None
        if home[j] == m:
            how = rng.choice(["plain", "plain", "plain", "abs"])
        else:
            how = rng.choice(["abs", "rel", "import_top", "import_local"])
            # an import must not clash with a declaration of this module or with another import
            if how in ("import_top", "import_local") and name in declared[m]:
                how = rng.choice(["abs", "rel"])
            if how == "import_top" and imported[m].get(name, home[j]) != home[j]:
                how = rng.choice(["abs", "rel"])
            if how == "import_local" and name in imported[m] and imported[m][name] != home[j]:
                how = rng.choice(["abs", "rel"])
        if how == "plain":
            path = name
        elif how in ("abs", "rel"):
            path = qual(a, b, name, how)
        elif how == "import_top":
            if name not in imported[m]:
                imported[m][name] = home[j]
                imports[m].append("import %s;" % qual(a, b, name, rng.choice(["abs", "rel"])))
            path = name
        else:
            local_import = "import %s;" % qual(a, b, name, rng.choice(["abs", "rel"]))
            path = name
        styles_used.add("path:" + how)
        role = "const" if call_arg is None else "fn"
        if call_arg is None and rng.random() < (0.08 if ty[j] == "i32" else 0.3):
            # the referencing item (a constant initialiser at compile time, or a function) first takes a copy of
            # the constant and modifies the copy (never a push: that would be visible), then reads the constant:
            # the reference still contributes Num(stored value)
            h = rng.choice([x for x in HOWS[ty[j]] if x != "push"])
            styles_used.add("copymod:%s:%s" % ("const" if not in_fn_now[0] else "fn", ty[j]))
            e = "({ let q = %s; %s %s })" % (path, modify(m, j, h, rng.choice([0, 7, 40])), num_expr(j, path))
            return use_int(e, role, "t%d" % j, local_import, False)
        if call_arg is None and ty[j] != "i32":
            # a constant of another type: the reference is the i32 expression Num(type, constant)
            styles_used.add("ref:" + ty[j])
            return use_int(num_expr(j, path), role, "t%d" % j, local_import, False)
        e = path if call_arg is None else "%s(%s)" % (path, call_arg)
        return use_int(e, role, "t%d" % j, local_import, call_arg is None)

    def use_int(e, role, tmp, local_import, is_path):
        """one use site of the i32 expression e (a constant path, a function call, a context variable)"""
        forms = INT_FORMS if is_path else [f for f in INT_FORMS if f not in PATH_ONLY_FORMS]
        wrap = rng.choice(forms + ["direct"])
        if local_import and wrap not in ("block", "letblock", "cond", "skiploop"):
            wrap = "block"
        styles_used.add("use:%s:%s" % (role, wrap))
        imp = (local_import + " ") if local_import else ""
        if wrap == "direct":
            return e
        if wrap == "paren":
            return "(%s)" % e
        if wrap == "block":
            return "({ %s%s })" % (imp, e)
        if wrap == "letblock":
            return "({ %slet %s = %s; %s })" % (imp, tmp, e, tmp)
        if wrap == "ifelse":
            return "(if 1 == 1 { %s } else { 0 })" % e
        if wrap == "skipthen":
            return "(if 1 == 2 { %s } else { %s })" % (e, e)
        if wrap == "skiploop":
            return "({ %slet %s = 0; while 1 == 2 { %s = %s; } (%s + %s) })" % (imp, tmp, tmp, e, e, tmp)
        if wrap == "skiparm":
            return "(match Option.Some(1) { None => %s, Some(%s) => %s })" % (e, tmp, e)
        if wrap == "cond":
            # the only use site is a loop condition; the loop counts up to the value (0 <= value < Modulus)
            return "({ %slet %s = 0; while %s < %s { %s = %s + 1; } %s })" % (imp, tmp, tmp, e, tmp, tmp, tmp)
        if wrap == "match":
            return "(match Option.Some(%s) { Some(%s) => %s, None => 0 })" % (e, tmp, tmp)
        if wrap == "hostarg":
            return "keep(%s)" % e
        if wrap == "method":
            return "num(%s.to_string())" % e
        if wrap == "methodarg":
            return 'num("".append(f"{%s}"))' % e
        if wrap == "fstring":
            return 'num(f"{%s}")' % e
        return "(0 - (0 - %s))" % e

    def use_ctx():
        """one use site of a context variable; its value is CtxVal"""
        if rng.random() < 0.5:
            return use_int(rng.choice(["ctxv", "ctxw"]), "ctx", "x", None, True)
        form = rng.choice(STR_FORMS)
        styles_used.add("use:ctx:" + form)
        sv = str(CTXVAL)
        return {
            "s_hostarg": "num(ctxs)",
            "s_method": "num(ctxs.to_uppercase())",
            "s_method2": "num(ctxs.trim())",
            "s_len": "(if ctxs.bytes().len() == %d { %d } else { 0 })" % (len(sv), CTXVAL),
            "s_cond": '(if ctxs.contains("%s") { %d } else { 0 })' % (sv, CTXVAL),
            "s_methodarg": 'num("".append(ctxs))',
            "s_fstring": 'num(f"{ctxs}")',
            "s_letblock": "num({ let x = ctxs; x })",
            "s_eq": '(if ctxs == "%s" { %d } else { 0 })' % (sv, CTXVAL),
        }[form]

    def terms(i, in_fn):
        m = home[i]
        in_fn_now[0] = in_fn
        ts = []
        for j in rng.sample(succ[i], len(succ[i])):
            if g["kind"][j - 1] == "c":
                ts.append(mention(m, j, None))
            else:
                ts.append(mention(m, j, "n - 1" if in_fn else str(FUEL)))
        if i in g["ctx"]:
            ts.insert(rng.randrange(len(ts) + 1), use_ctx())
        return ts

    decls = {m: [] for m in range(nmod)}
    for i in order:
        m = home[i]
        name = names[i]
        if g["kind"][i - 1] == "c":
            ts = terms(i, False)
            s = " + ".join(ts) if ts else "0"
            st = rng.randrange(3)
            styles_used.add("const:%d" % st)
            if st == 0:
                init = "mark(%d, %s)" % (i, s)
            elif st == 1:
                init = "{ let s = %s; mark(%d, s) }" % (s, i)
            else:
                init = "keep(mark(%d, %s))" % (i, s)
            if ty[i] != "i32":
                styles_used.add("constty:" + ty[i])
                if ty[i] in ("unit", "urec") and st != 2 and rng.random() < 0.5:
                    # nothing to carry: the host function that returns nothing
                    styles_used.add("marku:" + ty[i])
                    init = init.replace("mark(", "marku(")
                    if ty[i] == "urec":
                        init = ("{ u: %s, w: () }" if anon[i] else tpath(m, "U2") + " { u: %s, w: () }") % init
                else:
                    init = build(m, i, init, False)
            decls[m].append("const %s: %s = %s;" % (name, tyexpr(m, i), init))
        else:
            ts = terms(i, True)
            st = rng.randrange(3)
            styles_used.add("fn:%d" % st)
            if st == 0:
                s = " + ".join(ts) if ts else "0"
                body = "if n <= 0 { 0 } else { (%s) %% %d }" % (s, MODULUS)
            elif st == 1:
                s = " + ".join(ts) if ts else "0"
                body = "if n <= 0 { return 0; } let s = %s; s %% %d" % (s, MODULUS)
            else:
                lets = " ".join("let a%d = %s;" % (k, t) for k, t in enumerate(ts))
                s = " + ".join("a%d" % k for k in range(len(ts))) if ts else "0"
                body = "if n <= 0 { return 0; } %s (%s) %% %d" % (lets, s, MODULUS)
            decls[m].append("fn %s(n: i32) -> i32 { %s }" % (name, body))
    # Observers (not items of the graph: nothing depends on them).  Observation is optional in ConstOrder
    # (Get / Call may or may not happen) but evaluation is not: a constant that nothing reads, that is read
    # only by other unread constants, only in unreachable code, or only by functions nobody calls still
    # has to be evaluated exactly once.  observe = all: a getter per constant and every function called;
    # some: each with probability 1/2; none: no getter, no call.
    observe = rng.choice(["all", "some", "some", "none"])
    styles_used.add("observe:" + observe)
    gets, calls = [], []
    helper = {}
    for i in range(1, n + 1):
        watched = observe == "all" or (observe == "some" and rng.random() < 0.5)
        if g["kind"][i - 1] == "c":
            m = rng.randrange(nmod)
            path = names[i] if m == home[i] else qual(layout[m], layout[home[i]], names[i], rng.choice(["abs", "rel"]))
            path = num_expr(i, path)
            if watched:
                gname = "get_c%d" % i
                decls[m].insert(rng.randrange(len(decls[m]) + 1), "fn %s() -> i32 { %s }" % (gname, path))
                gets.append({"id": i, "name": ".".join(layout[m] + [gname])})
                helper[i] = "getter"
            else:
                # possibly a mention in code that can never run (never called by the harness either)
                h = rng.choice(["none", "none", "after_return", "after_return2", "if_false"])
                helper[i] = h
                if h == "after_return":
                    decls[m].insert(rng.randrange(len(decls[m]) + 1), "fn late_c%d(x: i32) -> i32 { return x; %s }" % (i, path))
                elif h == "after_return2":
                    decls[m].insert(rng.randrange(len(decls[m]) + 1),
                                    "fn late_c%d(x: i32) -> i32 { if x > 0 { return 1; } else { return 2; } keep(%s) }" % (i, path))
                elif h == "if_false":
                    decls[m].insert(rng.randrange(len(decls[m]) + 1), "fn never_c%d() -> i32 { if false { %s } else { 0 } }" % (i, path))
        elif watched:
            calls.append({"id": i, "name": ".".join(layout[home[i]] + [names[i]]), "arg": FUEL})
    # the Call-phase programme: one exported function per action (ConstOrder.Mut / GetV / Get / Call), each in a
    # module of its own choice; helpers (the callee that modifies its parameter, the function that returns the
    # constant) possibly in yet another module
    hprog = []

    def put(m, text):
        decls[m].insert(rng.randrange(len(decls[m]) + 1), text)

    def exported(m, fname):
        return ".".join(layout[m] + [fname])

    for p, op in enumerate(prog or []):
        i = op["id"]
        m = rng.randrange(nmod)
        if op["op"] == "call":
            hprog.append({"what": "call", "id": i, "name": ".".join(layout[home[i]] + [names[i]]), "ret": "fn", "arg": FUEL})
            continue
        if op["op"] == "get":
            put(m, "fn geti_%d() -> i32 { %s }" % (p, num_expr(i, cpath(m, i))))
            hprog.append({"what": "get", "id": i, "name": exported(m, "geti_%d" % p), "ret": "i32"})
            continue
        # how the constant is read again: directly (field reads of the constant) or through another fresh copy
        if rng.random() < 0.5:
            styles_used.add("reread:direct")
            reread = lambda out: flat_stmts(i, cpath(m, i), out)
        else:
            styles_used.add("reread:copy")
            reread = lambda out: "let k%s = %s; %s" % (out, cpath(m, i), flat_stmts(i, "k" + out, out))
        if op["op"] == "getv":
            put(m, "fn getv_%d() -> String { %s r2 }" % (p, reread("r2")))
            hprog.append({"what": "getv", "id": i, "name": exported(m, "getv_%d" % p), "ret": "str",
                          "first_read": bool(op.get("first_read"))})
            continue
        via, how, w = op["via"], op["how"], op["w"]
        styles_used.add("mut:%s:%s" % (ty[i], how))
        styles_used.add("via:" + via)
        tail = '%s f"{r1}|{r2}"' % reread("r2")
        if via == "local":
            put(m, "fn mut_%d() -> String { let q = %s; %s %s %s }" %
                (p, cpath(m, i), modify(m, i, how, w), flat_stmts(i, "q", "r1"), tail))
        elif via == "param":
            m2 = rng.randrange(nmod)
            put(m2, "fn mutp_%d(q: %s) -> String { %s %s r1 }" % (p, tyexpr(m2, i), modify(m2, i, how, w), flat_stmts(i, "q", "r1")))
            callee = "mutp_%d" % p if m2 == m else qual(layout[m], layout[m2], "mutp_%d" % p, rng.choice(["abs", "rel"]))
            put(m, "fn mut_%d() -> String { let r1 = %s(%s); %s }" % (p, callee, cpath(m, i), tail))
        else:
            m2 = rng.randrange(nmod)
            put(m2, "fn give_%d() -> %s { %s }" % (p, tyexpr(m2, i), cpath(m2, i)))
            giver = "give_%d" % p if m2 == m else qual(layout[m], layout[m2], "give_%d" % p, rng.choice(["abs", "rel"]))
            put(m, "fn mut_%d() -> String { let q = %s(); %s %s %s }" %
                (p, giver, modify(m, i, how, w), flat_stmts(i, "q", "r1"), tail))
        hprog.append({"what": "mut", "id": i, "name": exported(m, "mut_%d" % p), "ret": "str",
                      "via": via, "how": how, "w": w})
    # the named record types are declared in the root module
    for name in ("E0", "U2", "N3", "P2"):
        if name in need_decl:
            decls[0].insert(rng.randrange(len(decls[0]) + 1), RECORD_DECLS[name])
    # families of constants that nothing live reads (classification only, for the vacuity guard)
    called = {c["id"] for c in calls}
    readers = {i: {a for (a, b) in g["refs"] if b == i} for i in range(1, n + 1)}
    isc = lambda i: g["kind"][i - 1] == "c"
    lonely = lambda i: isc(i) and not readers[i] and helper[i] != "getter"          # no reader at all in the graph
    for i in range(1, n + 1):
        if not isc(i) or helper[i] == "getter":
            continue
        if not readers[i]:
            styles_used.add("unread:constant" if helper[i] == "none" else "unread:unreachable-code-only")
        elif all(lonely(r) and helper[r] == "none" for r in readers[i]):
            styles_used.add("unread:chain")
        elif all((not isc(r)) and r not in called and readers[r] <= {r} for r in readers[i]):
            styles_used.add("unread:uncalled-function-only")
    files = []
    for m, p in enumerate(layout):
        children = [k for k, q in enumerate(layout) if len(q) == len(p) + 1 and q[:len(p)] == p]
        if not p:
            fname = "pkg.roto"
        elif children:
            fname = "/".join(p) + "/mod.roto"
        else:
            fname = "/".join(p) + ".roto"
        src = "\n".join(imports[m] + decls[m]) + "\n"
        files.append({"name": fname, "module": p[-1] if p else "pkg", "children": children, "src": src})
    use_ctx = bool(g["ctx"]) or rng.random() < 0.25
    return ({"files": files, "ctx": use_ctx, "ctxv": CTXVAL, "modulus": MODULUS, "calls": calls, "gets": gets,
             "prog": hprog}, styles_used)


def graph_of(c):
    return {"n": c["n"], "kind": c["kind"], "refs": c["refs"], "ctx": c["ctx"], "ty": c["ty"]}


def random_prog(g, rng, k, first_reads=False):
    """Seeded generator of a Call-phase programme (no expectations attached: TLC validates the recorded trace).
    first_reads: start with a typed getter per constant (nothing has been modified yet)."""
    consts = [i for i in range(1, g["n"] + 1) if g["kind"][i - 1] == "c"]
    fns = [i for i in range(1, g["n"] + 1) if g["kind"][i - 1] == "f"]
    prog = []
    if first_reads:
        prog = [{"op": "getv", "id": i, "first_read": True} for i in consts]
    if not consts:
        return prog + [{"op": "call", "id": rng.choice(fns)} for _ in range(min(k, 2))]
    for _ in range(k):
        dice = rng.random()
        i = rng.choice(consts)
        if dice < 0.55:
            prog.append({"op": "mut", "id": i, "via": rng.choice(VIAS), "how": rng.choice(HOWS[g["ty"][i - 1]]),
                         "w": rng.choice([0, 1, 2, 7, 40, 333, rng.randrange(MODULUS)])})
        elif dice < 0.8:
            prog.append({"op": "getv", "id": i})
        elif dice < 0.9 or not fns:
            prog.append({"op": "get", "id": i})
        else:
            prog.append({"op": "call", "id": rng.choice(fns)})
    return prog


def random_graph(rng):
    """Seeded generator of larger graphs for the I->S direction (no expectations attached)."""
    n = rng.randrange(7, 11)
    kind = [rng.choice("ccf") if rng.random() < 0.7 else "f" for _ in range(n)]
    rank = rng.sample(range(n), n)
    p = rng.choice([0.12, 0.2, 0.3])
    refs = set()
    for i in range(n):
        for j in range(n):
            if rank[i] < rank[j] and rng.random() < p:
                refs.add((i + 1, j + 1))
            elif kind[i] == "f" and kind[j] == "f" and rng.random() < 0.08:
                refs.add((i + 1, j + 1))          # recursion among functions (also self)
    ctx = set()
    dice = rng.random()
    if dice < 0.2:
        refs.add((rng.randrange(n) + 1, rng.randrange(n) + 1))      # arbitrary extra edge
    elif dice < 0.45:
        for _ in range(rng.choice([1, 1, 2])):
            ctx.add(rng.randrange(n) + 1)
    # value types of the constants: half of the graphs all i32, the others mixed
    mixed = rng.random() < 0.5
    ty = [rng.choice(TYPES) if (mixed and kind[i] == "c" and rng.random() < 0.6) else "i32" for i in range(n)]
    return {"n": n, "kind": kind, "refs": sorted(list(e) for e in refs), "ctx": sorted(ctx), "ty": ty}


# --------------------------------------------------------------- comparisons

ERR_CYCLE = "recursively defined"
ERR_CTX = "depends on a context variable"


def short(g):
    tys = "" if all(t == "i32" for t in g["ty"]) else " ty=%s" % ",".join(g["ty"])
    return "n=%d kind=%s refs=%s ctx=%s%s" % (g["n"], "".join(g["kind"]), g["refs"], g["ctx"], tys)


def check_outcome(g, hc, res, verd):
    """crash / panic / hang of roto are data. Returns True if the case returned normally."""
    oc = vlib.outcome_of(res)
    if oc == "returned":
        return True
    detail = re.sub(r"pkg(\.\w+)+", "<item>", str(res.get("panic", res.get("crash", "hang"))))[:120]
    verd.report({"kind_of_failure": oc.split(":")[0], "detail": detail},
                "compiling / calling the generated script did not return normally (%s): %s; graph %s" %
                (oc, {k: res[k] for k in res if k != "i"}, short(g)),
                {"graph": g, "hcase": hc, "result": res})
    return False


def parse_flat(text):
    """rendering of a typed value by the script ("" | "n,n,..") -> list of numbers (representation only)"""
    if text == "":
        return []
    parts = text.split(",")
    if not all(re.fullmatch(r"\d{1,9}", x) for x in parts):
        return None
    return [int(x) for x in parts]


def decode_prog(g, hc, res, verd):
    """Turn the strings returned by the typed functions of the programme into values (`v`).  Returns False
    (and reports) if one of them is not a rendering at all."""
    r = res.get("r")
    if not r or r.get("compile") != "ok":
        return True
    for o in r["obs"]:
        if "p" not in o or "v" in o:
            continue
        op = hc["prog"][o["p"]]
        parts = o["str"].split("|")
        vals = [parse_flat(x) for x in parts]
        if len(parts) != (2 if op["what"] == "mut" else 1) or any(v is None for v in vals):
            verd.report({"kind_of_failure": "wrong-observed-value", "what": op["what"], "detail": "not-a-rendering"},
                        "%s of constant %d returned %r, not a rendering of a value of type %s; graph %s" %
                        (op["what"], op["id"], o["str"][:80], g["ty"][op["id"] - 1], short(g)),
                        {"graph": g, "hcase": hc, "result": r})
            return False
        o["v"] = vals if op["what"] == "mut" else vals[0]
        if op["what"] == "mut":
            o.update(via=op["via"], how=op["how"], w=op["w"])
    return True


def describe_op(op):
    if op["what"] != "mut":
        return "%s(%d)" % (op["what"], op["id"])
    return "mut(constant %d, via %s, %s, w=%d)" % (op["id"], op["via"], op["how"], op["w"])


def compare(c, hc, res, verd):
    """S->I: compare what the real crate did with what TLC computed from ConstOrder."""
    g = graph_of(c)
    if not check_outcome(g, hc, res, verd):
        return False
    if not decode_prog(g, hc, res, verd):
        return False
    r = res["r"]
    rep = {"graph": g, "expect": c, "hcase": hc, "result": r}
    base = {"verdict": c["verdict"], "why": c["why"]}
    marks = [m["k"] for m in r["marks"]]
    if c["verdict"] == "rejected":
        if r["compile"] == "ok":
            verd.report(dict(base, kind_of_failure="accepted-invalid"),
                        "spec rejects the script (%s) but it compiled; marks during compile: %s; graph %s" %
                        (c["why"], marks, short(g)), rep)
            return False
        if r["kinds"] != ["type"] or not (ERR_CYCLE in r["error"] or ERR_CTX in r["error"]):
            raise vlib.ToolError("generated script was rejected for an unrelated reason (generator bug?): %s\n%s" %
                                 (r["error"], json.dumps(hc["files"], indent=1)))
        if marks:
            verd.report(dict(base, kind_of_failure="mark-before-reject"),
                        "constants %s were evaluated although the compilation was rejected; graph %s" % (marks, short(g)), rep)
            return False
        return True
    if r["compile"] != "ok":
        if r["kinds"] != ["type"] or not (ERR_CYCLE in r["error"] or ERR_CTX in r["error"]):
            raise vlib.ToolError("generated script does not compile for an unrelated reason (generator bug?): %s\n%s" %
                                 (r["error"], json.dumps(hc["files"], indent=1)))
        verd.report(dict(base, kind_of_failure="rejected-valid"),
                    "spec accepts the script but roto rejected it: %s; graph %s" % (r["error"], short(g)), rep)
        return False
    if r["missing"]:
        verd.report(dict(base, kind_of_failure="function-missing"),
                    "functions of the compiled package could not be retrieved: %s; graph %s" % (r["missing"], short(g)), rep)
        return False
    consts = [i for i in range(1, c["n"] + 1) if c["kind"][i - 1] == "c"]
    if sorted(marks) != consts:
        kind = "evaluated-twice" if len(set(marks)) < len(marks) else "missing-evaluation"
        verd.report(dict(base, kind_of_failure=kind),
                    "constants evaluated during compile: %s, expected each of %s exactly once; graph %s" % (marks, consts, short(g)), rep)
        return False
    seen = set()
    for m in r["marks"]:
        need = set(c["deps"][m["k"] - 1])
        if not need <= seen:
            verd.report(dict(base, kind_of_failure="evaluated-early"),
                        "constant %d evaluated before its dependencies %s (order %s); graph %s" %
                        (m["k"], sorted(need - seen), marks, short(g)), rep)
            return False
        if m["s"] != c["sums"][m["k"] - 1]:
            verd.report(dict(base, kind_of_failure="wrong-dependency-values"),
                        "initialiser of constant %d saw dependency sum %d, spec says %d (order %s); graph %s" %
                        (m["k"], m["s"], c["sums"][m["k"] - 1], marks, short(g)), rep)
            return False
        seen.add(m["k"])
    if r["marks_after"]:
        verd.report(dict(base, kind_of_failure="evaluated-after-compile"),
                    "constants evaluated again after compilation: %s; graph %s" % (r["marks_after"], short(g)), rep)
        return False
    for o in r["obs"]:
        if "p" in o:
            continue
        if o["v"] != c["vals"][o["id"] - 1]:
            verd.report(dict(base, kind_of_failure="wrong-observed-value", what=o["what"]),
                        "%s of item %d returned %d, spec says %d; graph %s" %
                        (o["what"], o["id"], o["v"], c["vals"][o["id"] - 1], short(g)), rep)
            return False
    # the Call-phase programme: the first len(c["prog"]) actions are TLC's, with the result TLC computed; a typed
    # getter placed before any modification has to show Flat(stored value) (c["flat"]); further actions
    # appended by the generator have no precomputed result: the trace validation decides
    done = {o["p"]: o for o in r["obs"] if "p" in o}
    for pidx, op in enumerate(hc["prog"]):
        if pidx not in done:
            raise vlib.ToolError("no result recorded for action %d of the programme: %s" % (pidx, r))
        got = done[pidx]["v"]
        if pidx < len(c["prog"]):
            want = c["prog"][pidx]["v"]
        elif op.get("first_read"):
            want = c["flat"][op["id"] - 1]
        else:
            continue
        if got != want:
            what = op["what"]
            detail = ""
            if what == "mut" and got[0] == want[0]:
                detail = "constant-differs-after-its-copy-was-modified"
            verd.report(dict(base, kind_of_failure="wrong-observed-value", what=what, detail=detail),
                        "action %d of the programme, %s on a constant of type %s, showed %s, spec says %s%s; graph %s" %
                        (pidx, describe_op(op), g["ty"][op["id"] - 1] if op["what"] != "call" else "-", got, want,
                         " (copy | constant read again)" if what == "mut" else "", short(g)), rep)
            return False
    return True


def events_of(g, r):
    """the recorded run of one case as ConstOrder trace events"""
    evs = [dict(op="graph", **g)]
    for m in r["marks"]:
        evs.append({"op": "mark", "k": m["k"], "s": m["s"]})
    evs.append({"op": "compile", "ok": r["compile"] == "ok"})
    if r["compile"] == "ok":
        for o in r["obs"]:
            if "p" in o and o["what"] == "mut":
                evs.append({"op": "mut", "id": o["id"], "via": o["via"], "how": o["how"], "w": o["w"], "v": o["v"]})
            else:
                evs.append({"op": o["what"], "id": o["id"], "v": o["v"]})
        for m in r["marks_after"]:
            evs.append({"op": "mark", "k": m["k"], "s": m["s"]})
    return evs


def validate_file(path, timeout=1500, heap="6g"):
    """vlib.validate_trace with a private TLC metadir (several validations run concurrently)"""
    name = os.path.basename(path).replace(".ndjson", "")
    return run_tlc("TraceConstOrder", "TraceConstOrder.cfg", workers=1, env={"TRACE": path}, timeout=timeout, heap=heap,
                   deque=True, coverage=False, tag="UNMATCHED",
                   metadir=vlib.workdir("_tlc", "TraceConstOrder_" + name, clean=True))


def validate_runs(runs, verd, ev, tag, nfiles=4):
    """I->S: runs = [(graph, hcase, result_r)].  Concatenate into nfiles trace files, validate each
    with TLC; a rejected case is reported and removed, the rest of its file validated again.
    Returns number of accepted runs."""
    d = vlib.workdir(PID, "trace")
    parts = [runs[k::nfiles] for k in range(nfiles)]
    parts = [p for p in parts if p]

    def one(k, part):
        part = list(part)
        accepted = 0
        tlcs = []
        bad = []
        for attempt in range(6):
            path = os.path.join(d, "%s_%d.ndjson" % (tag, k))
            events, owner = [], []
            for idx, (g, hc, r) in enumerate(part):
                es = events_of(g, r)
                events.extend(es)
                owner.extend([idx] * len(es))
            vlib.write_ndjson(path, events)
            if not events:
                break
            tr = validate_file(path)
            tlcs.append(tr)
            if tr.ok:
                accepted = len(part)
                break
            if tr.postcondition_failed and tr.replay:
                un = tr.replay[0]
                idx = owner[un["line"] - 1]
                bad.append((part[idx], un))
                part = part[:idx] + part[idx + 1:]
                continue
            raise vlib.ToolError("trace validation failed to run: %s\n%s" % (tr.error, tr.stdout[-2000:]))
        else:
            raise vlib.ToolError("more than 5 rejected cases in one trace file; giving up on %s_%d" % (tag, k))
        return accepted, tlcs, bad, part

    total = 0
    with ThreadPoolExecutor(max_workers=len(parts) or 1) as ex:
        futs = [ex.submit(one, k, p) for k, p in enumerate(parts)]
        for f in futs:
            accepted, tlcs, bad, part = f.result()
            for tr in tlcs:
                ev.add_tlc(tr)
            total += accepted
            for (g, hc, r) in part:
                for e in events_of(g, r):
                    ev.impl_actions.add({"mark": "EvalConst", "compile": "Done" if e.get("ok") else "Reject",
                                         "call": "Call", "get": "Get", "getv": "GetV", "mut": "Mut",
                                         "graph": "Init"}[e["op"]])
            for ((g, hc, r), un) in bad:
                e = un["ev"]
                verd.report({"kind_of_failure": "trace-rejected", "op": e.get("op", "?"),
                             "compile": r["compile"]},
                            "recorded compilation is not a behaviour of ConstOrder: first unmatched event %s "
                            "(events of the case: %s); graph %s" % (e, events_of(g, r)[1:12], short(g)),
                            {"graph": g, "hcase": hc, "result": r, "unmatched": un})
    return total


SELFCHECKS = ["swapped", "twice", "missing", "wrong-value", "mark-before-reject",
              # a write to a copy that reaches the constant; a push through a copy of a list constant that does
              # not; a constant without any leaves whose initialiser never ran; a typed getter showing another value
              "copy-write-reached-constant", "list-push-lost", "zero-sized-constant-not-evaluated", "wrong-typed-read"]


def selfcheck_binding(runs, needed):
    """Anti-vacuity of the trace binding: hand-corrupted variants of an accepted recorded run must be
    rejected by TraceConstOrder (a swapped dependent pair, a repeated mark, a wrong value, a mark
    before a rejection; a constant that shows the modification made to a copy of it, a list constant that
    does not show a push made through a copy, a zero-sized constant that was never evaluated, a typed
    getter that shows something else; the intact runs these are made from are validated with all others by
    validate_runs).  Returns the names (of `needed`) that could be built from these runs
    and were rejected."""
    d = vlib.workdir(PID, "trace")
    variants = {}
    basic = {"swapped", "twice", "missing", "wrong-value", "mark-before-reject"}
    good = rej = None
    if needed & basic:
        for (g, hc, r) in runs:
            if r["compile"] == "ok" and good is None:
                ks = [m["k"] for m in r["marks"]]
                dep = [(a, b) for (a, b) in g["refs"] if a in ks and b in ks and a != b]
                if dep and any(o["what"] in ("get", "call") for o in r["obs"]):
                    good = (g, r, dep[0])
            if r["compile"] == "err" and rej is None and any(k == "c" for k in g["kind"]):
                rej = (g, r)
            if good and rej:
                break
    if good and rej:
        g, r, (a, b) = good
        base = events_of(g, r)
        ia = next(i for i, e in enumerate(base) if e["op"] == "mark" and e["k"] == a)
        ib = next(i for i, e in enumerate(base) if e["op"] == "mark" and e["k"] == b)
        swapped = list(base)
        swapped[ia], swapped[ib] = swapped[ib], swapped[ia]
        twice = base[:ia + 1] + [base[ia]] + base[ia + 1:]
        missing = base[:ia] + base[ia + 1:]
        io = next(i for i, e in enumerate(base) if e["op"] in ("get", "call"))
        wrong = [dict(e) for e in base]
        wrong[io]["v"] = (wrong[io]["v"] + 1) % MODULUS
        g2, r2 = rej
        base2 = events_of(g2, r2)
        c2 = g2["kind"].index("c") + 1
        early = [base2[0], {"op": "mark", "k": c2, "s": 0}] + base2[1:]
        variants.update({"intact": base + base2, "swapped": swapped, "twice": twice, "missing": missing,
                         "wrong-value": wrong, "mark-before-reject": early})
    for (g, hc, r) in runs:
        if r["compile"] != "ok":
            continue
        want = {x for x in needed - basic if x not in variants}
        if not want:
            break
        base = None
        first = 2 + len(r["marks"])          # graph, marks.., compile, then one event per observation
        for idx, o in enumerate(r["obs"]):
            t = g["ty"][o["id"] - 1]
            name = None
            if o["what"] == "mut" and t != "list" and o["v"][0] != o["v"][1]:
                name, v = "copy-write-reached-constant", [o["v"][0], o["v"][0]]
            elif o["what"] == "mut" and t == "list" and o["how"] == "push":
                copy = o["v"][0]
                name, v = "list-push-lost", [copy, [copy[0] - 1] + copy[1:-1]]
            elif o["what"] == "getv" and o["v"]:
                name, v = "wrong-typed-read", o["v"][:-1] + [o["v"][-1] + 1]
            if name in want and name not in variants:
                base = base or events_of(g, r)
                evs = [dict(e) for e in base]
                evs[first + idx]["v"] = v
                variants[name] = evs
        if "zero-sized-constant-not-evaluated" in want:
            zs = [m["k"] for m in r["marks"] if g["ty"][m["k"] - 1] in ZERO_SIZED]
            if zs:
                base = base or events_of(g, r)
                variants["zero-sized-constant-not-evaluated"] = [e for e in base if not (e["op"] == "mark" and e["k"] == zs[0])]
    if not variants:
        return []

    def one(name):
        path = os.path.join(d, "selfcheck_%s.ndjson" % name.replace(":", "_"))
        vlib.write_ndjson(path, variants[name])
        tr = validate_file(path, timeout=600, heap="2g")
        if not tr.ok and not tr.postcondition_failed:
            raise vlib.ToolError("self-check trace validation failed to run: %s" % tr.error)
        return name, tr.ok
    with ThreadPoolExecutor(max_workers=6) as ex:
        res = dict(ex.map(one, list(variants)))
    broken = [n for n, ok in res.items() if n.startswith("intact") and not ok]
    if broken:
        raise vlib.ToolError("self-check: an intact trace was rejected: %s" % broken)
    wrongly = [n for n, ok in res.items() if not n.startswith("intact") and ok]
    if wrongly:
        raise vlib.ToolError("self-check: corrupted traces were accepted by TraceConstOrder: %s" % wrongly)
    return sorted(n for n in res if not n.startswith("intact"))


def count_typed(c, st, prog):
    """what the value-type / copy families of one accepted TLC case contain (for the anti-vacuity guard);
    prog = TLC's programme followed by the reads the generator appended (decided by the trace validation)"""
    n = c["n"]
    def bump(d, k):
        d[k] = d.get(k, 0) + 1
    consts = [i for i in range(1, n + 1) if c["kind"][i - 1] == "c"]
    for i in consts:
        t = c["ty"][i - 1]
        bump(st["constants_of_type"], t)
        if any(b == i for (a, b) in c["refs"]):
            bump(st["with_dependents"], t)
        if c["deps"][i - 1]:
            bump(st["with_dependencies"], t)
    if any(c["ty"][i - 1] != "i32" for i in consts):
        st["typed_cases"] += 1
    if c["prog"]:
        st["walk_cases"] += 1
    mutated, pushed = set(), set()
    for k, op in enumerate(prog if c["prog"] else []):
        if op["op"] == "call":
            continue
        if op["id"] in mutated and k < len(c["prog"]):
            st["read_after_mut_of_same_constant"] += 1
        if op["id"] in pushed:
            st["read_after_push"] += 1
            if k < len(c["prog"]):
                st["read_after_push_in_tlc_programme"] += 1
        if op["op"] == "mut":
            t = c["ty"][op["id"] - 1]
            bump(st["mut"], "%s:%s" % (t, op["how"]))
            bump(st["via"], op["via"])
            mutated.add(op["id"])
            if op["how"] == "push":
                pushed.add(op["id"])


def require_typed(st, styles):
    """Anti-vacuity of the value-type and copy families: every type occurs as a constant that is evaluated, one
    that others wait for and one that waits for others; every (type, modification) pair and every way of
    obtaining the copy occurs in TLC's programmes; reads after a modification of the same constant occur."""
    miss = []
    for t in TYPES:
        for fam in ("constants_of_type", "with_dependents", "with_dependencies"):
            if not st[fam].get(t):
                miss.append("%s:%s" % (fam, t))
        for h in HOWS[t]:
            if not st["mut"].get("%s:%s" % (t, h)):
                miss.append("mut:%s:%s (TLC programmes)" % (t, h))
            if "mut:%s:%s" % (t, h) not in styles:
                miss.append("mut:%s:%s (rendered)" % (t, h))
        if t != "i32" and ("constty:" + t not in styles or "ref:" + t not in styles):
            miss.append("constty/ref:" + t)
        for role in ("const", "fn"):
            if "copymod:%s:%s" % (role, t) not in styles:
                miss.append("copymod:%s:%s" % (role, t))
    for v in VIAS:
        if not st["via"].get(v) or "via:" + v not in styles:
            miss.append("via:" + v)
    for k in ("read_after_mut_of_same_constant", "read_after_push", "walk_cases", "typed_cases"):
        if not st[k]:
            miss.append(k)
    for x in ("marku:unit", "marku:urec", "reread:direct", "reread:copy"):
        if x not in styles:
            miss.append(x)
    if miss:
        raise vlib.ToolError("value-type / copy families never generated: %s" % miss)


# ----------------------------------------------------------------------- run

def nontrivial(g):
    """the ordering / rejection mechanism is exercised: some constant mentions another item or the context"""
    consts = {i for i in range(1, g["n"] + 1) if g["kind"][i - 1] == "c"}
    return any(a in consts for (a, b) in g["refs"]) or any(i in consts for i in g["ctx"])


def run(tier):
    ev = Evidence(PID, tier)
    verd = Verdicts(PID)
    try:
        return run_body(tier, ev, verd)
    except vlib.ToolError as e:
        if not verd.violations:
            raise
        # never let a tool problem hide violations that were already found
        vlib.log("C14: tool error after violations were found: %s" % str(e)[:500])
        rc = verd.finish()
        ev.write(len(verd.violations))
        return rc


def run_body(tier, ev, verd):
    vlib.build_harness(["c14"])
    rng = random.Random(vlib.seed() * 31 + 14)
    ev.rule = ("case = (dependency graph, generated script); distinct = distinct (graph, script text); non-trivial = "
               "some constant of the graph references another item or the context (so ordering or rejection is "
               "exercised); cases with only independent constants / only functions are counted in evaluations only")
    graphs, exhaustive = generate_graphs(tier, ev)
    vlib.log("C14: %d graphs from TLC (%.0fs)" % (len(graphs), time.time() - ev.t0))

    # S->I: every TLC graph -> scripts (several representations), run, compare;
    # I->S (a): the recorded runs of these cases must be behaviours of ConstOrder.
    # Done in chunks of graphs to bound memory.
    styles = set()
    fam = {}
    picked = {}
    nscripts = 0
    tstats = {"constants_of_type": {}, "with_dependents": {}, "with_dependencies": {}, "mut": {}, "via": {},
              "references_that_modify_a_copy_first": {}, "read_after_mut_of_same_constant": 0, "read_after_push": 0, "read_after_push_in_tlc_programme": 0, "walk_cases": 0, "typed_cases": 0}
    needed = set(SELFCHECKS)
    # the small graphs first is fine, but mix families so that every chunk has accepted and rejected runs
    rng.shuffle(graphs)
    chunk = 14000 if tier == "quick" else 4000
    # a small first chunk: on a broken tree (thousands of crashing workers are slow) violations show up early
    bounds = [0, min(2000, len(graphs))] + list(range(2000 + chunk, len(graphs), chunk)) + [len(graphs)]
    bounds = sorted(set(bounds))
    for lo, hi in zip(bounds, bounds[1:]):
        t_chunk = time.time()
        cases = []   # (expectation, hcase)
        for c in graphs[lo:hi]:
            g = graph_of(c)
            n = g["n"]
            if tier == "quick":
                # accepted scripts: single file + random module layout; rejected ones: random layout only
                variants = [(0, None), (None, None)] if c["verdict"] == "ok" or n < 3 else [(None, None)]
            else:
                if n <= 3:
                    # every declaration order in a single file + two random module layouts
                    variants = [(0, p) for p in itertools.permutations(range(1, n + 1))] + [(None, None), (None, None)]
                else:
                    variants = [(0, None), (1, None), (2, None), (3, None)]
            walk = bool(c["prog"])
            if walk or c["family"].startswith("typed"):
                # the value-type / copy families: one random module layout (thorough: plus the single file)
                variants = [(None, None)] if tier == "quick" else [(0, None), (None, None)]
            consts_of = [i for i in range(1, n + 1) if g["kind"][i - 1] == "c"]
            for (lay, order) in variants:
                # the Call-phase programme: TLC's recorded actions (walk family, with TLC's results) followed by
                # actions chosen here (results decided by the trace validation): after a walk every constant and
                # function is read once more; the other families get a typed getter per constant (which has to
                # show Flat(stored value), printed by TLC) and a few seeded actions
                prog = []
                if c["verdict"] == "ok":
                    if walk:
                        prog = c["prog"] + [{"op": "getv", "id": i} for i in consts_of] + \
                               [{"op": "call", "id": i} for i in range(1, n + 1) if i not in consts_of]
                    elif c["family"] not in ("all3", "sim") or rng.random() < 0.1:
                        prog = random_prog(g, rng, rng.randrange(1, 5), first_reads=True)
                hc, st = make_script(g, rng, lay, order, prog)
                if c["verdict"] == "ok":
                    count_typed(c, tstats, prog)
                if c["verdict"] != "ok":
                    # nothing is evaluated there: does not count for these families
                    st = {x for x in st if not x.startswith(("unread:", "samename:"))}
                styles |= st
                for x in st:
                    if x.startswith("copymod:"):
                        tstats["references_that_modify_a_copy_first"][x[8:]] = \
                            tstats["references_that_modify_a_copy_first"].get(x[8:], 0) + 1
                cases.append((c, hc))
        nscripts += len(cases)
        t_gen = time.time()
        results = vlib.run_batch("c14", [hc for (_, hc) in cases], nproc=8, pid=PID, tag="s2i", stall=30)
        t_run = time.time()
        runs = []
        for (c, hc), res in zip(cases, results):
            g = graph_of(c)
            ok = compare(c, hc, res, verd)
            key = "%s/%s" % (c["verdict"], c["why"])
            fam[key] = fam.get(key, 0) + 1
            srcs = [f["src"] for f in hc["files"]]
            ev.case({"graph": short(g), "verdict": c["verdict"], "files": srcs,
                     "marks": res.get("r", {}).get("marks")}, nontrivial(g),
                    key=vlib.shash([g, srcs]))
            if ok:
                ev.traces += 1
            if "r" in res and all("v" in o for o in res["r"].get("obs", [])):
                runs.append((g, hc, res["r"]))
                cat = None
                if c["verdict"] == "ok" and len(res["r"]["marks"]) >= 3 and len(hc["files"]) > 1 and len(g["refs"]) >= 4:
                    cat = "ok-multi-module"
                if c["prog"] and len(hc["files"]) > 1 and any(o["op"] == "mut" and g["ty"][o["id"] - 1] in ("rec2", "nest", "list")
                                                             for o in c["prog"]):
                    cat = "typed-walk"
                elif c["why"] == "cycle" and g["n"] >= 4 and len(hc["files"]) > 1:
                    cat = "rejected-cycle"
                elif c["why"] == "ctx" and g["n"] >= 4 and not any(g["kind"][i - 1] == "c" for i in g["ctx"]):
                    cat = "rejected-ctx-through-function"
                if cat and cat not in picked:
                    o = {"family": cat, "graph": short(g), "verdict": c["verdict"], "files": srcs,
                         "marks": res["r"]["marks"], "observed": [[o["what"], o["id"], o["v"]] for o in res["r"].get("obs", [])][:8]}
                    if len(json.dumps(o)) < 1500:
                        picked[cat] = o
        t_cmp = time.time()
        if needed:
            needed -= set(selfcheck_binding(runs, needed))
        t_self = time.time()
        ev.traces += validate_runs(runs, verd, ev, "s2i", nfiles=6)
        if os.environ.get("C14_TIMING"):
            vlib.log("C14: chunk of %d scripts: generate %.1fs, harness %.1fs, compare %.1fs, self-check %.1fs, trace validation %.1fs"
                     % (len(cases), t_gen - t_chunk, t_run - t_gen, t_cmp - t_run, t_self - t_cmp, time.time() - t_self))
        vlib.log("C14: %d scripts compiled, compared and validated (%.0fs)" % (nscripts, time.time() - ev.t0))
        if len(verd.violations) >= 25:
            vlib.log("C14: %d violations so far, not generating further cases" % len(verd.violations))
            rc = verd.finish()
            ev.write(len(verd.violations))
            return rc
    if needed and not verd.violations:
        raise vlib.ToolError("no suitable recorded run for the corruption self-checks %s" % sorted(needed))
    ev.extra["corrupted_traces_rejected"] = sorted(set(SELFCHECKS) - needed)
    want_styles = {"path:plain", "path:abs", "path:rel", "path:import_top", "path:import_local",
                   "const:0", "const:1", "const:2", "fn:0", "fn:1", "fn:2"}
    # every use form must occur in the constant role and in the context role (and, except the method
    # receiver form which needs a path, for function results)
    for f in INT_FORMS + ["direct"]:
        want_styles |= {"use:const:" + f, "use:ctx:" + f}
        if f not in PATH_ONLY_FORMS:
            want_styles.add("use:fn:" + f)
    want_styles |= {"use:ctx:" + f for f in STR_FORMS}
    # constants nothing (live) reads must occur: they still have to be evaluated exactly once
    # items of different modules sharing an identifier, in particular around a dependency chain
    want_styles |= {"naming:unique", "naming:shared", "samename:const-const-const", "samename:const-fn-const",
                    "samename:fn-const-fn"}
    want_styles |= {"observe:all", "observe:some", "observe:none", "unread:constant", "unread:chain",
                    "unread:unreachable-code-only", "unread:uncalled-function-only"}
    if want_styles - styles:
        raise vlib.ToolError("reference styles never generated: %s" % sorted(want_styles - styles))
    ev.extra["typed_families"] = tstats
    for k in ("ok/none", "rejected/cycle", "rejected/ctx", "rejected/cycle+ctx"):
        if not fam.get(k):
            raise vlib.ToolError("case family never generated: %s" % k)
    ev.extra["case_families"] = fam
    ev.extra["scripts_from_tlc_graphs"] = nscripts

    # I->S (b): larger seeded random graphs, no precomputed expectation: TLC decides from the trace alone
    nbig = 1500 if tier == "quick" else 12000
    big = []
    bigstyles = []
    for _ in range(nbig):
        g = random_graph(rng)
        hc, st = make_script(g, rng, prog=random_prog(g, rng, rng.randrange(0, 9)))
        big.append((g, hc))
        bigstyles.append({x for x in st if x.startswith("copymod:")})
    results = vlib.run_batch("c14", [hc for (_, hc) in big], nproc=8, pid=PID, tag="i2s", stall=30)
    runs2 = []
    nok = nerr = 0
    for (g, hc), res, st in zip(big, results, bigstyles):
        if res.get("r", {}).get("compile") == "ok":
            # references that modify a copy first, in scripts that were compiled (their effect is decided by TLC
            # from the recorded trace)
            styles |= st
            for x in st:
                tstats["references_that_modify_a_copy_first"][x[8:]] = \
                    tstats["references_that_modify_a_copy_first"].get(x[8:], 0) + 1
        ev.case({"graph": short(g), "files": [f["src"] for f in hc["files"]]}, nontrivial(g),
                key=vlib.shash([g, [f["src"] for f in hc["files"]]]))
        if not check_outcome(g, hc, res, verd) or not decode_prog(g, hc, res, verd):
            continue
        r = res["r"]
        if r["compile"] == "err" and (r["kinds"] != ["type"] or not (ERR_CYCLE in r["error"] or ERR_CTX in r["error"])):
            raise vlib.ToolError("generated script was rejected for an unrelated reason (generator bug?): %s\n%s" %
                                 (r["error"], json.dumps(hc["files"], indent=1)))
        if r["compile"] == "ok" and r["missing"]:
            verd.report({"kind_of_failure": "function-missing"},
                        "functions of the compiled package could not be retrieved: %s; graph %s" % (r["missing"], short(g)),
                        {"graph": g, "hcase": hc, "result": r})
            continue
        nok += r["compile"] == "ok"
        nerr += r["compile"] == "err"
        runs2.append((g, hc, r))
    require_typed(tstats, styles)
    if nok < nbig // 5 or nerr < nbig // 20:
        raise vlib.ToolError("random graphs badly balanced: %d accepted, %d rejected of %d" % (nok, nerr, nbig))
    ev.extra["random_graphs"] = {"n": nbig, "compiled": nok, "rejected": nerr}
    ev.traces += validate_runs(runs2, verd, ev, "i2s", nfiles=4)

    vlib.log("C14: random graph traces validated (%.0fs)" % (time.time() - ev.t0))
    if picked:
        ev.samples = list(picked.values()) + [x for x in ev.samples if x.get("verdict") == "ok"][:1]
    ev.exhaustive = True
    ev.extra["exhaustive_parts"] = exhaustive
    ev.assumptions = [
        "scripts have the fixed shape modelled in ConstOrder (one mark call per initialiser, fuel-bounded functions, "
        "the ten value types of ConstOrder.Types built from the number mark returns); registered runtime constants "
        "and other initialiser shapes are not generated",
        "copies of constants are modified by one modification per function (ConstOrder.Hows); every combination of "
        "value types exhaustively on <= 2 items, programmes of Call-phase actions by seeded simulation on 2-4 items",
        "exhaustive for all graphs on <= 3 items; 4-6 items seeded simulation; 7-10 items seeded python generator (I->S only)",
        "references are static mentions; every mentioned item is also used at run time",
        "only accept/reject is compared, never the diagnostic text (text is used only to detect a broken generator)",
        "the order among independent constants is free (any topological order is accepted)",
    ]
    rc = verd.finish()
    ev.write(len(verd.violations))
    return rc


def replay(path):
    obj = json.load(open(path))["replay"]
    vlib.build_harness(["c14"])
    verd = Verdicts(PID)
    ev = Evidence(PID, "quick")
    g, hc = obj["graph"], obj["hcase"]
    g.setdefault("ty", ["i32"] * g["n"])
    hc.setdefault("prog", [])
    res = vlib.run_batch("c14", [hc], nproc=1, pid=PID, tag="replay")[0]
    if "expect" in obj:
        c = obj["expect"]
        c.setdefault("ty", g["ty"])
        c.setdefault("prog", [])
        c.setdefault("flat", [[] for _ in range(g["n"])])
        compare(c, hc, res, verd)
    elif not check_outcome(g, hc, res, verd) or not decode_prog(g, hc, res, verd):
        return verd.finish()
    if "r" in res and all("v" in o for o in res["r"].get("obs", [])):
        validate_runs([(g, hc, res["r"])], verd, ev, "replay", nfiles=1)
    return verd.finish()
