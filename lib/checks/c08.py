"""C08 - side effects happen in source order, as often as control flow dictates.

Spec: spec/RotoSem.tla threads the ordered log of host calls through a strictly left-to-right
big-step evaluation (operands, call arguments with the receiver first, record fields, list elements,
f-string parts; && / || short-circuit; one arm of if/match, guards in source order; loop condition
once more than the body; nothing after return / ? on None; `x op= e` reads x first).
Seeded random programs whose sub-expressions at every position call logging host functions are run
natively; TLC (TraceSem.tla) accepts a recorded execution iff its host-call sequence (with argument
values) and result equal RotoSem.Eval.
"""
import semlib

PID = "C08"
ALL = ["ints", "bool", "float", "str", "char", "rec", "enum", "opt", "list", "loops", "calls", "recfn", "ret", "fstr", "copymut", "generic", "filtermap", "hostopt", "shadow", "gconst", "kconst", "mods", "tr", "exprstmt", "hmeth", "anonrec"]


def run(tier):
    fam = [("effects", ALL, 3, 600, 5000, 2), ("deep", ["ints", "bool", "str", "enum", "opt", "rec", "list", "loops", "calls", "ret", "fstr", "exprstmt", "hmeth"], 4, 200, 2000, 2)]
    return semlib.run_sem_check(
        PID, tier, fam,
        extra_cases=[("match", semlib.match_cases())],
        rule=("cases = recorded native executions of seeded random effectful programs; distinct = distinct (source, "
              "inputs); non-trivial = the program makes host calls from nested positions (every generated program does; "
              "counted when its source is longer than one statement)"),
        assumptions=["only documented evaluation orders are asserted", "program size and nesting are bounded by the generator"],
        required_kinds=["host:emit", "host:tick", "host:in", "host:sel", "bin:and", "bin:or", "match", "while", "for", "ret", "call",
                        "rec", "ctor", "list", "fstr", "cset", "lcall:push", "try"])


def replay(path):
    return run("quick")
