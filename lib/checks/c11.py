"""C11 - function handles keep alive exactly what they need (hot reload safe).

Spec: spec/Lifetime.tla (+ MCLifetime.tla, TraceLifetime.tla).
The specification models the host-visible objects (Runtime, Package objects,
TypedFunc handles) and the resources behind them (a module = machine code +
script constants; the registered constant and the captures of the three same-typed registered closures of a runtime
generation) with the reference counting the design uses, and proves by model
checking that a resource is released exactly once, exactly when its holder set
becomes empty (so a call through an existing handle is always valid) and that
modules never influence each other.

S->I: TLC emits every behaviour up to a length bound (from the empty state and
      after five fixed prefixes) plus seeded random walks with larger bounds; each
      behaviour carries, per step, the specified live-instance counts of the four
      resource classes and the specified call result; harness/src/bin/c11.rs
      performs the actions on real roto objects (Runtime::from_lib, FileTree::compile,
      get_function, clone, call, into_func, drop, thread::spawn; with and without a
      context type) and reports the measured
      counters/results; they are compared step by step.
I->S: seeded random long histories (python does bookkeeping only: which objects
      exist) are executed by the harness; the recorded events (arguments, measured
      counters, decoded call results) must be a behaviour of Lifetime (TLC trace
      validation, TraceLifetime.tla).
"""
import os
import random
import time
from concurrent.futures import ThreadPoolExecutor

import vlib
from vlib import Evidence, Verdicts, run_tlc, require_tlc_ok

PID = "C11"
OPNAMES = ["build", "compile", "get", "clone", "call", "drop_handle", "drop_pkg", "drop_rt", "move",
           "into_func", "call_closure", "drop_closure", "add_const"]
FLAVOURS = ["noctx", "ctx"]      # runtime without / with a context type (TypedFunc<NoCtx,_> / TypedFunc<Ctx<C>,_>)
# drop orders / situations that must occur in the generated behaviours (anti-vacuity)
SCENARIOS = ["pkg_dropped_before_handle", "rt_dropped_before_pkg", "rt_dropped_before_handle",
             "last_clone_on_other_thread", "call_after_pkg_drop", "call_after_rt_drop",
             "call_after_recompile", "call_after_other_module_released", "last_handle_releases_module",
             "closure_called_as_last_holder", "closure_called_after_pkg_drop", "closure_called_after_rt_drop",
             "last_closure_releases_module", "closure_dropped_while_others_hold",
             "same_typed_closures_called_after_rt_drop",
             "constant_added_after_a_compilation", "compiled_after_constant_added_next_to_older_module",
             "late_constant_read_after_rt_drop"]


# ------------------------------------------------------------------ representation mapping

def decode(r):
    """main() returns k * 10^11 + rc * 10^8 + na * 10^4 + nb with rc < 1000, na, nb < 10^4
    (harness/src/bin/c11.rs `script`); the specification's result is <<k, rc, na, nb>>."""
    if not isinstance(r, int):
        return None
    return [r // 10**11, (r // 10**8) % 1000, (r // 10**4) % 10**4, r % 10**4]


def scenarios(ops):
    """Bookkeeping only (which objects exist): names the drop orders a history contains."""
    rt = 0
    mods = {}      # m -> {"g":, "pobj":}
    hnd = {}       # h -> m
    clo = {}       # c -> m
    released = set()
    out = set()
    late_rt = False

    def holders(m):
        return (1 if mods[m]["pobj"] else 0) + sum(1 for x in hnd.values() if x == m) + \
            sum(1 for x in clo.values() if x == m)

    for op in ops:
        o = op["op"]
        if o == "build":
            rt = op["g"]
            late_rt = False
        elif o == "add_const":
            late_rt = True
            if any(v["g"] == rt for v in mods.values()):
                out.add("constant_added_after_a_compilation")
        elif o == "compile":
            mods[op["m"]] = {"g": rt, "pobj": True, "late": late_rt}
            if late_rt and any(v["g"] == rt and not v["late"] for v in mods.values()):
                out.add("compiled_after_constant_added_next_to_older_module")
        elif o == "get":
            hnd[op["h"]] = op["m"]
        elif o == "clone":
            hnd[op["b"]] = hnd[op["a"]]
        elif o in ("call", "move"):
            m = hnd[op["h"]]
            if not mods[m]["pobj"]:
                out.add("call_after_pkg_drop")
            if rt != mods[m]["g"] and mods[m]["late"]:
                out.add("late_constant_read_after_rt_drop")
            if rt != mods[m]["g"]:
                out.add("call_after_rt_drop")
                # every call runs two registered closures of the same Rust type
                out.add("same_typed_closures_called_after_rt_drop")
            if any(x > m for x in mods):
                out.add("call_after_recompile")
            if any(x != m for x in released):
                out.add("call_after_other_module_released")
            if o == "move":
                del hnd[op["h"]]
                if holders(m) == 0:
                    out.add("last_clone_on_other_thread")
                    released.add(m)
        elif o == "into_func":
            clo[op["c"]] = hnd.pop(op["h"])
        elif o == "call_closure":
            m = clo[op["c"]]
            if holders(m) == 1:
                out.add("closure_called_as_last_holder")
            if not mods[m]["pobj"]:
                out.add("closure_called_after_pkg_drop")
            if rt != mods[m]["g"]:
                out.add("closure_called_after_rt_drop")
                out.add("same_typed_closures_called_after_rt_drop")
            if any(x != m for x in released):
                out.add("call_after_other_module_released")
        elif o == "drop_closure":
            m = clo.pop(op["c"])
            if holders(m) == 0:
                out.add("last_closure_releases_module")
                released.add(m)
            else:
                out.add("closure_dropped_while_others_hold")
        elif o == "drop_handle":
            m = hnd.pop(op["h"])
            if holders(m) == 0:
                out.add("last_handle_releases_module")
                released.add(m)
        elif o == "drop_pkg":
            m = op["m"]
            mods[m]["pobj"] = False
            if holders(m) > 0:
                out.add("pkg_dropped_before_handle")
            else:
                released.add(m)
        elif o == "drop_rt":
            if any(v["g"] == rt and v["pobj"] for v in mods.values()):
                out.add("rt_dropped_before_pkg")
            if any(mods[m]["g"] == rt for m in list(hnd.values()) + list(clo.values())):
                out.add("rt_dropped_before_handle")
            rt = 0
    return out


NONTRIVIAL = {"call_after_pkg_drop", "call_after_rt_drop", "last_clone_on_other_thread",
              "call_after_other_module_released", "last_handle_releases_module",
              "closure_called_as_last_holder", "closure_called_after_pkg_drop", "closure_called_after_rt_drop",
              "last_closure_releases_module", "late_constant_read_after_rt_drop"}


# ------------------------------------------------------------------------------ TLC

def mc_cfg(path, spec, n, kind, handles=(1, 2, 3), maxmods=2, maxgens=2, maxcnt=3, emit=True, props=False,
           closures=(1, 2)):
    with open(path, "w") as f:
        f.write("""SPECIFICATION %s
CONSTANTS
  Versions = {1, 2}
  Handles = {%s}
  Closures = {%s}
  MaxMods = %d
  MaxGens = %d
  MaxCnt = %d
  N = %d
  InitKind = "%s"
%sINVARIANTS Inv%s
%sCHECK_DEADLOCK FALSE
""" % (spec, ", ".join(str(h) for h in handles), ", ".join(str(c) for c in closures), maxmods, maxgens, maxcnt, n, kind,
       "" if emit else "CONSTRAINT CntBound\n", " Emit" if emit else "",
       "PROPERTIES NoResurrection Isolation\n" if props else ""))


def check_design(tier, ev):
    """Exhaustive check of the invariants / action properties on the complete state graph
    within the resource bounds (all histories of any length; closure counter capped)."""
    d = vlib.workdir(PID, "cfg")
    if tier == "quick":
        # (the late constant doubled the graph: the two-runtime plans with three handles / two closures are thorough now)
        plans = [((1, 2, 3), 2, 1, 1, (1,)), ((1, 2), 2, 2, 1, (1,)), ((1, 2), 2, 1, 1, (1, 2))]
    else:
        plans = [((1, 2, 3), 2, 2, 1, (1,)), ((1, 2), 2, 2, 1, (1, 2)),
                 ((1, 2, 3), 2, 2, 2, (1, 2)), ((1, 2), 3, 2, 1, (1,)), ((1, 2), 2, 3, 1, (1, 2))]
    parts = []
    for (hs, mm, mg, mc, cs) in plans:
        cfg = os.path.join(d, "inv_%d_%d_%d_%d.cfg" % (len(hs), len(cs), mm, mg))
        mc_cfg(cfg, "MCSpecInv", 0, "empty", hs, mm, mg, mc, emit=False, props=True, closures=cs)
        r = run_tlc("MCLifetime", cfg, workers=6, timeout=3000, heap="6g", coverage=False)
        require_tlc_ok(r, "MCLifetime invariants handles=%d mods=%d gens=%d" % (len(hs), mm, mg))
        ev.add_tlc(r)
        parts.append("complete graph handles=%d closures=%d packages<=%d runtimes<=%d counter<=%d: %d states, depth %d" %
                     (len(hs), len(cs), mm, mg, mc, r.distinct, r.diameter))
    return parts


def emit_plan(tier):
    if tier == "quick":
        return [("empty", 6), ("one", 4), ("clo", 4), ("two", 3), ("reload", 4), ("regen", 3), ("same", 3), ("late", 3)], (100, 30)
    return [("empty", 8), ("one", 4), ("clo", 5), ("two", 3), ("reload", 4), ("regen", 4), ("same", 3), ("late", 4)], (600, 45)


def emitted(tier, ev):
    """Generator of (label, cases): TLC-emitted behaviours, one plan entry at a time."""
    d = vlib.workdir(PID, "cfg")
    plan, (num, depth) = emit_plan(tier)
    for (kind, n) in plan:
        cfg = os.path.join(d, "emit_%s_%d.cfg" % (kind, n))
        mc_cfg(cfg, "MCSpec", n, kind)
        r = run_tlc("MCLifetime", cfg, workers=6, timeout=1500, heap="8g", coverage=False)
        require_tlc_ok(r, "MCLifetime emit %s N=%d" % (kind, n))
        ev.add_tlc(r)
        yield ("%s:N=%d" % (kind, n), r.replay, True)
    # seeded random walks with larger bounds
    cfg = os.path.join(d, "sim.cfg")
    mc_cfg(cfg, "MCSpec", depth, "empty", handles=(1, 2, 3, 4), maxmods=6, maxgens=3, closures=(1, 2, 3))
    r = run_tlc("MCLifetime", cfg, workers=1, simulate=num, depth=depth + 1, timeout=1500,
                tlc_seed=vlib.seed(), coverage=False, heap="6g")
    if r.error or r.invariant_violated:
        require_tlc_ok(r, "MCLifetime simulate")
    ev.add_tlc(r)
    seen = set()
    cases = []
    for c in r.replay:
        k = vlib.shash(c["ops"])
        if k not in seen:
            seen.add(k)
            cases.append(c)
    yield ("walks:num=%d:depth=%d" % (num, depth), cases, False)


# ---------------------------------------------------------------------------- compare

def compare(case, res, verd, flavour="noctx"):
    """Compare one executed behaviour with the specification's expectations."""
    ops = case["ops"]
    npre = case.get("npre", 0)
    oc = vlib.outcome_of(res)
    if oc != "returned":
        step = res.get("step", -1)
        opname = ops[step]["op"] if isinstance(step, int) and 0 <= step < len(ops) else "?"
        verd.report({"flavour": flavour, "kind_of_failure": oc.split(":")[0], "op": opname},
                    "history did not run to completion (%s) at step %s op=%s: %s; history: %s" %
                    (oc, step, opname, {k: v for k, v in res.items() if k != "i"}, [strip(o) for o in ops]),
                    {"case": case, "flavour": flavour, "result": res})
        return False
    r = res["r"]
    base = r["base"]
    for k, (op, got) in enumerate(zip(ops, r["steps"])):
        if k < npre and "live" not in op:
            continue
        live = [a - b for a, b in zip(got["live"], base)]
        if "res" in op:
            d = decode(got["res"])
            if d != op["res"]:
                verd.report({"flavour": flavour, "kind_of_failure": "wrong-result", "op": op["op"]},
                            "step %d %s: spec says main() returns <<k, rc, na, nb>> = %s, implementation returned %r = %s; history: %s" %
                            (k, strip(op), op["res"], got["res"], d, [strip(o) for o in ops[:k + 1]]),
                            {"case": case, "flavour": flavour, "step": k, "got": got})
                return False
        elif got["res"] is not None:
            verd.report({"flavour": flavour, "kind_of_failure": "wrong-result", "op": op["op"]},
                        "step %d %s returned a value: %r" % (k, strip(op), got["res"]), {"case": case, "flavour": flavour, "step": k, "got": got})
            return False
        if live != op["live"]:
            verd.report({"flavour": flavour, "kind_of_failure": "live-count", "op": op["op"],
                         "direction": "early-release" if any(a < b for a, b in zip(live, op["live"])) else "late-release"},
                        "step %d %s: spec says live instances [script consts v1, v2, registered const, capture of closure 1, 2, 3, late registered const] = %s, "
                        "measured %s; history: %s" % (k, strip(op), op["live"], live, [strip(o) for o in ops[:k + 1]]),
                        {"case": case, "flavour": flavour, "step": k, "got": got})
            return False
    if r.get("corrupt", 0) != 0:
        verd.report({"flavour": flavour, "kind_of_failure": "use-after-release", "op": "any"},
                    "a tracked value was used or dropped after its release (%d times); history: %s" %
                    (r["corrupt"], [strip(o) for o in ops]), {"case": case, "flavour": flavour, "result": r})
        return False
    if r["end_live"] != base:
        # FreedIffUnheld with every holder set empty: nothing may remain
        verd.report({"flavour": flavour, "kind_of_failure": "live-count", "op": "end", "direction": "late-release"},
                    "after dropping every handle, package and the runtime %s instances remain (before the history: %s); history: %s" %
                    (r["end_live"], base, [strip(o) for o in ops]), {"case": case, "flavour": flavour, "result": r})
        return False
    return True


def strip(op):
    return {k: v for k, v in op.items() if k not in ("res", "live")}


def to_harness(case):
    return {"ops": [strip(o) for o in case["ops"]]}


# ------------------------------------------------------------------------------ I->S

def random_history(rng, nops, nslots=6, ncslots=4):
    """Seeded random history; bookkeeping only (which objects exist), no expectations."""
    rt = 0
    ngen = 0
    late = False   # the live runtime got its late constant
    mods = {}   # m -> pobj alive
    hnd = {}    # slot -> m
    clo = {}    # closure slot -> m
    ops = []
    calls = 0
    for _ in range(nops):
        cand = []
        free = [h for h in range(1, nslots + 1) if h not in hnd]
        livepk = [m for m, p in mods.items() if p]
        if rt == 0:
            if ngen < 800:      # the registered constant's tag 50 + g must stay below 1000
                cand.append(("build", 4))
        else:
            cand.append(("drop_rt", 0.7))
            if not late and ngen < 9:      # the late constant's tag 100 * g plus 50 + g must stay below 1000
                cand.append(("add_const", 0.8))
            if len(livepk) < 4:
                cand.append(("compile", 3))
        if livepk:
            cand.append(("drop_pkg", 1.5))
            if free:
                cand.append(("get", 3))
        if hnd:
            if calls < 1900:      # counters start 2000 apart and must stay below 10^4
                cand.append(("call", 5))
                cand.append(("move", 1))
            cand.append(("drop_handle", 2))
            if free:
                cand.append(("clone", 2))
            if len(clo) < ncslots:
                cand.append(("into_func", 1.5))
        if clo:
            if calls < 1900:      # counters start 2000 apart and must stay below 10^4
                cand.append(("call_closure", 3))
            cand.append(("drop_closure", 1))
        if not cand:
            break
        o = rng.choices([c[0] for c in cand], [c[1] for c in cand])[0]
        if o == "build":
            ngen += 1
            rt = ngen
            late = False
            ops.append({"op": "build", "g": ngen})
        elif o == "add_const":
            late = True
            ops.append({"op": "add_const"})
        elif o == "drop_rt":
            rt = 0
            ops.append({"op": "drop_rt"})
        elif o == "compile":
            m = len(mods) + 1
            mods[m] = True
            ops.append({"op": "compile", "v": rng.choice([1, 1, 2]), "m": m})
        elif o == "drop_pkg":
            m = rng.choice(livepk)
            mods[m] = False
            ops.append({"op": "drop_pkg", "m": m})
        elif o == "get":
            m = rng.choice(livepk)
            h = rng.choice(free)
            hnd[h] = m
            ops.append({"op": "get", "m": m, "h": h})
        elif o == "clone":
            a = rng.choice(sorted(hnd))
            b = rng.choice(free)
            hnd[b] = hnd[a]
            ops.append({"op": "clone", "a": a, "b": b})
        elif o == "call":
            calls += 1
            ops.append({"op": "call", "h": rng.choice(sorted(hnd))})
        elif o == "move":
            calls += 1
            h = rng.choice(sorted(hnd))
            del hnd[h]
            ops.append({"op": "move", "h": h})
        elif o == "drop_handle":
            h = rng.choice(sorted(hnd))
            del hnd[h]
            ops.append({"op": "drop_handle", "h": h})
        elif o == "into_func":
            h = rng.choice(sorted(hnd))
            c = rng.choice([x for x in range(1, ncslots + 1) if x not in clo])
            clo[c] = hnd.pop(h)
            ops.append({"op": "into_func", "h": h, "c": c})
        elif o == "call_closure":
            calls += 1
            ops.append({"op": "call_closure", "c": rng.choice(sorted(clo))})
        elif o == "drop_closure":
            c = rng.choice(sorted(clo))
            del clo[c]
            ops.append({"op": "drop_closure", "c": c})
    # explicit clean-up in a random order, so that the trace ends with everything released
    rest = [{"op": "drop_handle", "h": h} for h in sorted(hnd)] + \
           [{"op": "drop_closure", "c": c} for c in sorted(clo)] + \
           [{"op": "drop_pkg", "m": m} for m, p in sorted(mods.items()) if p] + \
           ([{"op": "drop_rt"}] if rt else [])
    rng.shuffle(rest)
    # a moved handle instead of a dropped one now and then
    for o in rest:
        if o["op"] == "drop_handle" and rng.random() < 0.3:
            o["op"] = "move"
    return ops + rest


def impl_to_spec(tier, ev, verd, scen_count):
    rng = random.Random(vlib.seed() * 11 + 3)
    nruns, nops = (8, 300) if tier == "quick" else (32, 1000)
    d = vlib.workdir(PID, "trace")
    cases = [{"ops": random_history(rng, nops)} for _ in range(nruns)]
    half = nruns // 2
    fl = ["noctx"] * half + ["ctx"] * (nruns - half)
    results = vlib.run_batch("c11", cases[:half], extra=["noctx"], nproc=min(4, half), pid=PID, tag="rec_noctx", stall=60) + \
        vlib.run_batch("c11", cases[half:], extra=["ctx"], nproc=min(4, nruns - half), pid=PID, tag="rec_ctx", stall=60)
    events = []
    good = 0
    for case, res, flavour in zip(cases, results, fl):
        if vlib.outcome_of(res) != "returned":
            compare(case, res, verd, flavour)
            continue
        r = res["r"]
        if r.get("corrupt", 0) != 0:
            verd.report({"flavour": flavour, "kind_of_failure": "use-after-release", "op": "any"},
                        "a tracked value was used or dropped after its release (%d times) in a recorded history" % r["corrupt"],
                        {"case": case, "flavour": flavour, "result": r})
            continue
        events.append({"op": "reset"})
        for op, got in zip(case["ops"], r["steps"]):
            e = dict(op)
            e["live"] = [a - b for a, b in zip(got["live"], r["base"])]
            if got["res"] is not None:
                e["res"] = decode(got["res"])
            events.append(e)
            ev.impl_actions.add(op["op"])
        for s in scenarios(case["ops"]):
            scen_count["impl:" + s] = scen_count.get("impl:" + s, 0) + 1
        good += 1
    path = os.path.join(d, "trace.ndjson")
    vlib.write_ndjson(path, events)
    r = vlib.validate_trace("TraceLifetime", "TraceLifetime.cfg", path, timeout=1500, heap="6g")
    ev.add_tlc(r)
    if r.ok:
        ev.traces += good
        ev.extra["trace_events_validated"] = len(events)
    elif r.invariant_violated:
        raise vlib.ToolError("TraceLifetime: design invariant %s violated on a recorded trace\n%s" %
                             (r.invariant_violated, r.stdout[-3000:]))
    elif r.postcondition_failed and r.replay:
        un = r.replay[0]
        verd.report({"kind_of_failure": "trace-rejected", "op": un["ev"].get("op", "?")},
                    "recorded history is not a behaviour of Lifetime: first unmatched event (line %s): %s" %
                    (un["line"], un["ev"]), {"trace": path, "unmatched": un})
    else:
        raise vlib.ToolError("trace validation failed to run: %s\n%s" % (r.error, r.stdout[-2000:]))


# ------------------------------------------------------------------------------- run

def run(tier):
    ev = Evidence(PID, tier)
    verd = Verdicts(PID)
    vlib.build_harness(["c11"])
    ev.rule = ("cases = behaviours of Lifetime emitted by TLC (every behaviour up to the length bound from the empty "
               "state and after 5 fixed prefixes, plus seeded simulation walks with larger bounds), each executed on "
               "real roto objects (runtime without context type: all; with context type: all that use into_func and every "
               "fourth other); distinct = distinct (flavour, action sequence); non-trivial = the history calls a handle or "
               "an into_func closure after its package object or runtime was dropped or after another module was released, "
               "or releases a module through its last handle / closure (on this or another thread)")
    parts = check_design(tier, ev)
    vlib.log("C11 design invariants checked, t=%.1fs" % (time.time() - ev.t0))
    opcount = {}
    scen_count = {}
    aborted = False
    for label, cases, exhaustive in emitted(tier, ev):
        tagp = "emit_" + label.split(":")[0]
        # the flavour with a context type: every behaviour that makes a closure with into_func, and
        # every fourth of the others
        cx = [c for c in cases if int(vlib.shash([strip(o) for o in c["ops"]]), 16) % 4 == 0 or
              any(o["op"] == "into_func" for o in c["ops"])]
        with ThreadPoolExecutor(max_workers=2) as ex:
            f1 = ex.submit(vlib.run_batch, "c11", [to_harness(c) for c in cases], ["noctx"], 7, 60, PID, tagp)
            f2 = ex.submit(vlib.run_batch, "c11", [to_harness(c) for c in cx], ["ctx"], 5, 60, PID, tagp + "_ctx")
            results, results_cx = f1.result(), f2.result()
        for c, res in zip(cx, results_cx):
            compare(c, res, verd, "ctx")
            ev.case({"flavour": "ctx", "ops": [strip(o) for o in c["ops"]]}, bool(scenarios(c["ops"]) & NONTRIVIAL),
                    key=vlib.shash(["ctx", [strip(o) for o in c["ops"]]]))
            ev.traces += 1
        for c, res in zip(cases, results):
            compare(c, res, verd, "noctx")
            sc = scenarios(c["ops"])
            for s in sc:
                scen_count[s] = scen_count.get(s, 0) + 1
            for op in c["ops"][c.get("npre", 0):]:
                opcount[op["op"]] = opcount.get(op["op"], 0) + 1
            ev.case({"ops": [strip(o) for o in c["ops"]]}, bool(sc & NONTRIVIAL), key=vlib.shash([strip(o) for o in c["ops"]]))
            ev.traces += 1
        parts.append("%s: %d behaviours%s" % (label, len(cases), " (all)" if exhaustive else " (seeded walks)"))
        vlib.log("C11 %s: %d behaviours replayed (+%d with a context type), t=%.1fs" %
                 (label, len(cases), len(cx), time.time() - ev.t0))
        parts[-1] += ", %d of them also with a context type" % len(cx)
        del results, cases, results_cx, cx
        if len(verd.violations) > 200:
            # plenty of replay files already; the remaining behaviours would only add more of the same
            vlib.log("C11: more than 200 violating histories, not replaying the remaining behaviours")
            aborted = True
            break
    if not aborted:
        missing = [a for a in OPNAMES if opcount.get(a, 0) == 0]
        if missing:
            raise vlib.ToolError("Lifetime actions never taken in the generated behaviours: %s" % missing)
        missing = [s for s in SCENARIOS if scen_count.get(s, 0) == 0]
        if missing:
            raise vlib.ToolError("drop orders never generated: %s" % missing)
        impl_to_spec(tier, ev, verd, scen_count)
    vlib.log("C11 recorded histories validated, t=%.1fs" % (time.time() - ev.t0))
    missing = [a for a in OPNAMES if a not in ev.impl_actions]
    if missing and not verd.violations:
        raise vlib.ToolError("Lifetime actions never taken in the recorded histories: %s" % missing)
    ev.extra["spec_action_counts"] = opcount
    ev.extra["drop_order_counts"] = scen_count
    ev.extra["exhaustive_parts"] = parts
    ev.exhaustive = not aborted
    ev.assumptions = [
        "two script versions, one registered constant and three registered closures made by one factory (same Rust type, "
        "own captured counter each) stand for all scripts; resources are observed through drop-tracked host values (script "
        "constants, registered constant, one capture per registered closure); the machine code itself is "
        "only observed through calls still returning the specified result (a crash of the worker is a violation)",
        "exhaustive up to the stated history length with <= 2 versions, <= 2 packages, <= 3 handles, <= 2 runtimes; "
        "longer histories and larger bounds by seeded walks",
        "version 1 calls the registered closures 1 and 2, version 2 calls 2 and 3: a module keeps alive exactly the closures "
        "its script calls",
        "the closure returned by TypedFunc::into_func is a holder of its own (it owns the handle it was made from)",
    ]
    rc = verd.finish()
    ev.write(len(verd.violations))
    return rc


def replay(path):
    import json
    obj = json.load(open(path))["replay"]
    vlib.build_harness(["c11"])
    verd = Verdicts(PID)
    if "case" in obj:
        fl = obj.get("flavour", "noctx")
        res = vlib.run_batch("c11", [to_harness(obj["case"])], extra=[fl], nproc=1, pid=PID, tag="replay")
        if compare(obj["case"], res[0], verd, fl):
            print("replay: the history now conforms to the specification")
    elif "trace" in obj:
        r = vlib.validate_trace("TraceLifetime", "TraceLifetime.cfg", obj["trace"])
        if not r.ok:
            un = r.replay[0] if r.replay else {"line": "?", "ev": {}}
            verd.report({"kind_of_failure": "trace-rejected", "op": un["ev"].get("op", "?")},
                        "recorded history is not a behaviour of Lifetime: first unmatched event (line %s): %s" %
                        (un["line"], un["ev"]), obj)
    return verd.finish()
