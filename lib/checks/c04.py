"""C04 - a compiled function is only obtainable under its true Rust signature.

Spec: spec/TypeGate.tla (+ MCTypeGate.tla, TraceTypeGate.tla).
S->I: TLC enumerates verdict tables: for every script item of a family (all Roto types of
      depth <= 1 in return and in parameter position, all filtermap forms, the arity ladder
      0..8 with one deviating position / swapped parameters / name classes; script-declared
      NAMESAKES of every leaf identifier - `record Asn {..}` / `enum u32 {..}` in the root module
      (pkg.Asn, shadowing the built-in; such items are grouped into scripts that do not use the
      built-in of that name) and in a sub-module (pkg.ns.Asn) - bare and under Option / List /
      Result / Verdict in parameter, return and filtermap-payload position, with the real leaves
      as controls; MODULE PLACEMENT: every parameterless filtermap form (accept-only, reject-only,
      fully used) and plain functions declared in every module position of small module trees
      (root only; root+sub; two siblings; nested), every subset of the other modules declaring a
      filtermap of its own, retrieved by module path - the verdict must not depend on the
      placement; bare names / wrong paths are unknown names; thorough: also depth 2 and 3) the set of Rust signatures of the family's universe that must be handed
      out; everything else of the universe must be refused.  python prints the items as a Roto
      script, the harness compiles it once and calls get_function::<F>(name) for every F of the
      universe (compiled-in table harness/src/tables/c04_types.rs, generated from TLC's Universe
      sets by tools/gen_c04_types.py); the set of handed-out signatures must be TLC's set.
I->S: seeded random script items (mutations of the Roto image of table entries, arity 0..8,
      filtermaps, unknown / helper names) are probed with several table entries each; the
      recorded {item, nameclass, rust, res} events must satisfy res = TypeGate.Verdict
      (TLC trace validation) - both directions.
Besides: handed-out parameterless functions are smoke-called (only where the specification says the
handle is right).  A fixed probe keeps a compiler panic visible that the random generator has to steer
around while it exists (enum with a () payload inside a list, src/lir/lower/eq.rs:112).
"""
import json
import os
import random
from concurrent.futures import ThreadPoolExecutor

import vlib
from vlib import Evidence, Verdicts, run_tlc, require_tlc_ok

PID = "C04"
QUICK_FAMILIES = ["d1ret", "d1par", "fm", "ladder", "ns", "mod"]
THOROUGH_FAMILIES = ["allret", "allpar", "fm", "ladder", "ns", "mod"]
REASONS = ["name", "arity", "param", "ret"]

# ------------------------------------------------------------------ representation mapping


def term_id(t):
    if len(t) == 1:
        return t[0]
    return "%s<%s>" % (t[0], ",".join(term_id(x) for x in t[1:]))


def sig_id(s):
    return "fn(%s)->%s" % (",".join(term_id(p) for p in s["params"]), term_id(s["ret"]))


# --- script-declared namesakes of leaf types: "pkg.<L>" (root module) / "pkg.ns.<L>" (sub-module ns) ---
NS_BASES = sorted(["bool", "u8", "u16", "u32", "u64", "i8", "i16", "i32", "i64", "f32", "f64", "char", "String", "Asn",
                   "IpAddr", "Prefix", "RegA", "RegB"])


def is_namesake(leaf):
    return leaf.startswith("pkg.")


def ns_where(leaf):
    return "sub" if leaf.startswith("pkg.ns.") else "root"


def ns_base(leaf):
    return leaf[len("pkg.ns."):] if leaf.startswith("pkg.ns.") else leaf[len("pkg."):]


def ns_path(leaf):
    """how the script writes the type: the bare identifier (root namesake shadows the built-in) or ns.<L>"""
    return ("ns." + ns_base(leaf)) if ns_where(leaf) == "sub" else ns_base(leaf)


def ns_partner(base):
    return "i64" if base == "u64" else "u64"


def ns_kind(base, where):
    """record / enum (with a payload variant) / unit-only enum: how the script declares the namesake.
    Inside module ns every leaf identifier is shadowed, so the field types u64 / i64 are themselves
    namesakes there; they are declared as payload-free enums to keep the declarations acyclic."""
    if where == "sub" and base in ("u64", "i64"):
        return "enum0"
    k = NS_BASES.index(base) + (1 if where == "sub" else 0)
    return "record" if k % 2 == 0 else "enum"


def ns_decl(base, where):
    kind = ns_kind(base, where)
    if kind == "record":
        return "record %s { lo: %s }" % (base, ns_partner(base))
    if kind == "enum":
        return "enum %s { A, B(%s) }" % (base, ns_partner(base))
    return "enum %s { A, B }" % base


def ns_default(leaf):
    base, where = ns_base(leaf), ns_where(leaf)
    if ns_kind(base, where) == "record":
        field = "0" if where == "root" else "ns.%s.A" % ns_partner(base)
        return "%s { lo: %s }" % (ns_path(leaf), field)
    return "%s.A" % ns_path(leaf)


def term_leaves(t, out):
    if len(t) == 1:
        out.add(t[0])
    for x in t[1:]:
        term_leaves(x, out)


def item_leaves(item):
    out = set()
    for p in item["params"]:
        term_leaves(p, out)
    if item["kind"] == "fn":
        term_leaves(item["ret"], out)
    else:
        for side in (item["acc"], item["rej"]):
            if side[0] not in ("unused", "bare", "intlit", "floatlit"):
                term_leaves(side, out)
    return out


def place_key(item):
    return json.dumps(item.get("place"), sort_keys=True) if item.get("place") else ""


def retrieval_name(declname, item):
    """the name get_function is asked for: the module path of the declaring module + the declared name"""
    pl = item.get("place")
    return declname if not pl or pl["at"] == "pkg" else pl["at"] + "." + declname


def script_groups(named_items):
    """Items with a module placement: one script per placement (all items of the group live in module
    `at` of that module tree).  Otherwise see script_groups_by_shadowing."""
    if any(it.get("place") for _, it in named_items):
        by = {}
        for k, (_, it) in enumerate(named_items):
            by.setdefault(place_key(it), []).append(k)
        return [by[k] for k in sorted(by)]
    return script_groups_by_shadowing(named_items)


def script_groups_by_shadowing(named_items):
    """A root namesake shadows the built-in of that identifier in the whole root module, so an item that
    mentions pkg.<L> cannot live in a script that also mentions the built-in L (or uses it as the field
    type of a namesake declaration).  Items without root namesakes all go to group 0."""
    groups = [{"roots": set(), "builtins": set(), "idx": []}]
    for k, (_, item) in enumerate(named_items):
        leaves = item_leaves(item)
        roots = {ns_base(l) for l in leaves if is_namesake(l) and ns_where(l) == "root"}
        if not roots:
            groups[0]["idx"].append(k)
            continue
        builtins = {l for l in leaves if not is_namesake(l)} | {ns_partner(b) for b in roots}
        for g in groups[1:]:
            if not ((g["roots"] | roots) & (g["builtins"] | builtins)):
                break
        else:
            g = {"roots": set(), "builtins": set(), "idx": []}
            groups.append(g)
        g["roots"] |= roots
        g["builtins"] |= builtins
        g["idx"].append(k)
    return [g["idx"] for g in groups if g["idx"]]


def roto_type(t, alt=0):
    """Roto source text of a Roto type term (alt selects `T?` vs `Option[T]`)."""
    if len(t) == 1:
        return ns_path(t[0]) if is_namesake(t[0]) else t[0]
    if t[0] == "Option":
        inner = roto_type(t[1], alt)
        if alt % 2 == 1 and t[1][0] != "Option":
            return inner + "?"
        return "Option[%s]" % inner
    return "%s[%s]" % (t[0], ", ".join(roto_type(x, alt) for x in t[1:]))


LEAF_DEFAULT = {
    "bool": "false", "u8": "0", "u16": "0", "u32": "0", "u64": "0", "i8": "0", "i16": "0", "i32": "0",
    "i64": "0", "f32": "0.0", "f64": "0.0", "char": "'a'", "String": '""', "Asn": "AS0",
    "IpAddr": "1.1.1.1", "Prefix": "1.0.0.0/8", "()": "()", "RegA": "REG_A", "RegB": "REG_B",
    "Rec": "Rec { x: 1 }",
}


def default_expr(t):
    """An expression of Roto type t (only needed so that the declaration type checks)."""
    if len(t) == 1:
        return ns_default(t[0]) if is_namesake(t[0]) else LEAF_DEFAULT[t[0]]
    if t[0] == "Option":
        return "None"
    if t[0] == "List":
        return "[]"
    if t[0] == "Result":
        return "Result.Ok(%s)" % default_expr(t[1])
    if t[0] == "Verdict":
        return "Verdict.Accept(%s)" % default_expr(t[1])
    raise vlib.ToolError("no default for %r" % (t,))


def eq_has_unit_payload(t):
    return t[0] in ("Option", "Result", "Verdict") and any(
        p == ["()"] or eq_has_unit_payload(p) for p in t[1:])


def default_hits_compiler_panic(t):
    """True if default_expr(t) builds a list whose element type is an enum with a () payload.
    Compiling such a script panics in roto (src/lir/lower/eq.rs:112, `lower_type(ty).unwrap()` for the
    zero-sized payload: `fn f() -> List[()?] { [] }`, also `fn f(x: ()?, y: ()?) -> bool { x == y }`).
    That is a compiler defect outside this property (C06); it would take the whole random script with
    it, so the random generator re-draws such items (parameters of these types are not affected)."""
    if len(t) == 1 or t[0] == "Option":
        return False
    if t[0] == "List":
        return eq_has_unit_payload(t[1])
    return default_hits_compiler_panic(t[1])     # Result.Ok(d) / Verdict.Accept(d)


def item_needs_panicking_default(item):
    if item["kind"] == "fn":
        return default_hits_compiler_panic(item["ret"])
    return any(side[0] not in ("unused", "bare", "intlit", "floatlit") and default_hits_compiler_panic(side)
               for side in (item["acc"], item["rej"]))


def item_source(item, name, alt=0):
    params = ", ".join("a%d: %s" % (i, roto_type(p, alt + i)) for i, p in enumerate(item["params"]))
    if item["kind"] == "fn":
        ret = item["ret"]
        if ret == ["()"] and alt % 3 == 0:
            return "fn %s(%s) {}" % (name, params)
        return "fn %s(%s) -> %s { %s }" % (name, params, roto_type(ret, alt), default_expr(ret))
    kw = "filter" if alt % 2 == 1 else "filtermap"
    lets = []

    def side(word, form, var):
        if form == ["unused"]:
            return None
        if form == ["bare"]:
            return word
        if form == ["intlit"]:
            return word + " 1"
        if form == ["floatlit"]:
            return word + " 1.5"
        lets.append("let %s: %s = %s;" % (var, roto_type(form, alt), default_expr(form)))
        return "%s %s" % (word, var)

    a = side("accept", item["acc"], "va")
    r = side("reject", item["rej"], "vr")
    if a and r:
        body = "if 1 == 1 { %s } else { %s }" % (a, r)
    else:
        body = a or r
    if body is None:
        raise vlib.ToolError("filtermap that uses neither accept nor reject: %r" % (item,))
    return "%s %s(%s) { %s %s }" % (kw, name, params, " ".join(lets), body)


def has_const_twin(item):
    return (item["kind"] == "fn" and not item["params"] and not item.get("place")
            and not default_hits_compiler_panic(item["ret"]))


def const_name(decl):
    return "K_" + decl.upper()


def const_source(item, name):
    return "const %s: %s = %s;" % (const_name(name), roto_type(item["ret"], 0), default_expr(item["ret"]))


def nonfn_names(decl, item, header=True):
    """names of items the script declares that are not functions (a constant, a record type)"""
    out = [const_name(decl), "pkg." + const_name(decl)] if has_const_twin(item) else []
    return out + (["Rec"] if header else [])


def script_source(named_items):
    leaves = set()
    for _, item in named_items:
        leaves |= item_leaves(item)
    roots = sorted({ns_base(l) for l in leaves if is_namesake(l) and ns_where(l) == "root"})
    subs = sorted({ns_base(l) for l in leaves if is_namesake(l) and ns_where(l) == "sub"})
    if roots:
        # the root module declares namesakes: nothing else may mention the shadowed identifiers
        lines = [ns_decl(b, "root") for b in roots]
    else:
        lines = ["record Rec { x: i32 }",
                 "fn helper_user(a: String, b: List[String], c: Rec) -> bool { let d = c; a == \"x\" && b == [a] && d.x == 1 }"]
    place = named_items[0][1].get("place") if named_items else None
    decls = [item_source(item, name, k) for k, (name, item) in enumerate(named_items)]
    # name class "nonfn": next to every parameterless function a constant of the function's return type
    # (its initialiser is compiled like a function `fn() -> T`, but it is not an item get_function may hand out)
    decls += [const_source(item, name) for name, item in named_items if has_const_twin(item)]
    if place:
        # module tree: the items live in module `at`; a module of fmIn declares a filtermap of its own,
        # every other module only a plain function (the root additionally the usual header)
        def other(m):
            tag = m.replace(".", "_")
            if m in place["fmIn"]:
                return ["filtermap other_%s() { if 1 == 1 { accept 1u8 } else { reject 2u8 } }" % tag]
            return ["fn plain_%s() -> u8 { 0 }" % tag]
        text = ""
        for m in place["mods"]:
            body = (lines if m == "pkg" else []) + (decls if m == place["at"] else other(m))
            text += ("" if m == "pkg" else "//@module %s\n" % m) + "\n".join(body) + "\n"
        return text
    lines += decls
    text = "\n".join(lines) + "\n"
    if subs:
        # sub-module ns (harness: `//@module <name>`): u64 / i64 are always declared there because the
        # other namesakes use them as field / payload types
        decl = sorted(set(subs) | {ns_partner(b) for b in subs})
        decl = sorted(set(decl) | {ns_partner(b) for b in decl if ns_kind(b, "sub") != "enum0"})
        text += "//@module ns\n" + "\n".join(ns_decl(b, "sub") for b in decl) + "\n"
    return text


def symbols(t, out):
    out.add(t[0])
    for x in t[1:]:
        symbols(x, out)


def sig_symbols(s):
    out = set()
    for p in s["params"]:
        symbols(p, out)
    symbols(s["ret"], out)
    return out


# ------------------------------------------------------------------------------- harness

_table = None


def table():
    global _table
    if _table is None:
        r = vlib.run_bin("c04", ["--list"], timeout=120)
        if r.outcome != "returned":
            raise vlib.ToolError("c04 --list failed: %s %s" % (r.outcome, r.err[-500:]))
        _table = {}
        for line in r.out.splitlines():
            if line.strip():
                e = json.loads(line)
                _table[e["id"]] = e
    return _table


def write_script(tag, named_items):
    d = vlib.workdir(PID, "scripts")
    path = os.path.join(d, tag + ".roto")
    with open(path, "w") as f:
        f.write(script_source(named_items))
    r = vlib.run_bin("c04", ["--compile", path], timeout=600, env={"RUST_BACKTRACE": "0"})
    if r.outcome != "returned":
        return path, "compiler did not return normally: %s %s" % (r.outcome, r.err[:1500])
    if not r.out.startswith("ok"):
        return path, r.out[:3000]
    return path, None


def write_sets(tag, sets):
    d = vlib.workdir(PID, "scripts")
    path = os.path.join(d, tag + ".sets.json")
    with open(path, "w") as f:
        json.dump({"sets": sets}, f)
    return path


def unknown_paths(decl, item):
    """an item declared in a sub-module is not known under its bare name, under another module's path, or
    under a path that goes one module too deep / not deep enough"""
    pl = item.get("place")
    if not pl:
        return []
    out = ["zz." + decl, pl["at"] + ".zz." + decl]
    for m in pl["mods"]:
        cand = decl if m == "pkg" else m + "." + decl
        if m != pl["at"]:
            out.append(cand)
    return out


def unknown_names(name):
    """names the script certainly does not declare (declared names are <family>_<n> / g<n>)"""
    return [name + "_", "pkg." + name, name.upper(), "x" + name, "", " " + name, name + ".x", "nosuch"]


# ---------------------------------------------------------------------------------- S->I

def tlc_family(family):
    d = vlib.workdir(PID, "cfg")
    cfg = os.path.join(d, "mc_%s.cfg" % family)
    with open(cfg, "w") as f:
        f.write('SPECIFICATION MCSpec\nCONSTANT Family = "%s"\nINVARIANT Emit\nCHECK_DEADLOCK FALSE\n' % family)
    r = run_tlc("MCTypeGate", cfg, workers=2, timeout=1500, heap="4g", coverage=False)
    require_tlc_ok(r, "MCTypeGate " + family)
    us = [json.loads(vlib._unescape_tla(raw)) for (tag, raw) in r.prints if tag == "UNIVERSE"]
    if len(us) != 1:
        raise vlib.ToolError("MCTypeGate %s printed %d UNIVERSE lines" % (family, len(us)))
    return r, us[0]


def cases_of_family(family, rows, universe):
    """Map TLC's rows to harness cases.  Returns (named_items, cases, expected) aligned."""
    tab = table()
    uids = [sig_id(s) for s in universe]
    missing = [i for i in uids if i not in tab]
    if missing:
        raise vlib.ToolError("%d Rust signatures of family %s are not in the compiled table (e.g. %s): "
                             "run tools/gen_c04_types.py and rebuild" % (len(missing), family, missing[0]))
    for s, i in zip(universe, uids):
        if tab[i]["term"] != {"params": s["params"], "ret": s["ret"]}:
            raise vlib.ToolError("table entry %s does not have the term TLC printed" % i)
    rows = sorted(rows, key=lambda c: (json.dumps(c["item"], sort_keys=True), c["nameclass"]))
    names = {}
    named_items = []
    cases, expected = [], []
    for c in rows:
        key = json.dumps(c["item"], sort_keys=True)
        if key not in names:
            names[key] = "%s_%d" % (family, len(names))
            named_items.append((names[key], c["item"]))
        decl = names[key]
        name = retrieval_name(decl, c["item"])
        ok_ids = sorted(sig_id(s) for s in c["ok"])
        nc = c["nameclass"]
        if nc == "declared":
            case = {"op": "probe", "name": name, "set": family}
            if not c["item"]["params"]:
                case["call"] = ok_ids
        elif nc == "unknown":
            case = {"op": "names", "names": unknown_names(name) + unknown_paths(decl, c["item"]), "set": family}
        elif nc == "helper":
            case = {"op": "helper", "k": sum(1 for x in cases if x["op"] == "helper"), "set": family}
        elif nc == "nonfn":
            nn = nonfn_names(decl, c["item"])   # "Rec" is a record type, or (scripts with root namesakes) not declared at all
            if not nn:
                continue
            case = {"op": "names", "names": nn, "set": family}
        else:
            raise vlib.ToolError("unknown name class " + nc)
        cases.append(case)
        expected.append({"family": family, "item": c["item"], "sig": c["sig"], "nameclass": nc, "name": name, "decl": decl,
                         "ok": ok_ids, "reasons": c["reasons"]})
    return named_items, cases, expected, uids


def judge(exp, case, res, verd, stats):
    """Compare one probed row with TLC's verdict set."""
    what = {"family": exp["family"], "nameclass": exp["nameclass"], "item_kind": exp["item"]["kind"]}
    rep = {"expected": exp, "case": case, "result": res}
    oc = vlib.outcome_of(res)
    if oc != "returned":
        verd.report(dict(what, kind_of_failure=oc.split(":")[0]),
                    "get_function did not return normally (%s) for item %s (name class %s): %s" %
                    (oc, json.dumps(exp["item"]), exp["nameclass"], json.dumps(res)[:300]), rep)
        return False
    r = res["r"]
    for k, n in r["errs"].items():
        stats["impl_errs"][k] = stats["impl_errs"].get(k, 0) + n
    stats["probes"] += r["probes"]
    stats["called"] += r["called"]
    if exp["nameclass"] == "declared":
        got = sorted(r["ok"])
    else:
        got = sorted(set(x[1] for x in r["ok"]))
        if exp["nameclass"] == "helper":
            stats["helpers"] = max(stats["helpers"], r["nhelpers"])
            stats["helper_names"].update(r["names"])
    want = exp["ok"]
    good = True
    for i in got:
        if i not in want:
            names = [x[0] for x in r["ok"] if isinstance(x, list) and x[1] == i]
            verd.report(dict(what, kind_of_failure="handed-out", roto=sig_id(exp["sig"]), rust=i),
                        "get_function::<%s>(%s) returned a callable handle, the specification refuses it: script item %s "
                        "has signature %s (name class %s)" %
                        (i, names or exp["name"], json.dumps(exp["item"]), sig_id(exp["sig"]), exp["nameclass"]), rep)
            good = False
            break
    for i in want:
        if i not in got:
            verd.report(dict(what, kind_of_failure="refused", roto=sig_id(exp["sig"]), rust=i),
                        "get_function::<%s>(%s) was refused, the specification hands it out: script item %s has "
                        "signature %s" % (i, exp["name"], json.dumps(exp["item"]), sig_id(exp["sig"])), rep)
            good = False
            break
    return good


def probe_family(family):
    """TLC + harness for one family (runs in a worker thread; no shared state is touched)."""
    r, universe = tlc_family(family)
    named_items, cases, expected, uids = cases_of_family(family, r.replay, universe)
    sets = write_sets(family, {family: uids})
    groups = script_groups(named_items)
    results = [None] * len(cases)

    def run_group(gno):
        idx = groups[gno]
        tag = family if len(groups) == 1 else "%s_g%d" % (family, gno)
        items = [named_items[k] for k in idx]
        names = {n for n, _ in items}
        script, err = write_script(tag, items)
        if err:
            return (script, err, [], [])
        sel = [k for k, e in enumerate(expected) if e["decl"] in names]
        res = vlib.run_batch("c04", [cases[k] for k in sel], extra=[script, sets],
                             nproc=min(6, max(1, len(sel) // 30)), pid=PID, tag=tag, stall=120)
        return (script, None, sel, res)

    with ThreadPoolExecutor(max_workers=4) as ex:
        for script, err, sel, res in ex.map(run_group, range(len(groups))):
            if err:
                return (family, r, universe, uids, expected, cases, None, script, err)
            for k, x in zip(sel, res):
                results[k] = x
    return (family, r, universe, uids, expected, cases, results, None, None)


def account_family(data, ev, verd, stats):
    family, r, universe, uids, expected, cases, results, script, err = data
    ev.add_tlc(r)
    rows = r.replay
    if err:
        verd.report({"family": family, "kind_of_failure": "script-rejected"},
                    "the script declaring the items of family %s does not compile: %s" % (family, err[:1500]),
                    {"script": script, "error": err})
        return
    for exp, case, res in zip(expected, cases, results):
        judge(exp, case, res, verd, stats)
        ev.case({"family": family, "item": exp["item"], "nameclass": exp["nameclass"], "handed_out": exp["ok"],
                 "universe": len(uids)}, True, key=vlib.shash([family, exp["item"], exp["nameclass"]]))
        ev.traces += 1
        # vacuity statistics
        stats["pairs"] += len(uids)
        stats["rows_by_class"][exp["nameclass"]] = stats["rows_by_class"].get(exp["nameclass"], 0) + 1
        stats["rows_by_kind"][exp["item"]["kind"]] = stats["rows_by_kind"].get(exp["item"]["kind"], 0) + 1
        for k in REASONS:
            stats["reasons"][k] += exp["reasons"][k]
        stats["reasons"]["ok"] += len(exp["ok"])
        if exp["item"]["kind"] == "filtermap":
            for side in (exp["item"]["acc"], exp["item"]["rej"]):
                f = side[0] if side[0] in ("unused", "bare", "intlit", "floatlit") else "typed"
                stats["fm_sides"][f] = stats["fm_sides"].get(f, 0) + 1
        if family == "mod" and exp["nameclass"] == "declared":
            it, pl = exp["item"], exp["item"]["place"]
            earlier = pl["mods"][:pl["mods"].index(pl["at"])]
            pos = ("root-only" if len(pl["mods"]) == 1 else "first-module" if not earlier else
                   "later-module/earlier-without-filtermap" if any(m not in pl["fmIn"] for m in earlier) else
                   "later-module/earlier-all-with-filtermap")
            if it["kind"] == "fn":
                form = "fn"
            else:
                used = [x[0] != "unused" for x in (it["acc"], it["rej"])]
                form = "both-sides" if all(used) else "accept-only" if used[0] else "reject-only"
            key = "%s/%s%s" % (pos, form, "" if exp["ok"] else "/never-retrievable")
            stats["mod_rows"][key] = stats["mod_rows"].get(key, 0) + 1
            if "." in pl["at"]:
                stats["mod_rows"]["nested-module"] = stats["mod_rows"].get("nested-module", 0) + 1
        if family == "ns":
            it = exp["item"]
            if it["kind"] == "fn":
                pos, t = ("param", it["params"][0]) if it["params"] else ("return", it["ret"])
            else:
                pos, t = "filtermap", (it["acc"] if it["acc"][0] not in ("unused", "bare") else it["rej"])
            lv = set()
            term_leaves(t, lv)
            nsl = [l for l in lv if is_namesake(l)]
            where = ns_where(nsl[0]) if nsl else "control"
            key = "%s/%s/%s" % (where, pos, "bare" if len(t) == 1 else "under-" + t[0])
            stats["ns_rows"][key] = stats["ns_rows"].get(key, 0) + 1
            if nsl:
                kk = "declared-as-" + ns_kind(ns_base(nsl[0]), where)
                stats["ns_rows"][kk] = stats["ns_rows"].get(kk, 0) + 1
                if exp["ok"]:
                    raise vlib.ToolError("the specification hands out a function that mentions a namesake type")
            elif exp["ok"]:
                stats["ns_rows"]["control-handed-out"] = stats["ns_rows"].get("control-handed-out", 0) + 1
        for i in exp["ok"]:
            for s in sig_symbols(table()[i]["term"]):
                stats["ok_sym"][s] = stats["ok_sym"].get(s, 0) + 1
    for s in universe:
        for y in sig_symbols(s):
            stats["err_sym"][y] = stats["err_sym"].get(y, 0) + 1
    stats["families"][family] = {"rows": len(rows), "universe": len(uids)}


# ---------------------------------------------------------------------------------- I->S

ROTO_OF_RUST = {"RotoString": "String", "Val<RegA>": "RegA", "Val<RegB>": "RegB"}
ROTO_LEAVES = ["bool", "u8", "u16", "u32", "u64", "i8", "i16", "i32", "i64", "f32", "f64", "char", "String", "Asn",
               "IpAddr", "Prefix", "()", "RegA", "RegB", "Rec"]


def gen_to_roto(rng, t):
    """generator only (not an oracle): a Roto type that resembles the Rust term"""
    if len(t) == 1:
        if t[0] == "Val<Unreg>":
            return [rng.choice(["RegA", "RegB", "Rec"])]
        return [ROTO_OF_RUST.get(t[0], t[0])]
    return [t[0]] + [gen_to_roto(rng, x) for x in t[1:]]


def gen_random_type(rng, depth):
    if depth == 0 or rng.random() < 0.5:
        return [rng.choice(ROTO_LEAVES)]
    c = rng.choice(["Option", "List", "Result", "Verdict"])
    if c in ("Option", "List"):
        return [c, gen_random_type(rng, depth - 1)]
    return [c, gen_random_type(rng, depth - 1), gen_random_type(rng, depth - 1)]


def gen_mutate_type(rng, t):
    """one random structural change somewhere in t"""
    if len(t) > 1 and rng.random() < 0.6:
        k = rng.randrange(1, len(t))
        return t[:k] + [gen_mutate_type(rng, t[k])] + t[k + 1:]
    m = rng.randrange(8)
    if m == 6 and len(t) == 1 and t[0] in NS_BASES:
        return ["pkg.ns." + t[0]]                       # the script's own type of that identifier (module ns)
    if m == 0:
        return ["Option", t]
    if m == 1:
        return ["List", t]
    if m == 2 and len(t) == 2:
        return t[1]                                     # unwrap
    if m == 3 and len(t) == 3:
        return [t[0], t[2], t[1]]                       # swap type arguments
    if m == 4 and len(t) > 1:
        other = {"Option": "List", "List": "Option", "Result": "Verdict", "Verdict": "Result"}[t[0]]
        return [other] + t[1:]                          # other constructor of the same arity
    if m == 5 and len(t) == 1:
        near = {"u8": "i8", "i8": "u8", "u16": "i16", "i16": "u16", "u32": "i32", "i32": "u32", "u64": "i64",
                "i64": "u64", "f32": "f64", "f64": "f32", "char": "u32", "Asn": "u32", "String": "char",
                "IpAddr": "Prefix", "Prefix": "IpAddr", "RegA": "RegB", "RegB": "RegA", "()": "bool", "bool": "u8",
                "Rec": "RegA"}
        return [ns_base(t[0])] if is_namesake(t[0]) else [near[t[0]]]
    return gen_random_type(rng, 1)


def gen_item(rng, entry):
    term = entry["term"]
    params = [gen_to_roto(rng, p) for p in term["params"]]
    ret = gen_to_roto(rng, term["ret"])
    nmut = rng.choice([0, 0, 0, 1, 1, 2])
    for _ in range(nmut):
        m = rng.randrange(6)
        if m == 0 and params:
            k = rng.randrange(len(params))
            params[k] = gen_mutate_type(rng, params[k])
        elif m == 1:
            ret = gen_mutate_type(rng, ret)
        elif m == 2 and len(params) >= 2:
            i, j = rng.sample(range(len(params)), 2)
            params[i], params[j] = params[j], params[i]
        elif m == 3 and params:
            del params[rng.randrange(len(params))]
        elif m == 4 and len(params) < 8:
            params.insert(rng.randrange(len(params) + 1), gen_random_type(rng, 1))
        else:
            ret = gen_mutate_type(rng, ret)
    if ret[0] == "Verdict" and rng.random() < 0.6:
        # declare it as a filtermap whose body produces (more or less) that verdict
        def form(t):
            x = rng.random()
            if t == ["()"]:
                return ["unused"] if x < 0.5 else ["bare"]
            if t == ["i32"] and x < 0.5:
                return ["intlit"]
            if t == ["f64"] and x < 0.5:
                return ["floatlit"]
            if x < 0.08:
                return rng.choice([["bare"], ["intlit"], ["floatlit"]])
            return t
        acc, rej = form(ret[1]), form(ret[2])
        if acc == ["unused"] and rej == ["unused"]:
            acc = ["bare"]
        return {"kind": "filtermap", "params": params, "acc": acc, "rej": rej}
    return {"kind": "fn", "params": params, "ret": ret}


def first_line(err):
    import re
    m = re.search(r"panicked at (\S+?):(\d+):\d+", err)
    if m:
        f = m.group(1)
        return "panic at %s:%s" % (f[f.index("src/"):] if "src/" in f else f, m.group(2))
    for l in err.splitlines():
        if "panicked at" in l or l.startswith("Error") or "rror:" in l:
            return l.strip()[:300]
    return err.strip().splitlines()[0][:300] if err.strip() else "?"


def compile_isolating(tag, triples, verd):
    """Compile the script of the random items.  Items roto's compiler cannot digest (panic / rejection of a
    declaration that only mentions boundary types) are isolated by bisection, reported, and left out so
    that the rest of the pass still runs.  Returns (script path or None, kept triples)."""
    triples = list(triples)
    for _ in range(4):
        script, err = write_script(tag, [(n, it) for (n, it, _) in triples])
        if not err:
            return script, triples
        lo, hi = 0, len(triples)            # invariant: prefix [:hi] fails, prefix [:lo] compiles
        while hi - lo > 1:
            mid = (lo + hi) // 2
            _, e2 = write_script(tag + "_bisect", [(n, it) for (n, it, _) in triples[:mid]])
            if e2:
                hi, err = mid, e2
            else:
                lo = mid
        name, item, _ = triples[hi - 1]
        verd.report({"family": "random", "kind_of_failure": "script-rejected", "error": first_line(err)},
                    "roto does not compile the declaration `%s`: %s" % (item_source(item, name, hi - 1), err[:1200]),
                    {"script_item": item, "source": item_source(item, name, hi - 1), "error": err[:4000]})
        del triples[hi - 1]
    verd.report({"family": "random", "kind_of_failure": "script-rejected", "error": "more than 4 declarations"},
                "the script declaring the random items does not compile: %s" % err[:1500], {"error": err[:4000]})
    return None, triples


UNIT_ENUM_EQ_PROBE = "fn probe_unit_payload_eq() -> List[()?] { [] }\n"


def known_compiler_panic_probe(verd, stats):
    """Keeps the compiler panic the random generator steers around visible (see default_hits_compiler_panic)."""
    path = os.path.join(vlib.workdir(PID, "scripts"), "probe_unit_payload_eq.roto")
    with open(path, "w") as f:
        f.write(UNIT_ENUM_EQ_PROBE)
    r = vlib.run_bin("c04", ["--compile", path], timeout=600, env={"RUST_BACKTRACE": "0"})
    if r.outcome == "returned" and r.out.startswith("ok"):
        stats["unit_payload_eq_probe"] = "compiles"
        stats["steer"] = False
        return
    stats["steer"] = True
    err = r.out if r.outcome == "returned" else "compiler did not return normally: %s %s" % (r.outcome, r.err[:1500])
    stats["unit_payload_eq_probe"] = first_line(err)
    verd.report({"family": "probe", "kind_of_failure": "script-rejected", "error": first_line(err)},
                "roto does not compile `%s`: %s" % (UNIT_ENUM_EQ_PROBE.strip(), err[:1200]),
                {"script": path, "error": err[:4000]})


def impl_to_spec(tier, ev, verd, stats):
    rng = random.Random(vlib.seed() * 31 + 4)
    tab = table()
    ids = sorted(tab)
    by_arity = {}
    for i in ids:
        by_arity.setdefault(len(tab[i]["term"]["params"]), []).append(i)
    chunks = [1500] if tier == "quick" else [8000] * 5
    total_events = ok_events = 0
    for cno, nitems in enumerate(chunks):
        triples = []
        for k in range(nitems):
            while True:
                e = tab[rng.choice(ids)]
                item = gen_item(rng, e)
                if not (stats.get("steer") and item_needs_panicking_default(item)):
                    break
                stats["redrawn_items"] = stats.get("redrawn_items", 0) + 1
            name = "g%d" % k
            probe_ids = {e["id"]}
            ar = len(item["params"])
            for _ in range(3):
                if by_arity.get(ar):
                    probe_ids.add(rng.choice(by_arity[ar]))
            probe_ids.add(rng.choice(ids))
            probe_ids = sorted(probe_ids)
            x = rng.random()
            if x < 0.90:
                nc, case = "declared", {"op": "probe", "name": name, "ids": probe_ids}
            elif x < 0.94:
                nc, case = "unknown", {"op": "names", "names": unknown_names(name), "ids": probe_ids}
            elif x < 0.97 and has_const_twin(item):
                nc, case = "nonfn", {"op": "names", "names": [const_name(name)], "ids": probe_ids}
            else:
                nc, case = "helper", {"op": "helper", "k": k, "ids": probe_ids}
            triples.append((name, item, (nc, case, probe_ids)))
        tag = "random%d" % cno
        script, triples = compile_isolating(tag, triples, verd)
        if script is None:
            return
        cases = [t[2][1] for t in triples]
        sets = write_sets(tag, {})
        results = vlib.run_batch("c04", cases, extra=[script, sets], nproc=8, pid=PID, tag=tag, stall=120)
        events = []
        for (name, item, (nc, case, probe_ids)), res in zip(triples, results):
            oc = vlib.outcome_of(res)
            if oc != "returned":
                verd.report({"family": "random", "nameclass": nc, "item_kind": item["kind"], "kind_of_failure": oc.split(":")[0]},
                            "get_function did not return normally (%s) for item %s" % (oc, json.dumps(item)),
                            {"item": item, "case": case, "result": res})
                continue
            r = res["r"]
            if nc == "helper" and not r["names"]:
                continue
            got = set(r["ok"]) if nc == "declared" else set(x[1] for x in r["ok"])
            for i in probe_ids:
                events.append({"item": item, "nameclass": nc, "rust": tab[i]["term"], "res": "ok" if i in got else "err"})
                ev.impl_actions.add("%s/%s/%s" % (item["kind"], nc, "ok" if i in got else "err"))
            stats["probes"] += r["probes"]
        path = os.path.join(vlib.workdir(PID, "trace"), "trace_%s.ndjson" % tag)
        vlib.write_ndjson(path, events)
        validate_events(path, events, ev, verd)
        total_events += len(events)
        ok_events += sum(1 for e in events if e["res"] == "ok")
    stats["trace_events"] = total_events
    stats["trace_ok_events"] = ok_events
    if any(sig.get("family") != "probe" for (sig, _, _) in verd.violations):
        return
    for need in ("fn/declared/ok", "fn/declared/err", "filtermap/declared/ok", "filtermap/declared/err",
                 "fn/unknown/err", "fn/helper/err"):
        if need not in ev.impl_actions:
            raise vlib.ToolError("I->S trace never contains an event of class %s (vacuous)" % need)


def validate_events(path, events, ev, verd):
    r = vlib.validate_trace("TraceTypeGate", "TraceTypeGate.cfg", path, timeout=1500, heap="4g")
    ev.add_tlc(r)
    if r.ok:
        ev.traces += len(events)
        return True
    if r.postcondition_failed and r.replay:
        un = r.replay[0]
        e = un["ev"]
        verd.report({"family": "random", "nameclass": e.get("nameclass", "?"), "item_kind": e.get("item", {}).get("kind", "?"),
                     "kind_of_failure": "trace-rejected:" + ("handed-out" if e.get("res") == "ok" else "refused"),
                     "rust": sig_id(e["rust"]) if "rust" in e else "?"},
                    "recorded retrieval is not allowed by TypeGate (line %s): item %s requested as %s (name class %s) -> %s" %
                    (un["line"], json.dumps(e.get("item")), sig_id(e["rust"]), e.get("nameclass"), e.get("res")),
                    {"trace": path, "unmatched": un, "event": e})
        return False
    raise vlib.ToolError("trace validation failed to run: %s\n%s" % (r.error, r.stdout[-2000:]))


# ----------------------------------------------------------------------------------- run

def new_stats():
    return {"pairs": 0, "probes": 0, "called": 0, "impl_errs": {}, "reasons": {k: 0 for k in REASONS + ["ok"]},
            "rows_by_class": {}, "rows_by_kind": {}, "fm_sides": {}, "ok_sym": {}, "err_sym": {}, "families": {},
            "helpers": 0, "helper_names": set(), "ns_rows": {}, "mod_rows": {}}


RUST_SYMBOLS = ["bool", "u8", "u16", "u32", "u64", "i8", "i16", "i32", "i64", "f32", "f64", "char", "RotoString", "Asn",
                "IpAddr", "Prefix", "()", "Val<RegA>", "Val<RegB>", "Val<Unreg>", "Option", "List", "Result", "Verdict"]


def vacuity_guard(stats):
    for k in REASONS + ["ok"]:
        if stats["reasons"][k] == 0:
            raise vlib.ToolError("no (item, Rust signature) pair is decided by the gate arm '%s' (vacuous)" % k)
    for nc in ("declared", "unknown", "helper", "nonfn"):
        if not stats["rows_by_class"].get(nc):
            raise vlib.ToolError("no row of name class %s" % nc)
    for kind in ("fn", "filtermap"):
        if not stats["rows_by_kind"].get(kind):
            raise vlib.ToolError("no row of item kind %s" % kind)
    for f in ("unused", "bare", "intlit", "floatlit", "typed"):
        if not stats["fm_sides"].get(f):
            raise vlib.ToolError("no filtermap row with side form %s" % f)
    for s in RUST_SYMBOLS:
        if not stats["err_sym"].get(s):
            raise vlib.ToolError("no refused Rust signature mentions %s" % s)
        if s != "Val<Unreg>" and not stats["ok_sym"].get(s):
            raise vlib.ToolError("no handed-out Rust signature mentions %s" % s)
    if stats["ok_sym"].get("Val<Unreg>"):
        raise vlib.ToolError("the specification hands out a signature with an unregistered type")
    for where in ("root", "sub", "control"):
        for pos in ("param", "return"):
            for shape in ("bare", "under-Option", "under-List", "under-Result", "under-Verdict"):
                if not stats["ns_rows"].get("%s/%s/%s" % (where, pos, shape)):
                    raise vlib.ToolError("no namesake row %s/%s/%s (vacuous)" % (where, pos, shape))
        if not stats["ns_rows"].get("%s/filtermap/bare" % where):
            raise vlib.ToolError("no namesake filtermap row for %s" % where)
    for pos in ("root-only", "first-module", "later-module/earlier-without-filtermap",
                "later-module/earlier-all-with-filtermap"):
        for form in ("accept-only", "reject-only", "both-sides", "fn"):
            if not stats["mod_rows"].get("%s/%s" % (pos, form)):
                raise vlib.ToolError("no retrievable module-placement row %s/%s (vacuous)" % (pos, form))
    if not stats["mod_rows"].get("nested-module"):
        raise vlib.ToolError("no module-placement row in a nested module")
    for k in ("declared-as-record", "declared-as-enum", "control-handed-out"):
        if not stats["ns_rows"].get(k):
            raise vlib.ToolError("no namesake row %s (vacuous)" % k)
    if stats["helpers"] == 0:
        raise vlib.ToolError("the ladder script produced no compiler-generated helper to probe")
    for k in ("DoesNotExist", "IncorrectNumberOfArguments", "TypeMismatch:argument", "TypeMismatch:return"):
        if not stats["impl_errs"].get(k):
            raise vlib.ToolError("the implementation never refused with %s (vacuous)" % k)


def run(tier):
    ev = Evidence(PID, tier)
    verd = Verdicts(PID)
    vlib.build_harness(["c04"])
    table()
    stats = new_stats()
    fams = QUICK_FAMILIES if tier == "quick" else THOROUGH_FAMILIES
    ev.rule = ("case = one row of TLC's verdict table: (script item, name class) judged against EVERY Rust signature of "
               "the family's universe (handed-out set must equal TLC's set); distinct = distinct (family, item, name "
               "class); every row is non-trivial: it contains the complete accept/refuse decision for its universe")
    # TLC runs and probing of different families overlap (TLC: 2-3 workers each, at most 2 at a time)
    with ThreadPoolExecutor(max_workers=3) as ex:
        futs = [ex.submit(probe_family, f) for f in fams]
        for f in futs:
            account_family(f.result(), ev, verd, stats)
    known_compiler_panic_probe(verd, stats)      # decides whether the random generator has to steer
    impl_to_spec(tier, ev, verd, stats)
    if not any(sig.get("family") != "probe" for (sig, _, _) in verd.violations):
        vacuity_guard(stats)
    ev.exhaustive = True
    ev.extra["families"] = stats["families"]
    ev.extra["gate_evaluations_in_tlc"] = stats["pairs"]
    ev.extra["get_function_probes"] = stats["probes"]
    ev.extra["smoke_calls_of_handed_out_functions"] = stats["called"]
    ev.extra["spec_refusing_arm_counts"] = stats["reasons"]
    ev.extra["impl_error_kinds"] = stats["impl_errs"]
    ev.extra["rows_by_name_class"] = stats["rows_by_class"]
    ev.extra["rows_by_item_kind"] = stats["rows_by_kind"]
    ev.extra["filtermap_side_forms"] = stats["fm_sides"]
    ev.extra["namesake_rows"] = stats["ns_rows"]
    ev.extra["module_placement_rows"] = stats["mod_rows"]
    ev.extra["handed_out_signatures_mentioning"] = stats["ok_sym"]
    ev.extra["compiler_generated_helpers_probed"] = sorted(n for n in stats["helper_names"] if n.startswith("::"))[:12]
    ev.extra["trace_events"] = stats.get("trace_events", 0)
    ev.extra["trace_events_ok"] = stats.get("trace_ok_events", 0)
    ev.extra["random_items_redrawn_to_avoid_known_compiler_panic"] = stats.get("redrawn_items", 0)
    ev.extra["unit_payload_eq_probe"] = stats.get("unit_payload_eq_probe")
    ev.assumptions = [
        "types: 20 leaves (16 primitives, (), two registered Val types, one unregistered Val type; Roto side: a script record "
        "instead of the unregistered type); quick: all terms of depth <= 1 (860 x 860 per position); thorough: plus 336 terms "
        "of depth 2 over {u8,i8,RegA} (binary constructors with at most one non-leaf argument) and 216 chains of depth 3",
        "arities 0..7 on the Rust side (RotoFunc is implemented for 0..7), 0..8 on the Roto side; multi-parameter signatures "
        "only on the ladder (one deviating position, swapped neighbours) and in the seeded random pass",
        "the set of requestable Rust types is the compiled-in table (generated from TLC's Universe sets)",
        "module placement: trees of at most 3 modules (pkg, a, b | a.c), parameterless filtermaps over {unused, bare, "
        "literal, u8, String} and three plain functions; all other families declare their functions in the root module; "
        "one sub-module `ns` holds script-declared namesake types; tests (`test` items) are not probed",
        "namesakes: one record or enum per leaf identifier and module (root / ns), nested one level; no Rust type may "
        "retrieve them (neither the same-named leaf nor Val<T> registered under that name)",
        "error kind (DoesNotExist / IncorrectNumberOfArguments / TypeMismatch) is recorded, not asserted",
    ]
    rc = verd.finish()
    ev.write(len(verd.violations))
    return rc


def replay(path):
    obj = json.load(open(path))["replay"]
    vlib.build_harness(["c04"])
    verd = Verdicts(PID)
    ev = Evidence(PID, "quick")
    stats = new_stats()
    if "expected" in obj:
        exp = obj["expected"]
        script, err = write_script("replay", [(exp.get("decl", exp["name"]), exp["item"])])
        if err:
            print("script rejected:\n" + err)
            return 1
        case = dict(obj["case"])
        if "set" in case:
            fam = case.pop("set")
            r, universe = tlc_family(fam)
            case["ids"] = [sig_id(s) for s in universe]
        sets = write_sets("replay", {})
        res = vlib.run_batch("c04", [case], extra=[script, sets], nproc=1, pid=PID, tag="replay", stall=120)
        judge(exp, case, res[0], verd, stats)
    elif "event" in obj:
        e = obj["event"]
        name = "g0"
        script, err = write_script("replay", [(name, e["item"])])
        if err:
            print("script rejected:\n" + err)
            return 1
        i = sig_id(e["rust"])
        nc = e["nameclass"]
        case = ({"op": "probe", "name": name, "ids": [i]} if nc == "declared" else
                {"op": "names", "names": unknown_names(name), "ids": [i]} if nc == "unknown" else
                {"op": "names", "names": [const_name(name)], "ids": [i]} if nc == "nonfn" else
                {"op": "helper", "k": 0, "ids": [i]})
        sets = write_sets("replay", {})
        res = vlib.run_batch("c04", [case], extra=[script, sets], nproc=1, pid=PID, tag="replay", stall=120)[0]
        if vlib.outcome_of(res) != "returned":
            verd.report({"family": "random", "kind_of_failure": vlib.outcome_of(res)}, "did not return: %s" % res, obj)
        else:
            got = res["r"]["ok"]
            e2 = dict(e, res="ok" if got else "err")
            p = os.path.join(vlib.workdir(PID, "trace"), "trace_replay.ndjson")
            vlib.write_ndjson(p, [e2])
            validate_events(p, [e2], ev, verd)
    elif "source" in obj or "script" in obj:
        if "source" in obj:
            path = os.path.join(vlib.workdir(PID, "scripts"), "replay.roto")
            with open(path, "w") as f:
                f.write("record Rec { x: i32 }\n" + obj["source"] + "\n")
        else:
            path = obj["script"]
            if not os.path.exists(path):
                with open(path, "w") as f:
                    f.write(UNIT_ENUM_EQ_PROBE)
        r = vlib.run_bin("c04", ["--compile", path], timeout=600, env={"RUST_BACKTRACE": "0"})
        if not (r.outcome == "returned" and r.out.startswith("ok")):
            err = r.out if r.outcome == "returned" else "%s %s" % (r.outcome, r.err[:1500])
            verd.report({"family": "replay", "kind_of_failure": "script-rejected", "error": first_line(err)},
                        "roto does not compile %s: %s" % (path, err[:1200]), obj)
    return verd.finish()
