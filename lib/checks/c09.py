"""C09 - source text means what the documented grammar says.

Spec: spec/Literals.tla (Denote: what a literal / identifier / commented program means according to the
      language reference; TokenShape: the tokens it must lex to), spec/Prec.tla (the operator grammar of
      the reference: Parse, Paren, typing, Eval), spec/MCLiterals.tla + spec/MCPrec.tla (case generation),
      spec/TraceGrammar.tla (trace acceptance).
S->I: TLC enumerates spellings family by family (digit groups with underscores in every position x every
      suffix x context type, boundary magnitudes, hexadecimal, exactly representable floats, every escape /
      line continuation / {{ }} / interpolation in strings, f-strings and chars (all item sequences up to a
      bound + seeded walks), IPv4/IPv6/prefix/AS literals, identifier class strings, keywords, comments and
      shebang lines, the suffix x spelling x context-type matrix of numbers ("sufx": a suffixed literal has the
      suffix's type whatever its digits look like, so another context type must not compile), programs as
      piece sequences with trivia in every gap and every way the input can end ("prog"/"progg": comment,
      commented-out code or shebang as the last line with and without a final line end; denotation = which
      functions exist and what they return)) together with Denote and TokenShape, and every operator string up to a bound (+ seeded
      longer ones) together with Parse / Paren / operand types / values.  Every case is rendered to source
      text, compiled and called by the real crate (harness/src/bin/c09.rs) and the observation (value,
      accept/reject, token boundaries via roto::verif::lex) is compared with what TLC printed.
I->S: seeded random concrete spellings and expressions beyond TLC's bounds (20-digit numbers, random
      dyadic floats, arbitrary code points, long item sequences, long operator strings, numbers whose suffix
      names another type than the context (return type / annotated let / parameter) requires, random programs
      of items, comments, commented-out items, white space and shebangs with any ending) are compiled by
      the harness; python abstracts them into the spec's symbol sequences and TLC accepts the trace iff
      every observation is what Denote / Parse+Eval say (TraceGrammar.tla).
This module only maps representations (symbol sequence <-> text, IEEE bits <-> sign/mantissa/exponent,
decimal string <-> digit list); every expected value comes from TLC.
"""
import json
import os
import random
import re
from concurrent.futures import ThreadPoolExecutor

import vlib
from vlib import Evidence, Verdicts, run_tlc, require_tlc_ok

PID = "C09"

OPTEXT = {"or": "||", "and": "&&", "eq": "==", "ne": "!=", "lt": "<", "le": "<=", "gt": ">", "ge": ">=",
          "add": "+", "sub": "-", "mul": "*", "div": "/", "mod": "%", "neg": "-", "not": "!"}
BINOPS = ["or", "and", "eq", "ne", "lt", "le", "gt", "ge", "add", "sub", "mul", "div", "mod"]
UNOPS = ["neg", "not"]
LEVEL = {"or": 1, "and": 1, "eq": 2, "ne": 2, "lt": 2, "le": 2, "gt": 2, "ge": 2, "add": 3, "sub": 3,
         "mul": 4, "div": 4, "mod": 4}

KEYWORDS = ["accept", "const", "dep", "else", "enum", "filter", "filtermap", "for", "fn", "if", "import", "in",
            "let", "match", "pkg", "record", "reject", "return", "std", "super", "test", "while", "true", "false"]

# ------------------------------------------------------------------ representation mapping: symbols -> text

ESC = {"0": "\\0", "t": "\\t", "n": "\\n", "r": "\\r", "dq": "\\\"", "sq": "\\'", "bs": "\\\\"}
INTERP_TEXT = {"int7": "7", "int1_0": "1_0", "neg3": "-3", "true": "true", "padded": " 7 ",
               "str": "\"é}\\\"\"", "nested": "f\"{{{5}\"", "sum": "5 + 7"}
SHEBANG = {"": "", "path": "#!/usr/bin/roto\n", "args": "#!/usr/bin/env -S roto run --quiet\n",
           "utf8": "#!/opt/ünï/東京/\U0001d4b3 ́x\n", "space": "#! /usr/bin/env roto\n",
           "bare": "#!\n", "crlf": "#!/usr/bin/roto\r\n"}
COMMENT = {"": "", "plain": "// a comment\n", "empty": "//\n", "utf8": "// é東\U0001d4b3́ ü\n",
           "quotes": "// \" ' f\" {{ \\ \n", "code": "// } fn g() -> i32 { 2 }\n", "slashes": "//// /* */ //\n",
           "crlf": "// c\r\n"}

# programs with trivia (Literals.tla "Programs with trivia"): piece -> text
WS_TEXT = {"sp": " ", "tab": "\t", "nl": "\n", "crlf": "\r\n"}
COM_BODY = {"empty": "", "plain": " a comment", "utf8": " é東\U0001d4b3́ ü", "quotes": " \" ' f\" {{ \\ ",
            "code": " } fn g() -> i32 { 2 }", "slashes": "// /* */ //", "item_g": " fn g() -> i32 { 2 }",
            "item_f": " fn f() -> i32 { 9 }", "shebang": " #!/bin/sh"}
SHEB_BODY = {"path": "/usr/bin/roto", "args": "/usr/bin/env -S roto run --quiet", "utf8": "/opt/ünï/東京/\U0001d4b3 ́x",
             "space": " /usr/bin/env roto", "bare": "", "item_g": "fn g() -> i32 { 2 }"}
PROBES = ["f", "g", "h"]        # Literals.ProbeNames
POS_FORMS = ["ret", "let", "arg"]


def piece_text(p):
    k = p["k"]
    if k == "t":
        return p["t"]
    if k == "d":
        return "".join(p["ds"])
    if k == "ws":
        return WS_TEXT[p["w"]]
    if k == "com":
        return "//" + COM_BODY[p["body"]]
    if k == "sheb":
        return "#!" + SHEB_BODY[p["body"]]
    raise vlib.ToolError("unknown piece %r" % (p,))


# representatives of the identifier character classes (Literals.tla "Identifiers")
CLS_REPS = {
    "L": ["q", "Z", "k", "j", "x", "w"],
    "D": ["0", "7", "3"],
    "U": ["_"],
    "S2": ["é", "ß", "Ж", "λ"],
    "S3": ["東", "あ", "ก", "℘"],
    "S4": ["\U0001d4b3", "\U00010400", "\U00020000"],
    "C2": ["́", "٣", "·"],
    "C3": ["‿", "゙", "ั", "⃐"],
    "C4": ["\U0001d7ce", "\U000e0100", "\U00011001"],
    "N1": ["-", ".", "$", "@", "~"],
    "N2": ["§", "£", "¬"],
    "N3": ["€", "“", "→", "∞"],
    "N4": ["\U0001f600", "\U0001f389", "\U0001d11e"],
}
CLS_WIDTH = {"L": 1, "D": 1, "U": 1, "N1": 1, "S2": 2, "C2": 2, "N2": 2, "S3": 3, "C3": 3, "N3": 3,
             "S4": 4, "C4": 4, "N4": 4}


def check_rep_table():
    """The representative table must be consistent with an independent Unicode database (python's)."""
    for body in list(COM_BODY.values()) + list(SHEB_BODY.values()):
        if "\n" in body or "\r" in body:
            raise vlib.ToolError("comment / shebang text %r contains a line end (the specification says it does not)" % body)
    for cls, reps in list(CLS_REPS.items()) + list(BIG_REPS.items()):
        for c in reps:
            if len(c.encode("utf-8")) != CLS_WIDTH[cls]:
                raise vlib.ToolError("representative %r of class %s has the wrong UTF-8 width" % (c, cls))
            start = c.isidentifier()
            cont = ("a" + c).isidentifier()
            want = (True, True) if cls in ("L", "U", "S2", "S3", "S4") else (False, True) if cls in ("D", "C2", "C3", "C4") else (False, False)
            if (start, cont) != want:
                raise vlib.ToolError("representative %r (U+%04X) is not of class %s" % (c, ord(c[0]), cls))


def item_text(it):
    k = it["k"]
    if k == "c":
        return chr(it["cp"])
    if k == "e":
        return ESC[it["s"]]
    if k == "x":
        return "\\x" + it["hi"] + it["lo"]
    if k == "u":
        return "\\u{" + "".join(it["ds"]) + "}"
    if k == "cont":
        return "\\\n" + "".join(chr(c) for c in it["ws"])
    if k == "lb":
        return "{{"
    if k == "rb":
        return "}}"
    if k == "i":
        return "{" + INTERP_TEXT[it["e"]] + "}"
    raise vlib.ToolError("unknown item %r" % (it,))


def ip_text(sp):
    if sp["fam"] == "ip4":
        return ".".join("".join(o) for o in sp["o"])
    pre = ":".join("".join(g) for g in sp["pre"])
    post = ":".join("".join(g) for g in sp["post"])
    return pre + "::" + post if sp["comp"] else pre


def render(sp, variant=0):
    """spelling -> (source text of the literal, return type of the probing function)."""
    fam = sp["fam"]
    if fam == "int":
        return ("-" if sp["neg"] else "") + ("0x" if sp["radix"] == "hex" else "") + "".join(sp["ds"]) + sp["suf"], sp["ctx"]
    if fam == "float":
        t = ("-" if sp["neg"] else "") + "".join(sp["ip"])
        if sp["dot"]:
            t += "." + "".join(sp["fp"])
        if sp["ex"]:
            t += sp["ex"] + sp["es"] + "".join(sp["ed"])
        return t + sp["suf"], sp["ctx"]
    if fam == "str":
        return '"' + "".join(item_text(i) for i in sp["items"]) + '"', "String"
    if fam == "fstr":
        return 'f"' + "".join(item_text(i) for i in sp["items"]) + '"', "String"
    if fam == "char":
        return "'" + "".join(item_text(i) for i in sp["items"]) + "'", "char"
    if fam in ("ip4", "ip6"):
        return ip_text(sp), "IpAddr"
    if fam == "pfx":
        return ip_text(sp["ip"]) + "/" + "".join(sp["len"]), "Prefix"
    if fam == "asn":
        return "AS" + "".join(sp["ds"]), "Asn"
    if fam == "ident":
        out = []
        for k, c in enumerate(sp["cls"]):
            reps = CLS_REPS[c]
            out.append(reps[(variant * 7 + k * 3 + variant * k) % len(reps)])
        return "".join(out), "i32"
    if fam == "word":
        return sp["w"], "i32"
    if fam == "trivia":
        toks = ["fn", "f", "(", ")", "->", "i32", "{", "".join(sp["val"]), "}"]
        t = SHEBANG[sp["sheb"]]
        for g, tok in zip(sp["gaps"], toks):
            t += COMMENT[g] + tok + " "
        t += COMMENT[sp["gaps"][9]]
        return t, "i32"
    if fam == "prog":
        return "".join(piece_text(p) for p in sp["ps"]), "i32"
    raise vlib.ToolError("unknown family %r" % fam)


def harness_case(sp, text, ty, want_lex):
    fam = sp["fam"]
    if fam in ("ident", "word"):
        c = {"src": "fn %s() -> i32 { 1 }\n" % text, "fns": [{"n": text, "t": "i32"}]}
    elif fam == "trivia":
        c = {"src": text, "fns": [{"n": "f", "t": "i32"}]}
    elif fam == "prog":
        c = {"src": text, "fns": [{"n": n, "t": "i32"} for n in PROBES]}
    elif sp.get("pos", "ret") == "let":
        c = {"src": "fn f() -> %s { let x: %s = %s; x }\n" % (ty, ty, text), "fns": [{"n": "f", "t": ty}]}
    elif sp.get("pos", "ret") == "arg":
        c = {"src": "fn id(x: %s) -> %s { x }\nfn f() -> %s { id(%s) }\n" % (ty, ty, ty, text), "fns": [{"n": "f", "t": ty}]}
    elif sp.get("pos", "ret") != "ret":
        raise vlib.ToolError("unknown context position %r" % (sp.get("pos"),))
    else:
        c = {"src": "fn f() -> %s { %s }\n" % (ty, text), "fns": [{"n": "f", "t": ty}]}
    if want_lex:
        c["lex"] = [text + " ;"]
    return c


# ------------------------------------------------------------------ representation mapping: observation -> value

def digits(n):
    return [int(c) for c in str(n)]


def decode_float(bits, ty):
    if ty == "f64":
        sign, e, frac, mb, bias, emax = bits >> 63, (bits >> 52) & 0x7ff, bits & ((1 << 52) - 1), 52, 1075, 0x7ff
    else:
        sign, e, frac, mb, bias, emax = bits >> 31, (bits >> 23) & 0xff, bits & ((1 << 23) - 1), 23, 150, 0xff
    if e == emax:
        return {"special": "nan" if frac else "inf", "neg": bool(sign)}
    mant, k = (frac, 1 - bias) if e == 0 else (frac | (1 << mb), e - bias)
    if mant == 0:
        return {"neg": bool(sign), "zero": True, "m": [0], "k": 0}
    while mant % 2 == 0:
        mant //= 2
        k += 1
    return {"neg": bool(sign), "zero": False, "m": digits(mant), "k": k}


def value_of(fam, ty, v):
    """harness value encoding -> the spec's value representation."""
    if "missing" in v:
        return {"missing": v["missing"]}
    if fam in ("ident", "word"):
        return "ident" if v.get("dec") == "1" else {"unexpected": v}
    if "dec" in v:
        d = v["dec"]
        if fam == "asn":
            return digits(int(d))
        return {"neg": d.startswith("-"), "mag": digits(abs(int(d)))}
    if "bits" in v:
        return decode_float(int(v["bits"]), ty)
    if "cps" in v:
        return v["cps"]
    if "cp" in v:
        return v["cp"]
    if "ip" in v and "len" in v:
        return {"ip": v["ip"], "len": v["len"]}
    if "ip" in v:
        return v["ip"]
    if "b" in v:
        return v["b"]
    return {"unexpected": v}


def probe_value(v):
    """one probed function of a program -> Literals.Defined / Undefined representation."""
    if "dec" in v and not v["dec"].startswith("-"):
        return {"def": True, "neg": False, "mag": digits(int(v["dec"]))}
    if "missing" in v and re.search(r"The function `pkg\.\w+` does not exist", v["missing"]):
        return {"def": False, "neg": False, "mag": []}
    return {"def": False, "neg": False, "mag": [], "unexpected": json.dumps(v)[:200]}


def observe(fam, ty, res):
    """-> (obs, abnormal) ; obs = {"cls": "val", "v": ..} | {"cls": "reject", "kinds": .., "msg": ..}"""
    oc = vlib.outcome_of(res)
    if oc != "returned":
        return None, oc
    r = res["r"]
    if r.get("compile") == "err":
        return {"cls": "reject", "kinds": r.get("kinds"), "msg": r.get("msg")}, None
    if fam == "prog":
        return {"cls": "val", "v": [probe_value(v) for v in r["vals"]]}, None
    return {"cls": "val", "v": value_of(fam, ty, r["vals"][0])}, None


def signature(sp, den, failure, res=None, obs=None, dev=None):
    """what identifies a failure: family, kind of failure, what the specification expected and - for the
    f-string deviation that Literals.DeviantFstr models - whether the observed value is exactly that deviation."""
    fam = sp["fam"]
    sig = {"family": fam, "failure": failure, "expect": den.get("cls", "?")}
    if den.get("cls") == "reject":
        sig["why"] = den.get("why", "")
    if fam == "fstr":
        is_dev = bool(obs) and obs.get("cls") == "val" and dev is not None and obs["v"] == dev and den.get("v") != dev
        sig["deviation"] = "unescape-before-brace-replacement" if is_dev else "none"
    if fam == "trivia":
        sig["shebang"] = sp["sheb"] or "none"
    if res is not None and "panic" in res:
        msg = str(res["panic"])
        sig["panic"] = "not a char boundary" if "is not a char boundary" in msg else re.sub(r"[0-9]+|`[^`]*`|'[^']*'", "#", msg)[:80]
    return sig


def judge(den, obs):
    """compare TLC's denotation with the observation; None = conforms."""
    if den["cls"] == "any":
        return None
    if den["cls"] == "reject":
        return None if obs["cls"] == "reject" else "accepted-should-reject"
    if obs["cls"] == "reject":
        return "rejected-should-accept" if den["must"] else None
    return None if obs["v"] == den["v"] else "wrong-value"


def check_tokens(toks, lexed, text):
    """TokenShape (kind, bytes) against roto::verif::lex of `text ;`."""
    pos = 0
    if len(lexed) != len(toks) + (0 if toks and toks[0]["kind"] == "FStringStart" else 1):
        return "token count: expected %s, lexer produced %s" % ([t["kind"] for t in toks], [t[0] for t in lexed])
    for t, got in zip(toks, lexed):
        if got[0] != t["kind"] or got[2] != pos or got[3] != pos + t["bytes"]:
            return "expected %s at bytes %d..%d, lexer produced %s" % (t["kind"], pos, pos + t["bytes"], got)
        pos += t["bytes"]
    if not (toks and toks[0]["kind"] == "FStringStart"):
        end = len(text.encode("utf-8"))
        last = lexed[-1]
        if pos != end or last[0] != "SemiColon" or last[2] != end + 1:
            return "literal must end at byte %d and be followed by `;`, lexer produced %s" % (end, last)
    return None


# ------------------------------------------------------------------ S->I: literals

def mc_cfg(path, fam, n, minemit, big):
    with open(path, "w") as f:
        f.write('SPECIFICATION MCSpec\nCONSTANTS\n  Family = "%s"\n  N = %d\n  MinEmit = %d\n  Big = %s\n'
                'INVARIANT Emit\nCHECK_DEADLOCK FALSE\n' % (fam, n, minemit, "TRUE" if big else "FALSE"))


def literal_plan(tier):
    """(family, N, MinEmit, simulate(num, depth) | None)"""
    q = tier == "quick"
    plan = [("intg", 3 if q else 4, 1, None), ("hexg", 2 if q else 3, 1, None), ("intb", 0, 0, None), ("hexb", 0, 0, None),
            ("float", 0, 0, None), ("str", 2, 0, None), ("fstr", 2, 0, None), ("char", 2, 0, None),
            ("ident", 3 if q else 4, 1, None), ("word", 0, 0, None), ("ip4", 0, 0, None), ("ip6", 0, 0, None),
            ("pfx4", 0, 0, None), ("pfx6", 0, 0, None), ("asn", 0, 0, None), ("trivia", 0, 0, None),
            ("sufx", 0, 0, None), ("prog", 0, 0, None), ("progg", 3 if q else 4, 0, None),
            ("progg", 9, 4, (12, 10) if q else (150, 10)),
            ("str", 7, 3, (12, 8) if q else (120, 8)), ("fstr", 8, 3, (14, 9) if q else (160, 9)),
            ("ident", 6, 4, (10, 7) if q else (60, 7))]
    return plan


def generate_literals(tier, ev):
    d = vlib.workdir(PID, "cfg")
    big = tier != "quick"
    jobs = []
    for (fam, n, me, sim) in literal_plan(tier):
        cfg = os.path.join(d, "lit_%s_%s.cfg" % (fam, "sim" if sim else "mc"))
        mc_cfg(cfg, fam, n, me, big)
        jobs.append((fam, cfg, sim))

    def one(job):
        fam, cfg, sim = job
        if sim:
            return run_tlc("MCLiterals", cfg, workers=1, simulate=sim[0], depth=sim[1], timeout=900,
                           tlc_seed=vlib.seed(), coverage=False,
                           metadir=vlib.workdir("_tlc", "MCLiterals_%s_sim" % fam, clean=True))
        return run_tlc("MCLiterals", cfg, workers=1, timeout=900, coverage=False,
                       metadir=vlib.workdir("_tlc", "MCLiterals_%s_mc" % fam, clean=True))

    cases, seen, exhaustive = [], set(), []
    with ThreadPoolExecutor(max_workers=6) as ex:
        results = list(ex.map(one, jobs))
    for (fam, cfg, sim), r in zip(jobs, results):
        if sim:
            if r.error or r.invariant_violated:
                require_tlc_ok(r, "MCLiterals simulate %s" % fam)
        else:
            require_tlc_ok(r, "MCLiterals %s" % fam)
            exhaustive.append("%s: %d spellings" % (fam, len(r.replay)))
        ev.add_tlc(r)
        for c in r.replay:
            key = vlib.shash(c["sp"])
            if key not in seen:
                seen.add(key)
                c["gen"] = "walk" if sim else "enum"
                cases.append(c)
    return cases, exhaustive


def spelling_class(sp):
    """spelling class of a number (coverage accounting only)."""
    if sp["fam"] == "int":
        return "int-spelled"
    return "fraction" if sp["dot"] else "exponent" if sp["ex"] else "int-spelled"


NUM_TYPES = ["u8", "u16", "u32", "u64", "i8", "i16", "i32", "i64", "f32", "f64"]


def literal_coverage(cases, stats=None):
    """anti-vacuity: everything the property names must occur among the claimed cases."""
    seen = set()
    stats = {} if stats is None else stats
    cells, nsufx, nprog, nprog_open_end, prog_classes = set(), 0, 0, 0, set()
    for c in cases:
        sp, den = c["sp"], c["den"]
        if den["cls"] == "any":
            continue
        fam = sp["fam"]
        if fam in ("int", "float") and "pos" in sp:
            # the suffix x spelling x context-type matrix (MCLiterals.SufxCases)
            nsufx += 1
            cl, suf, ctx = spelling_class(sp), sp["suf"] or "none", sp["ctx"]
            mism = den["cls"] == "reject" and den["why"] == "suffix-type-mismatch"
            cell = "sufx:%s:%s:%s:%s" % (cl, suf, ctx, "mismatch" if mism else den["cls"])
            cells.add(cell)
            seen.add(cell)
            seen.add("sufx:pos:%s:%s" % (sp["pos"], "mismatch" if mism else den["cls"]))
            if mism:
                last = (sp["ds"] if fam == "int" else sp["ed"] or sp["fp"] or sp["ip"])
                if last and last[-1] == "_":
                    seen.add("sufx:underscore-before-suffix:%s:%s:%s" % (cl, suf, ctx))
                if fam == "int" and "_" in sp["ds"][:-1]:
                    seen.add("sufx:underscore-inside:%s:%s" % (suf, ctx))
                if fam == "int" and int("".join(d for d in sp["ds"] if d != "_")) > 2 ** 24:
                    seen.add("sufx:beyond-f32-precision:%s:%s" % (suf, ctx))
                if sp["neg"]:
                    seen.add("sufx:negative:mismatch")
        if fam == "prog":
            nprog += 1
            for f in c["feat"]:
                seen.add("prog:" + f)
                prog_classes.add(f)
            if "eof:in-comment" in c["feat"] or "eof:in-shebang" in c["feat"]:
                nprog_open_end += 1
            seen.add("prog:gen:" + c.get("gen", "?"))
        seen.add("family:" + fam)
        seen.add("den:%s:%s" % (fam, den["cls"]))
        if den["cls"] == "reject":
            seen.add("reject:" + den["why"])
        if fam == "int":
            seen.add("suffix:" + (sp["suf"] or "none"))
            seen.add("ctx:" + sp["ctx"])
            seen.add("radix:" + sp["radix"])
            if "_" in sp["ds"]:
                seen.add("underscore:int")
                if sp["ds"][-1] == "_":
                    seen.add("underscore:trailing")
                if any(a == "_" and b == "_" for a, b in zip(sp["ds"], sp["ds"][1:])):
                    seen.add("underscore:double")
            if sp["neg"]:
                seen.add("int:negative")
            if den["cls"] == "val" and not den["must"]:
                seen.add("int:above-i64-max")
        if fam == "float":
            seen.add("fsuffix:" + (sp["suf"] or "none"))
            seen.add("fctx:" + sp["ctx"])
            seen.add("float:dot" if sp["dot"] else "float:nodot")
            seen.add("float:exp" + sp["ex"] + sp["es"] if sp["ex"] else "float:noexp")
            for part in ("ip", "fp", "ed"):
                if "_" in sp[part]:
                    seen.add("underscore:float-" + part)
            if sp["dot"] and not sp["fp"]:
                seen.add("float:empty-fraction")
            if den["cls"] == "val" and den["v"]["zero"] and den["v"]["neg"]:
                seen.add("float:negative-zero")
        if fam in ("str", "fstr", "char"):
            for it in sp["items"]:
                seen.add("%s:item:%s" % (fam, it["k"] + (":" + it["s"] if it["k"] == "e" else "")))
                if it["k"] == "c":
                    seen.add("%s:width:%d" % (fam, it["w"]))
                if it["k"] == "i":
                    seen.add("interp:" + it["e"])
            ks = [it["k"] for it in sp["items"]]
            for a, b in zip(sp["items"], sp["items"][1:]):
                if a["k"] == "cont" and b["k"] == "c" and b["cp"] in (32, 9):
                    seen.add("cont:skips-following-space")
                if fam == "fstr" and a["k"] == "c" and a["w"] > 1 and b["k"] == "i":
                    seen.add("fstr:multibyte-before-interpolation")
                if fam == "fstr" and a["k"] == "i" and b["k"] == "c" and b["w"] > 1:
                    seen.add("fstr:multibyte-after-interpolation")
            if fam == "fstr" and "lb" in ks and "i" in ks:
                seen.add("fstr:brace-escape-with-interpolation")
        if fam == "ip6":
            seen.add("ip6:compressed" if sp["comp"] else "ip6:full")
            if sp["comp"] and not sp["pre"] and not sp["post"]:
                seen.add("ip6:unspecified")
            if sp["comp"] and len(sp["pre"]) + len(sp["post"]) == 7:
                seen.add("ip6:seven-groups")
        if fam == "pfx":
            seen.add("pfx:" + sp["ip"]["fam"])
        if fam == "ident":
            for k, cl in enumerate(sp["cls"]):
                seen.add("cls:%s:%s" % ("first" if k == 0 else "later", cl))
        if fam == "word":
            seen.add("word:" + sp["w"])
        if fam == "trivia":
            seen.add("shebang:" + (sp["sheb"] or "none"))
            for g in sp["gaps"]:
                seen.add("comment:" + (g or "none"))
    need = ["family:" + f for f in ("int", "float", "str", "fstr", "char", "ip4", "ip6", "pfx", "asn", "ident", "word", "trivia")]
    need += ["suffix:" + s for s in ("none", "u8", "u16", "u32", "u64", "i8", "i16", "i32", "i64", "f32", "f64")]
    need += ["ctx:" + s for s in ("u8", "u16", "u32", "u64", "i8", "i16", "i32", "i64")]
    need += ["radix:dec", "radix:hex", "underscore:int", "underscore:trailing", "underscore:double", "int:negative",
             "int:above-i64-max", "reject:out-of-range", "reject:minus-on-unsigned", "reject:float-needs-dot",
             "reject:bad-escape", "reject:not-one-character", "reject:octet-range", "reject:not-identifier", "reject:keyword"]
    need += ["fsuffix:none", "fsuffix:f32", "fsuffix:f64", "fctx:f32", "fctx:f64", "float:dot", "float:nodot", "float:noexp",
             "float:expe", "float:expE", "float:expe+", "float:expe-", "float:expE-", "underscore:float-ip",
             "underscore:float-fp", "underscore:float-ed", "float:empty-fraction", "float:negative-zero"]
    for fam in ("str", "fstr", "char"):
        need += ["%s:item:e:%s" % (fam, s) for s in ESC] + ["%s:item:%s" % (fam, k) for k in ("c", "x", "u")]
        need += ["%s:width:%d" % (fam, w) for w in (1, 2, 3, 4)]
    need += ["str:item:cont", "fstr:item:cont", "fstr:item:lb", "fstr:item:rb", "fstr:item:i", "cont:skips-following-space",
             "fstr:multibyte-before-interpolation", "fstr:multibyte-after-interpolation", "fstr:brace-escape-with-interpolation"]
    need += ["interp:" + e for e in INTERP_TEXT]
    need += ["ip6:compressed", "ip6:full", "ip6:unspecified", "ip6:seven-groups", "pfx:ip4", "pfx:ip6"]
    need += ["cls:first:" + c for c in CLS_REPS] + ["cls:later:" + c for c in CLS_REPS]
    need += ["word:" + k for k in KEYWORDS]
    need += ["shebang:" + s for s in ("none", "path", "args", "utf8", "space", "bare", "crlf")]
    need += ["comment:" + s for s in ("plain", "empty", "utf8", "quotes", "code", "slashes", "crlf")]
    # suffix x spelling x context type: every cell of the matrix, with the expected outcome computed by TLC
    need += ["reject:suffix-type-mismatch", "reject:float-literal-in-integer-context"]
    for cl in ("int-spelled", "fraction", "exponent"):
        need += ["sufx:%s:%s:%s:mismatch" % (cl, a, b) for a in NUM_TYPES for b in NUM_TYPES if a != b]
        need += ["sufx:%s:%s:%s:val" % (cl, a, a) for a in (NUM_TYPES if cl == "int-spelled" else ("f32", "f64"))]
    need += ["sufx:int-spelled:none:%s:val" % a for a in INT_TYPES] + ["sufx:int-spelled:none:%s:reject" % a for a in ("f32", "f64")]
    need += ["sufx:%s:none:%s:reject" % (cl, a) for cl in ("fraction", "exponent") for a in INT_TYPES]
    need += ["sufx:%s:none:%s:val" % (cl, a) for cl in ("fraction", "exponent") for a in ("f32", "f64")]
    need += ["sufx:pos:%s:%s" % (p, o) for p in POS_FORMS for o in ("mismatch", "val", "reject")]
    need += ["sufx:underscore-before-suffix:%s:%s:%s" % (cl, a, b) for cl in ("int-spelled", "fraction", "exponent")
             for a, b in (("f64", "f32"), ("f32", "f64"), ("u8", "u16"), ("i64", "f64"))]
    need += ["sufx:underscore-inside:f64:f32", "sufx:beyond-f32-precision:f64:f32", "sufx:beyond-f32-precision:f32:f64",
             "sufx:negative:mismatch"]
    # programs with trivia: every way the input can end, every comment / shebang / white space form, a comment
    # behind every kind of token, commented-out code (as text and as tokens, of a defined and of an undefined name)
    need += ["prog:eof:" + e for e in ("empty", "in-comment", "in-shebang", "line-end", "blank", "token")]
    need += ["prog:eof-comment:" + b for b in COM_BODY] + ["prog:eof-comment:item-tokens"]
    need += ["prog:com:" + b for b in COM_BODY] + ["prog:sheb:" + b for b in SHEB_BODY] + ["prog:ws:" + w for w in WS_TEXT]
    need += ["prog:comment-after:" + t for t in ("start", "fn", "name", "(", ")", "->", "i32", "{", "number", "}")]
    need += ["prog:commented:item-tokens", "prog:commented:defined-name", "prog:commented:undefined-name"]
    need += ["prog:items:0", "prog:items:1", "prog:items:2", "prog:gen:enum", "prog:gen:walk"]
    stats.update({"suffix_matrix_cases": nsufx, "suffix_matrix_cells_seen": len(cells), "program_trivia_cases": nprog,
                  "program_trivia_classes_seen": len(prog_classes),
                  "program_trivia_cases_ending_inside_a_comment_or_shebang": nprog_open_end})
    missing = [n for n in need if n not in seen]
    if missing:
        raise vlib.ToolError("literal case families never generated (vacuous run): %s" % missing)
    return len(need)


def run_literals(tier, ev, verd, cases, tag="lit"):
    """render, compile, compare.  Returns number of cases executed."""
    nvar = 2 if tier == "quick" else 3
    jobs = []   # (case, variant, text, ty, harness case)
    for c in cases:
        sp, den = c["sp"], c["den"]
        if den["cls"] == "any":
            continue
        for variant in range(nvar if sp["fam"] == "ident" else 1):
            text, ty = render(sp, variant)
            want_lex = den["cls"] == "val" and bool(c["toks"])
            jobs.append((c, variant, text, ty, harness_case(sp, text, ty, want_lex)))
    results = vlib.run_batch("c09", [j[4] for j in jobs], nproc=8, pid=PID, tag=tag, stall=30)
    for (c, variant, text, ty, hc), res in zip(jobs, results):
        sp, den = c["sp"], c["den"]
        fam = sp["fam"]
        rep = {"kind": "literal", "case": c, "variant": variant, "text": text, "type": ty, "result": res}
        obs, abnormal = observe(fam, ty, res)
        pos = sp.get("pos", "ret") if fam in ("int", "float") else ""
        ev.case(dict({"family": fam, "text": text, "type": ty, "expect": den}, **({"context": pos} if pos not in ("", "ret") else {})),
                True, key=vlib.shash([fam, text, ty] + ([pos] if pos not in ("", "ret") else [])))
        ev.traces += 1
        if abnormal:
            verd.report(signature(sp, den, abnormal.split(":")[0], res),
                        "%s `%s`: the compiler did not return normally (%s): %s" % (fam, text, abnormal, json.dumps(res)[:300]), rep)
            continue
        bad = judge(den, obs)
        if bad:
            verd.report(signature(sp, den, bad, obs=obs, dev=c.get("dev")),
                        "%s spelling `%s` (as %s): specification says %s, roto: %s" %
                        (fam, text, ty, json.dumps(den), json.dumps(obs)[:300]), rep)
            continue
        if "lex" in hc and obs["cls"] == "val":
            why = check_tokens(c["toks"], res["r"]["lex"][0], text)
            if why:
                verd.report(signature(sp, den, "token-boundaries"), "%s spelling `%s`: %s" % (fam, text, why), rep)
    return len(jobs)


# ------------------------------------------------------------------ S->I: operators

def prec_cfg(path, n, minemit, mode="ops", big=False):
    with open(path, "w") as f:
        f.write("SPECIFICATION MCSpec\nCONSTANTS\n  N = %d\n  MinEmit = %d\n  Mode = \"%s\"\n  Big = %s\nINVARIANT Emit\n"
                "CHECK_DEADLOCK FALSE\n" % (n, minemit, mode, "TRUE" if big else "FALSE"))


def generate_ops(tier, ev):
    d = vlib.workdir(PID, "cfg")
    n = 3 if tier == "quick" else 4
    cfg = os.path.join(d, "prec_mc.cfg")
    prec_cfg(cfg, n, 1)
    r = run_tlc("MCPrec", cfg, workers=6, timeout=1500, coverage=False, heap="6g")
    require_tlc_ok(r, "MCPrec N=%d" % n)
    ev.add_tlc(r)
    vs = [c for c in r.replay if "vs" in c]
    cases = [c for c in r.replay if "w" in c]
    for c in cases:
        c["gen"] = "enum"
    exhaustive = "operator strings: all %d of length <= %d over 13 binary + 2 unary operators" % (len(cases), n)
    cfg2 = os.path.join(d, "prec_sim.cfg")
    prec_cfg(cfg2, 6, n + 1)
    num = 60 if tier == "quick" else 600
    r2 = run_tlc("MCPrec", cfg2, workers=1, simulate=num, depth=7, timeout=900, tlc_seed=vlib.seed(), coverage=False,
                 metadir=vlib.workdir("_tlc", "MCPrec_sim", clean=True))
    if r2.error or r2.invariant_violated:
        require_tlc_ok(r2, "MCPrec simulate")
    ev.add_tlc(r2)
    seen = set(tuple(c["w"]) for c in cases)
    for c in r2.replay:
        if "w" in c and tuple(c["w"]) not in seen:
            seen.add(tuple(c["w"]))
            c["gen"] = "walk"
            cases.append(c)
    if len(vs) < 1:
        raise vlib.ToolError("MCPrec did not print the operand value sets")
    valsets = [[(-x["abs"] if x["neg"] else x["abs"]) for x in s] for s in vs[0]["vs"]]
    return cases, valsets, exhaustive


def expr_text(tokens, lt, tight=False):
    out = []
    for t in tokens:
        if t.startswith("$"):
            j = int(t[1:])
            out.append(("b%d" if lt[j] == "bool" else "x%d") % j)
        elif t in ("(", ")"):
            out.append(t)
        else:
            out.append(OPTEXT[t])
    return ("" if tight else " ").join(out)


def expr_script(text, lt, rty, valsets):
    fns = []
    src = []
    for s, vals in enumerate(valsets):
        lets = []
        for j, ty in enumerate(lt):
            if ty == "bool":
                lets.append("let b%d: bool = %s;" % (j, "true" if vals[j] > 0 else "false"))
            else:
                lets.append("let x%d: i64 = %d;" % (j, vals[j]))
        src.append("fn e%d() -> %s { %s %s }" % (s, rty, " ".join(lets), text))
        fns.append({"n": "e%d" % s, "t": rty})
    return {"src": "\n".join(src) + "\n", "fns": fns}


def result_of(v):
    """harness value -> Prec.Result representation."""
    if "dec" in v:
        n = int(v["dec"])
        return {"t": "int", "neg": n < 0, "abs": abs(n)}
    if "b" in v:
        return {"t": "bool", "b": v["b"]}
    return {"unexpected": v}


def tight_ok(tokens):
    ts = [OPTEXT.get(t, t) for t in tokens]
    return not any(a == "-" and b == "-" for a, b in zip(ts, ts[1:]))


def ops_coverage(cases):
    syms, pairs, outcomes = set(), set(), set()
    for c in cases:
        w = c["w"]
        syms.update(w)
        b = [s for s in w if s in LEVEL]
        pairs.update(zip(b, b[1:]))
        outcomes.add(c["parse"] if c["parse"] == "reject" else "tree:" + c["ty"])
        if c["parse"] == "reject":
            lv = set(LEVEL[s] for s in b)
            ops = set(s for s in b if LEVEL[s] == 1)
            if len(ops) == 2:
                outcomes.add("reject:mixes-and-or")
            if sum(1 for s in b if LEVEL[s] == 2) >= 2:
                outcomes.add("reject:comparison-chain")
    missing = [s for s in OPTEXT if s not in syms]
    missing += ["pair %s,%s" % (a, b) for a in BINOPS for b in BINOPS if (a, b) not in pairs]
    missing += [o for o in ("reject", "tree:int", "tree:bool", "tree:none", "reject:mixes-and-or", "reject:comparison-chain")
                if o not in outcomes]
    if missing:
        raise vlib.ToolError("operator cases never generated (vacuous run): %s" % missing[:20])
    return len(pairs)


def run_ops(tier, ev, verd, cases, valsets, tag="ops"):
    jobs = []   # (case, form, text, harness case)
    for c in cases:
        n = c["n"]
        lt = c.get("lt") or ["int"] * n
        rty = {"int": "i64", "bool": "bool"}.get(c.get("ty"), "bool")
        forms = [("flat", expr_text(c["flat"], lt))]
        if tight_ok(c["flat"]):
            forms.append(("tight", expr_text(c["flat"], lt, tight=True)))
        if c["parse"] == "tree":
            forms.append(("paren", expr_text(c["paren"], lt)))
        for form, text in forms:
            jobs.append((c, form, text, expr_script(text, lt, rty, valsets)))
    results = vlib.run_batch("c09", [j[3] for j in jobs], nproc=8, pid=PID, tag=tag, stall=30)
    by_case = {}
    for (c, form, text, hc), res in zip(jobs, results):
        key = tuple(c["w"])
        rep = {"kind": "operators", "case": c, "form": form, "text": text, "result": res}
        ev.case({"operators": c["w"], "form": form, "text": text, "expect": c["parse"] if c["parse"] == "reject" else c["paren"]},
                True, key=vlib.shash([form, c["w"]]))
        ev.traces += 1
        sig = {"family": "operators", "form": form}
        oc = vlib.outcome_of(res)
        if oc != "returned":
            verd.report(dict(sig, failure=oc.split(":")[0]), "expression `%s`: the compiler did not return normally (%s)" % (text, oc), rep)
            continue
        r = res["r"]
        if c["parse"] == "reject":
            if form != "paren" and not (r["compile"] == "err" and r["kinds"] == ["parse"]):
                verd.report(dict(sig, failure="accepted-should-reject"),
                            "expression `%s` must be rejected by the parser (chained comparison / && mixed with ||); roto: %s" %
                            (text, json.dumps(r)[:300]), rep)
            continue
        if c["ty"] == "none":
            # grouping according to the grammar is ill-typed for every operand typing: a type error, not a parse error
            if not (r["compile"] == "err" and r["kinds"] == ["type"]):
                verd.report(dict(sig, failure="grouping"),
                            "expression `%s` groups as `%s`, which is ill-typed; expected a type error, roto: %s" %
                            (text, expr_text(c["paren"], ["int"] * c["n"]), json.dumps(r)[:300]), rep)
            continue
        if r["compile"] != "ok":
            verd.report(dict(sig, failure="rejected-should-accept"),
                        "expression `%s` (grouping `%s`) must compile; roto: %s" % (text, expr_text(c["paren"], c["lt"]), json.dumps(r)[:300]), rep)
            continue
        got = [result_of(v) for v in r["vals"]]
        by_case.setdefault(key, {})[form] = got
        if got != c["vals"]:
            verd.report(dict(sig, failure="grouping"),
                        "expression `%s`: specification groups it as `%s` with values %s over the operand value sets, roto computed %s" %
                        (text, expr_text(c["paren"], c["lt"]), json.dumps(c["vals"]), json.dumps(got)), rep)
    # differential: an expression and its fully parenthesised form behave identically
    ndiff = 0
    for key, forms in by_case.items():
        if "paren" in forms:
            for f in ("flat", "tight"):
                if f in forms:
                    ndiff += 1
                    if forms[f] != forms["paren"]:
                        verd.report({"family": "operators", "form": f, "failure": "differs-from-parenthesised"},
                                    "operator string %s: %s form and fully parenthesised form computed different values" % (list(key), f),
                                    {"kind": "operators-diff", "w": list(key), "forms": forms})
    return len(jobs), ndiff


# --- adequacy of the operand value sets (input selection, not an oracle): does some other bracketing of the
# --- same operator string compute the same values as the specified one on every value set?

def _alt_trees(atoms, ops):
    if len(atoms) == 1:
        return [atoms[0]]
    out = []
    for k in range(len(ops)):
        for l in _alt_trees(atoms[:k + 1], ops[:k]):
            for r in _alt_trees(atoms[k + 1:], ops[k + 1:]):
                out.append(("bin", ops[k], l, r))
    return out


def _ev(t, lt, vals):
    """value or None when ill-typed / division by zero; ints and bools are kept apart."""
    if t[0] == "leaf":
        return vals[t[1]] if lt[t[1]] == "int" else (vals[t[1]] > 0)
    if t[0] == "un":
        v = _ev(t[2], lt, vals)
        if v is None:
            return None
        if t[1] == "neg":
            return -v if type(v) is int else None
        return (not v) if type(v) is bool else None
    a, b = _ev(t[2], lt, vals), _ev(t[3], lt, vals)
    if a is None or b is None:
        return None
    op = t[1]
    if op in ("add", "sub", "mul", "div", "mod"):
        if type(a) is not int or type(b) is not int:
            return None
        if op == "add":
            return a + b
        if op == "sub":
            return a - b
        if op == "mul":
            return a * b
        if b == 0:
            return None
        q = abs(a) // abs(b) * (1 if (a < 0) == (b < 0) else -1)
        return q if op == "div" else a - b * q
    if op in ("lt", "le", "gt", "ge"):
        if type(a) is not int or type(b) is not int:
            return None
        return {"lt": a < b, "le": a <= b, "gt": a > b, "ge": a >= b}[op]
    if op in ("eq", "ne"):
        if type(a) is not type(b):
            return None
        return (a == b) if op == "eq" else (a != b)
    if type(a) is not bool or type(b) is not bool:
        return None
    return (a and b) if op == "and" else (a or b)


def adequacy(cases, valsets):
    total = separated = 0
    for c in cases:
        if c["parse"] != "tree" or c["ty"] == "none" or c["n"] < 3 or c["n"] > 6:
            continue
        w, lt = c["w"], c["lt"]
        atoms, ops, pend, j = [], [], [], 0
        for s in w + [None]:
            if s in UNOPS:
                pend.append(s)
            else:
                a = ("leaf", j)
                for u in reversed(pend):
                    a = ("un", u, a)
                atoms.append(a)
                pend = []
                j += 1
                if s is not None:
                    ops.append(s)
        vecs = {}
        for t in _alt_trees(atoms, ops):
            vecs.setdefault(tuple(repr(_ev(t, lt, vs)) for vs in valsets), []).append(t)
        spec_vec = tuple(repr((-v["abs"] if v["neg"] else v["abs"]) if v["t"] == "int" else v["b"]) for v in c["vals"])
        alts = sum(len(v) for v in vecs.values()) - 1
        same = len(vecs.get(spec_vec, [])) - 1
        total += alts
        separated += alts - max(same, 0)
    return total, separated


# ------------------------------------------------------------------ S->I: prefix x postfix, blocks in expression position

ATOM_TEXT = {"lit_2p0_f64": "2.0f64", "lit_1p5_f64": "1.5f64", "lit_0p5_f64": "0.5f64", "lit_2e0_f64": "2e0f64",
             "lit_15em1_f64": "15e-1f64", "lit_2p25_f64": "2.25f64", "lit_2p5_f32": "2.5f32", "lit_1p5_f32": "1.5f32",
             "lit_3_i64": "3i64", "var_f": "xf", "var_g": "xg", "var_i": "xi", "var_b": "xb", "var_s": "xs", "var_r": "r",
             "var_o": "o", "paren_lit": "(1.5f64)", "paren_var": "(xf)", "paren_neg": "(-1.5f64)", "call_f": "gf()",
             "call_i": "gi()", "lit_true": "true", "lit_str": "\"ab\""}
ATOM_CLASS = {"lit_2p0_f64": "float-literal", "lit_1p5_f64": "float-literal", "lit_0p5_f64": "float-literal",
              "lit_2e0_f64": "float-literal-exponent", "lit_15em1_f64": "float-literal-exponent", "lit_2p25_f64": "float-literal",
              "lit_2p5_f32": "float-literal", "lit_1p5_f32": "float-literal", "lit_3_i64": "integer-literal", "var_f": "variable",
              "var_g": "variable", "var_i": "variable", "var_b": "variable", "var_s": "variable", "var_r": "record-variable",
              "var_o": "option-variable", "paren_lit": "parenthesised", "paren_var": "parenthesised", "paren_neg": "parenthesised",
              "call_f": "call-result", "call_i": "call-result", "lit_true": "bool-literal", "lit_str": "string-literal"}
SUF_TEXT = {"abs": ".abs()", "ceil": ".ceil()", "floor": ".floor()", "round": ".round()", "pow2": ".pow(2.0)", "sqrt": ".sqrt()",
            "is_nan": ".is_nan()", "to_string": ".to_string()", "field_x": ".x", "field_b": ".b", "field_n": ".n", "try": "?",
            "contains_a": ".contains(\"a\")"}
PX_LETS = ("let xf: f64 = 2.5; let xg: f32 = 1.5; let xi: i64 = 3; let xb: bool = true; let xs: String = \"ab\"; "
           "let r = { x: 1.5f64, b: true, n: 3i64 }; let o: i64? = Some(4); ")
TEN = {"f64": "10.0f64", "f32": "10.0f32", "i64": "10i64"}
DEFAULT = {"f64": "0.0", "f32": "0.0", "i64": "0", "bool": "false", "String": "\"\""}


def px_core_text(px, paren):
    t = ATOM_TEXT[px["atom"]]
    for sfx in px["post"]:
        t = ("(" + t + ")" if paren else t) + SUF_TEXT[sfx]
    for op in reversed(px["pre"]):
        o = OPTEXT[op]
        if paren:
            t = "(" + o + t + ")"
        else:
            t = o + (" " if o == "-" and t.startswith("-") else "") + t
    return t


def px_text(px, paren, oty):
    core = px_core_text(px, paren)
    c = px["ctx"]
    ten = TEN.get(oty, "10.0f64")
    return {"none": core, "sub_r": ten + " - " + core, "add_r": ten + " + " + core, "mul_r": ten + " * " + core,
            "sub_l": core + " - " + ten, "lt_r": ten + " < " + core, "and_r": "true && " + core}[c]


def px_script(px, paren, oty, rty):
    expr = px_text(px, paren, oty)
    head = "fn gf() -> f64 { 2.5 }\nfn gi() -> i64 { 3 }\n"
    if "try" in px["post"]:
        src = head + "fn h() -> %s? { %sSome(%s) }\nfn f() -> %s { match h() { Some(v) => v, None => %s } }\n" % (
            rty, PX_LETS, expr, rty, DEFAULT[rty])
    else:
        src = head + "fn f() -> %s { %s%s }\n" % (rty, PX_LETS, expr)
    return {"src": src, "fns": [{"n": "f", "t": rty}]}


def rtype_of(res):
    return {"float": res.get("ty"), "int": "i64", "bool": "bool", "str": "String"}.get(res.get("t"))


def px_candidates(px):
    """(operand type, return type) pairs to try when the types are not known (input selection, no oracle)."""
    c = px["ctx"]
    if c == "none":
        return [(None, t) for t in ("f64", "f32", "i64", "bool", "String")]
    if c == "and_r":
        return [(None, "bool")]
    if c == "lt_r":
        return [(t, "bool") for t in ("f64", "f32", "i64")]
    return [(t, t) for t in ("f64", "f32", "i64")]


def result2(v, ty):
    """harness value -> Prec result record (TVResult / BlockExpected representation)."""
    if "missing" in v:
        return {"t": "missing", "why": v["missing"]}
    if "bits" in v:
        d = decode_float(int(v["bits"]), ty)
        if "special" in d:
            return {"t": "float", "ty": ty, "special": d["special"]}
        m = int("".join(str(x) for x in d["m"]))
        # the sign of a zero is not modelled by the rational values of the specification
        return {"t": "float", "ty": ty, "neg": d["neg"] and not d["zero"], "zero": d["zero"], "m": m, "k": d["k"]}
    if "dec" in v:
        n = int(v["dec"])
        return {"t": "int", "neg": n < 0, "abs": abs(n)}
    if "b" in v:
        return {"t": "bool", "b": v["b"]}
    if "cps" in v:
        return {"t": "str", "cps": v["cps"]}
    return {"t": "unexpected", "v": v}


def observe2(cases_rtys):
    """run [(harness case, return type)] -> result records ({"t":"typeerr"|"parseerr"|"abnormal"|..})"""
    results = vlib.run_batch("c09", [c for c, _ in cases_rtys], nproc=8, pid=PID, tag="px", stall=30)
    out = []
    for (c, rty), res in zip(cases_rtys, results):
        if vlib.outcome_of(res) != "returned":
            out.append(({"t": "abnormal"}, res))
            continue
        r = res["r"]
        if r["compile"] == "err":
            out.append(({"t": "typeerr" if r["kinds"] == ["type"] else "parseerr" if r["kinds"] == ["parse"] else "error:" + ",".join(r["kinds"]),
                         "msg": r.get("msg")}, res))
        else:
            out.append((result2(r["vals"][0], rty), res))
    return out


def strip_msg(o):
    return {k: v for k, v in o.items() if k != "msg"}


def observe_untyped(items, script_of, candidates_of):
    """items whose types are not known: try the candidate typings, first one that compiles wins; typeerr when none does."""
    jobs = []
    for k, it in enumerate(items):
        for cand in candidates_of(it):
            jobs.append((k, cand, script_of(it, cand)))
    obs = observe2([(j[2], j[1][1]) for j in jobs])
    final = [None] * len(items)
    for (k, cand, _), (o, res) in zip(jobs, obs):
        cur = final[k]
        rank = {"abnormal": 4, "parseerr": 3, "typeerr": 1}.get(o["t"], 2 if o["t"].startswith("error") else 5 if o["t"] in ("missing", "unexpected") else 6)
        if cur is None or rank > cur[0]:
            final[k] = (rank, o, res, cand)
    return [(f[1], f[2], f[3]) for f in final]


def generate_px(tier, ev):
    d = vlib.workdir(PID, "cfg")
    big = tier != "quick"
    out = {}
    for mode, n in (("postfix", 1 if not big else 2), ("block", 0)):
        cfg = os.path.join(d, "prec_%s.cfg" % mode)
        prec_cfg(cfg, n, 0, mode, big)
        r = run_tlc("MCPrec", cfg, workers=6, timeout=1500, coverage=False, heap="6g")
        require_tlc_ok(r, "MCPrec %s" % mode)
        ev.add_tlc(r)
        out[mode] = r.replay
    return out["postfix"], out["block"]


def px_coverage(cases):
    seen = set()
    for c in cases:
        px, exp, alt = c["px"], c["exp"], c["alt"]
        if exp["t"] == "any":
            continue
        disc = exp != alt
        cls = ATOM_CLASS[px["atom"]]
        for sfx in px["post"]:
            seen.add("suffix:" + sfx)
        seen.add("atom:" + cls)
        seen.add("pre:" + "".join(OPTEXT[o] for o in px["pre"]))
        seen.add("ctx:" + px["ctx"])
        if disc and px["pre"] and px["post"]:
            seen.add("discriminating:" + cls)
            seen.add("discriminating:" + px["post"][0])
            seen.add("discriminating-ctx:" + px["ctx"])
    need = ["suffix:" + x for x in SUF_TEXT] + ["atom:" + x for x in set(ATOM_CLASS.values())]
    need += ["pre:-", "pre:!", "pre:--", "pre:!!", "ctx:none", "ctx:sub_r", "ctx:mul_r"]
    need += ["discriminating:" + x for x in ("float-literal", "float-literal-exponent", "integer-literal", "variable", "parenthesised",
                                              "call-result", "record-variable", "pow2", "floor", "ceil", "abs", "to_string", "field_x")]
    need += ["discriminating-ctx:sub_r", "discriminating-ctx:mul_r"]
    missing = [n for n in need if n not in seen]
    if missing:
        raise vlib.ToolError("prefix/postfix cases never generated (vacuous run): %s" % missing)
    return sum(1 for c in cases if c["exp"]["t"] != "any" and c["exp"] != c["alt"])


def run_px(tier, ev, verd, cases, tag="px"):
    """prefix x postfix cases: flat and fully parenthesised text against TLC's expectation."""
    typed, untyped = [], []
    for c in cases:
        exp = c["exp"]
        if exp["t"] == "any":
            continue
        (untyped if exp["t"] == "typeerr" else typed).append(c)
    jobs = []
    for c in typed:
        rty = rtype_of(c["exp"])
        oty = c["oty"] if c["oty"] in TEN else "f64"
        for paren in (False, True):
            jobs.append((c, paren, px_text(c["px"], paren, oty), px_script(c["px"], paren, oty, rty), rty))
    obs = observe2([(j[3], j[4]) for j in jobs])
    for (c, paren, text, _, rty), (o, res) in zip(jobs, obs):
        form = "paren" if paren else "flat"
        ev.case({"prefix_postfix": c["px"], "form": form, "text": text, "expect": c["exp"]}, True, key=vlib.shash(["px", form, c["px"]]))
        ev.traces += 1
        if strip_msg(o) != c["exp"]:
            verd.report({"family": "prefix-postfix", "form": form, "failure": "abnormal" if o["t"] == "abnormal" else "grouping",
                         "atom": ATOM_CLASS[c["px"]["atom"]]},
                        "expression `%s`: a prefix operator applies to the whole access expression (atom and its suffixes); "
                        "specification: %s, roto: %s" % (text, json.dumps(c["exp"]), json.dumps(o)[:300]),
                        {"kind": "px", "case": c, "form": form, "text": text, "result": res})
    # ill-typed under the grammar's reading: no typing of the probing function may make it compile
    for paren in (False, True):
        form = "paren" if paren else "flat"
        res_u = observe_untyped(untyped, lambda c, cand: px_script(c["px"], paren, cand[0] or "f64", cand[1]), lambda c: px_candidates(c["px"]))
        for c, (o, res, cand) in zip(untyped, res_u):
            text = px_text(c["px"], paren, cand[0] or "f64")
            ev.case({"prefix_postfix": c["px"], "form": form, "text": text, "expect": c["exp"]}, True, key=vlib.shash(["px", form, c["px"]]))
            ev.traces += 1
            if o["t"] != "typeerr":
                verd.report({"family": "prefix-postfix", "form": form, "failure": "abnormal" if o["t"] == "abnormal" else "grouping",
                             "atom": ATOM_CLASS[c["px"]["atom"]]},
                            "expression `%s` is ill typed when the prefix operator applies to the whole access expression; "
                            "expected a type error, roto (function returning %s): %s" % (text, cand[1], json.dumps(o)[:300]),
                            {"kind": "px", "case": c, "form": form, "text": text, "result": res})
    return 2 * (len(typed) + len(untyped))


BLOCK_INNER = {"fstr": "f\"a{x}\"", "fstr_interp_first": "f\"{x}b\"", "fstr_multibyte": "f\"é {x}\"", "fstr_plain": "f\"hi\"",
               "str": "\"ab\"", "num": "7", "ident": "x", "paren": "(x)", "neg": "-x", "not": "!b", "if": "if b { 1 } else { 2 }",
               "match": "match o { Some(y) => y, None => 0 }", "nested": "{ 7 }", "let": "let z: i64 = 3; z", "call": "idi(3)",
               "true": "true", "list": "[1, 2]", "record": "a: 1", "empty": ""}
BLOCK_TYPE = {"fstr": "String", "fstr_interp_first": "String", "fstr_multibyte": "String", "fstr_plain": "String", "str": "String",
              "not": "bool", "true": "bool"}
BLOCK_HEAD = "fn idi(x: i64) -> i64 { x }\nfn ids(x: String) -> String { x }\nfn idb(x: bool) -> bool { x }\n"
BLOCK_LETS = "let x: i64 = 5; let b: bool = true; let o: i64? = Some(4); "


def block_text(bx):
    inner = BLOCK_INNER[bx["kind"]]
    t = "{ " + inner + " }" if inner else "{}"
    for _ in range(bx["wrap"]):
        t = "{ " + t + " }"
    return t


def block_script(bx):
    kind, pos = bx["kind"], bx["pos"]
    blk = block_text(bx)
    ty = BLOCK_TYPE.get(kind, "i64")
    rty = ty
    if pos == "let":
        obs = {"list": "v.len()", "record": "v.a", "empty": "7"}.get(kind, "v")
        rty = {"list": "u64", "record": "i64", "empty": "i64"}.get(kind, ty)
        body = "let v = %s; %s" % (blk, obs)
    elif pos == "arg":
        body = "%s(%s)" % ({"i64": "idi", "String": "ids", "bool": "idb"}[ty], blk)
    elif pos == "operand":
        body = {"i64": "1 + %s", "String": "\"p\" + %s", "bool": "true && %s"}[ty] % blk
    elif pos == "arm":
        body = "match o { Some(q) => %s, None => %s }" % (blk, blk)
    elif pos == "ifcond":
        body, rty = "if %s == %s { 1 } else { 2 }" % (blk, blk), "i64"
    elif pos == "tail":
        body = blk
    elif pos == "ret":
        body = "return %s" % blk
    elif pos == "listel":
        body, rty = "let l = [%s]; 7" % blk, "i64"
    elif pos == "assign":
        body, rty = "let v = %s; v = %s; 7" % (blk, blk), "i64"
    elif pos == "fstr_interp":
        body, rty = "f\"<{ %s }>\"" % blk, "String"
    else:
        raise vlib.ToolError("unknown block position %r" % pos)
    return {"src": BLOCK_HEAD + "fn f() -> %s { %s%s }\n" % (rty, BLOCK_LETS, body), "fns": [{"n": "f", "t": rty}]}, rty, body


def block_coverage(cases):
    seen = set()
    for c in cases:
        if c["exp"]["t"] != "any":
            seen.add((c["bx"]["pos"], c["bx"]["kind"]))
            seen.add("pos:" + c["bx"]["pos"])
            seen.add("kind:" + c["bx"]["kind"])
    need = ["kind:" + k for k in BLOCK_INNER] + ["pos:" + p for p in ("let", "arg", "operand", "arm", "ifcond", "tail", "ret", "listel", "assign", "fstr_interp")]
    need += [(p, "fstr") for p in ("let", "arg", "operand", "arm", "ifcond", "tail", "ret", "listel", "assign", "fstr_interp")]
    missing = [n for n in need if n not in seen]
    if missing:
        raise vlib.ToolError("block cases never generated (vacuous run): %s" % missing)


def run_blocks(tier, ev, verd, cases, tag="blk"):
    jobs = []
    for c in cases:
        if c["exp"]["t"] == "any":
            continue
        hc, rty, body = block_script(c["bx"])
        jobs.append((c, hc, rty, body))
    obs = observe2([(j[1], j[2]) for j in jobs])
    for (c, hc, rty, body), (o, res) in zip(jobs, obs):
        ev.case({"block": c["bx"], "text": body, "expect": c["exp"]}, True, key=vlib.shash(["blk", c["bx"]]))
        ev.traces += 1
        if strip_msg(o) != c["exp"]:
            verd.report({"family": "block", "failure": "abnormal" if o["t"] == "abnormal" else "rejected-should-accept" if o["t"].endswith("err") else "wrong-value",
                         "first_token": c["bx"]["kind"], "position": c["bx"]["pos"]},
                        "block in expression position `%s`: specification: %s, roto: %s" % (body, json.dumps(c["exp"]), json.dumps(o)[:300]),
                        {"kind": "block", "case": c, "text": body, "result": res})
    return len(jobs)


# ------------------------------------------------------------------ I->S: seeded random spellings beyond TLC's bounds

INT_TYPES = ["u8", "u16", "u32", "u64", "i8", "i16", "i32", "i64"]


def with_underscores(rng, ds, first_ok=False):
    out = []
    for k, d in enumerate(ds):
        if (k > 0 or first_ok) and rng.random() < 0.25:
            out.extend("_" * rng.choice([1, 1, 2]))
        out.append(d)
    if rng.random() < 0.2:
        out.append("_")
    return out


def gen_int(rng):
    hexa = rng.random() < 0.3
    if rng.random() < 0.5:
        b = rng.choice([7, 8, 15, 16, 31, 32, 63, 64])
        n = max(0, (1 << b) + rng.choice([-2, -1, 0, 1, 2]))
    else:
        n = rng.getrandbits(rng.choice([3, 7, 9, 15, 20, 31, 33, 50, 63, 64, 66]))
    if hexa:
        ds = list(("%x" if rng.random() < 0.5 else "%X") % n)
        ds = [c.upper() if rng.random() < 0.3 else c for c in ds]
        if rng.random() < 0.2:
            ds = ["0"] * rng.randrange(1, 3) + ds
        ctx = rng.choice(INT_TYPES)
        return {"fam": "int", "neg": rng.random() < 0.25, "radix": "hex", "ds": ds, "suf": "", "ctx": ctx}
    ds = list(str(n))
    if rng.random() < 0.15:
        ds = ["0"] * rng.randrange(1, 3) + ds
    ds = with_underscores(rng, ds)
    ctx = rng.choice(INT_TYPES + ["f32", "f64"] if n < (1 << 24) else INT_TYPES)
    suf = ctx if (ctx in ("f32", "f64") or rng.random() < 0.5) else ""
    sp = {"fam": "int", "neg": rng.random() < 0.3, "radix": "dec", "ds": ds, "suf": suf, "ctx": ctx}
    return with_context(rng, sp)


def with_context(rng, sp):
    """sometimes: a suffix that names another type than the context requires, another kind of context."""
    if rng.random() < 0.2:
        sp["suf"] = rng.choice(NUM_TYPES)
        sp["ctx"] = rng.choice(NUM_TYPES)
    if rng.random() < 0.3:
        sp["pos"] = rng.choice(POS_FORMS)
    return sp


def gen_float(rng):
    m = rng.getrandbits(rng.choice([1, 2, 5, 10, 17, 24])) | 1
    k = rng.randrange(-14, 31)
    if rng.random() < 0.05:
        m = 0
    n = (m << k) if k >= 0 else m * 5 ** (-k)
    e10 = min(k, 0)
    shown = rng.choice([None, None, 0, 1, -1, 2, -2, 3, -3, 5, -5, 7, 12, -12])
    p = e10 - (shown or 0)
    if p >= 0:
        ip, fp, dot = str(n) + "0" * p, "", rng.random() < 0.6
        if dot and rng.random() < 0.7:
            fp = "0" * rng.randrange(1, 3)
    else:
        s = str(n).rjust(-p + 1, "0")
        ip, fp, dot = s[:p], s[p:], True
    if dot and fp and rng.random() < 0.3:
        fp += "0" * rng.randrange(1, 3)
    ctx = rng.choice(["f32", "f64"])
    suf = ctx if rng.random() < 0.4 else ""
    ex, es, ed = "", "", []
    if shown is not None and not (dot and not fp):
        ex = rng.choice(["e", "E"])
        es = "-" if shown < 0 else rng.choice(["", "+"])
        edig = list(str(abs(shown)))
        if rng.random() < 0.2:
            edig = ["0"] + edig
        ed = with_underscores(rng, edig, first_ok=True)
    elif shown is not None:
        # `10.` cannot be followed by an exponent: write the fraction explicitly
        fp = "0"
        ex, es, ed = "e", ("-" if shown < 0 else ""), list(str(abs(shown)))
    if dot and not fp:
        suf = ""
    if not dot and not ex and not suf:
        dot, fp = True, "0"
    fpl = with_underscores(rng, list(fp)) if fp else []
    sp = {"fam": "float", "neg": rng.random() < 0.3, "ip": with_underscores(rng, list(ip)), "dot": dot, "fp": fpl,
          "ex": ex, "es": es, "ed": ed, "suf": suf, "ctx": ctx}
    if dot and not fp:
        return sp
    return with_context(rng, sp)


def rand_cp(rng, fam):
    while True:
        lo, hi = rng.choice([(0x20, 0x7e), (0x20, 0x7e), (0xa1, 0xff), (0x370, 0x4ff), (0x300, 0x36f), (0x4e00, 0x9fff),
                             (0x3040, 0x30ff), (0x1f600, 0x1f64f), (0x1d400, 0x1d7ff), (0x2000, 0x2bff), (0xe000, 0xf8ff),
                             (0x10000, 0x1ffff), (0xe0100, 0xe01ef), (0x100000, 0x10ffff)])
        cp = rng.randrange(lo, hi + 1)
        ch = chr(cp)
        if 0xd800 <= cp <= 0xdfff or (ch.isspace() and cp != 32) or cp in (0x85, 0xad):
            continue
        if fam == "str" and cp in (34, 92):
            continue
        if fam == "fstr" and cp in (34, 92, 123, 125):
            continue
        if fam == "char" and cp in (39, 92):
            continue
        return cp


def gen_item(rng, fam):
    r = rng.random()
    if r < 0.45:
        cp = rand_cp(rng, fam) if rng.random() < 0.85 else (9 if fam != "char" else 97)
        return {"k": "c", "cp": cp, "w": len(chr(cp).encode("utf-8"))}
    if r < 0.6:
        return {"k": "e", "s": rng.choice(list(ESC))}
    if r < 0.68:
        v = rng.randrange(0, 0x80)
        h = "%02x" % v
        return {"k": "x", "hi": rng.choice([h[0], h[0].upper()]), "lo": rng.choice([h[1], h[1].upper()])}
    if r < 0.8:
        cp = rand_cp(rng, "any") if rng.random() < 0.85 else rng.choice([0xd800, 0xdbff, 0xdfff, 0x110000, 0xffffff, 0x7b, 0x7d, 0])
        h = ("%x" if rng.random() < 0.5 else "%X") % cp
        h = "0" * rng.randrange(0, 7 - len(h)) + h if len(h) < 6 and rng.random() < 0.3 else h
        return {"k": "u", "ds": list(h)}
    if fam != "char" and r < 0.87:
        return {"k": "cont", "ws": [rng.choice([32, 32, 9, 10]) for _ in range(rng.randrange(0, 6))]}
    if fam == "fstr":
        if r < 0.91:
            return {"k": "lb"}
        if r < 0.94:
            return {"k": "rb"}
        return {"k": "i", "e": rng.choice(list(INTERP_TEXT))}
    cp = rand_cp(rng, fam)
    return {"k": "c", "cp": cp, "w": len(chr(cp).encode("utf-8"))}


def gen_text(rng, fam):
    n = rng.choice([0, 1, 2]) if fam == "char" and rng.random() < 0.3 else (1 if fam == "char" else rng.randrange(0, 14))
    return {"fam": fam, "items": [gen_item(rng, fam) for _ in range(n)]}


BIG_REPS = dict(CLS_REPS)
BIG_REPS = {k: list(v) for k, v in BIG_REPS.items()}
BIG_REPS["S2"] += ["ñ", "ā", "א", "ա"]
BIG_REPS["S3"] += ["中", "가", "ẞ", "क"]
BIG_REPS["S4"] += ["\U0001d504", "\U00010348", "\U0002a6d6"]
BIG_REPS["C2"] += ["̈", "٠", "ּ"]
BIG_REPS["C3"] += ["็", "ा", "⁀"]
BIG_REPS["C4"] += ["\U0001d7ff", "\U000e01ef"]
BIG_REPS["N2"] += ["±", "×", "¿"]
BIG_REPS["N3"] += ["…", "—", "”", "✓"]
BIG_REPS["N4"] += ["\U0001f680", "\U0001f4a9"]


def gen_ident(rng):
    n = rng.randrange(1, 9)
    if rng.random() < 0.6:
        cls = [rng.choice(["L", "U", "S2", "S3", "S4", "L"])] + [rng.choice(["L", "D", "U", "S2", "S3", "S4", "C2", "C3", "C4", "L", "D"]) for _ in range(n - 1)]
    else:
        cls = [rng.choice(list(CLS_REPS)) for _ in range(n)]
    text = "".join(rng.choice(BIG_REPS[c]) for c in cls)
    return {"fam": "ident", "cls": cls}, text


def gen_ip4(rng):
    return {"fam": "ip4", "o": [list(str(rng.choice([0, 1, 9, 10, 99, 100, 127, 199, 200, 249, 250, 255, 255, 256, 260, 999, rng.randrange(256)])))
                                for _ in range(4)]}


def gen_group(rng):
    v = rng.getrandbits(rng.choice([1, 4, 8, 12, 16]))
    h = ("%x" if rng.random() < 0.5 else "%X") % v
    if len(h) < 4 and rng.random() < 0.3:
        h = "0" * rng.randrange(1, 5 - len(h)) + h
    return list(h)


def gen_ip6(rng):
    if rng.random() < 0.25:
        return {"fam": "ip6", "pre": [gen_group(rng) for _ in range(8)], "comp": False, "post": []}
    total = rng.randrange(0, 8)
    p = rng.randrange(0, total + 1)
    return {"fam": "ip6", "pre": [gen_group(rng) for _ in range(p)], "comp": True, "post": [gen_group(rng) for _ in range(total - p)]}


def gen_pfx(rng):
    if rng.random() < 0.5:
        bits, n = 32, 4
    else:
        bits, n = 128, 16
    ln = rng.randrange(0, bits + 1)
    v = rng.getrandbits(bits)
    if rng.random() < 0.85:
        v = (v >> (bits - ln)) << (bits - ln) if ln else 0
    by = v.to_bytes(n, "big")
    if n == 4:
        ip = {"fam": "ip4", "o": [list(str(b)) for b in by]}
    else:
        gs = [list("%x" % (by[2 * i] * 256 + by[2 * i + 1])) for i in range(8)]
        # compress the trailing run of zero groups when there is one
        k = 8
        while k > 0 and gs[k - 1] == ["0"]:
            k -= 1
        ip = {"fam": "ip6", "pre": gs[:k], "comp": True, "post": []} if k < 8 else {"fam": "ip6", "pre": gs, "comp": False, "post": []}
    return {"fam": "pfx", "ip": ip, "len": list(str(ln))}


def gen_asn(rng):
    n = rng.choice([0, 1, 65535, 65536, 4294967295, 4294967296, 4294967297, rng.getrandbits(16), rng.getrandbits(32), rng.getrandbits(34)])
    ds = list(str(n))
    if rng.random() < 0.15:
        ds = ["0"] + ds
    return {"fam": "asn", "ds": ds}


def gen_trivia(rng):
    forms = [k for k in COMMENT]
    return {"fam": "trivia", "sheb": rng.choice(["", "", "path", "args", "utf8", "crlf"]),
            "gaps": [rng.choice(forms) if rng.random() < 0.5 else "" for _ in range(10)], "val": list(str(rng.randrange(0, 1000)))}


def gen_prog(rng):
    """a random program as a piece sequence: items, comments (also around and in front of items), white space,
    a shebang, any ending; what it means is decided by TLC (Literals.DenoteProg)."""
    def t(x):
        return {"k": "t", "t": x}

    def ws(line_ok=True):
        return {"k": "ws", "w": rng.choice(["sp", "sp", "tab", "nl", "crlf"] if line_ok else ["sp", "sp", "tab"])}

    def com():
        return {"k": "com", "body": rng.choice(list(COM_BODY))}

    def item(nm, one_line):
        toks = [t("fn"), t(nm), t("("), t(")"), t("->"), t("i32"), t("{"), {"k": "d", "ds": list(str(rng.randrange(0, 1000)))}, t("}")]
        out = []
        for k, tok in enumerate(toks):
            out.append(tok)
            if k + 1 < len(toks):
                r = rng.random()
                if r < 0.6 or k in (0, 4, 5) and r < 0.97:
                    out.append(ws(not one_line))
                    while rng.random() < 0.15:
                        out.append(ws(not one_line))
                if not one_line and rng.random() < 0.12:
                    out += [com(), {"k": "ws", "w": rng.choice(["nl", "crlf"])}]
        return out

    ps = []
    if rng.random() < 0.3:
        ps.append({"k": "sheb", "body": rng.choice(list(SHEB_BODY))})
        if rng.random() < 0.85:
            ps.append({"k": "ws", "w": rng.choice(["nl", "crlf"])})
    names = PROBES + [rng.choice(PROBES)]
    rng.shuffle(names)
    for nm in names[:rng.choice([0, 1, 1, 2, 2, 3, 4])]:
        while rng.random() < 0.3:
            ps.append(ws())
        if rng.random() < 0.3:
            ps += [com()] + ([ws(False)] if rng.random() < 0.8 else []) + item(nm, True)
            if rng.random() < 0.9:
                ps.append({"k": "ws", "w": rng.choice(["nl", "crlf"])})
        else:
            ps += item(nm, False)
            if rng.random() < 0.5:
                ps.append(ws())
    while rng.random() < 0.4:
        ps.append(rng.choice([ws(), com(), ws(), {"k": "sheb", "body": "path"} if rng.random() < 0.1 else com()]))
    if rng.random() < 0.5:
        ps.append({"k": "ws", "w": rng.choice(["nl", "nl", "crlf"])})
    return {"fam": "prog", "ps": ps}


def gen_tree(rng, ty, budget):
    """random typed tree over int / bool operands; returns nested tuples."""
    if budget <= 0 or rng.random() < 0.12:
        return ("leaf", ty)
    if ty == "int":
        r = rng.random()
        if r < 0.15:
            return ("un", "neg", gen_tree(rng, "int", budget - 1))
        op = rng.choice(["add", "sub", "mul", "div", "mod"])
        return ("bin", op, gen_tree(rng, "int", budget // 2), gen_tree(rng, "int", budget - 1 - budget // 2))
    r = rng.random()
    if r < 0.12:
        return ("un", "not", gen_tree(rng, "bool", budget - 1))
    if r < 0.5:
        op = rng.choice(["lt", "le", "gt", "ge", "eq", "ne"])
        return ("bin", op, gen_tree(rng, "int", budget // 2), gen_tree(rng, "int", budget - 1 - budget // 2))
    if r < 0.6:
        op = rng.choice(["eq", "ne"])
        return ("bin", op, gen_tree(rng, "bool", budget // 2), gen_tree(rng, "bool", budget - 1 - budget // 2))
    op = rng.choice(["and", "or"])
    return ("bin", op, gen_tree(rng, "bool", budget // 2), gen_tree(rng, "bool", budget - 1 - budget // 2))


def flatten(t, w, lt):
    if t[0] == "leaf":
        lt.append(t[1])
    elif t[0] == "un":
        w.append(t[1])
        flatten(t[2], w, lt)
    else:
        flatten(t[2], w, lt)
        w.append(t[1])
        flatten(t[3], w, lt)


def gen_expr(rng):
    while True:
        w, lt = [], []
        if rng.random() < 0.75:
            flatten(gen_tree(rng, rng.choice(["int", "bool"]), rng.randrange(4, 11)), w, lt)
        else:
            for _ in range(rng.randrange(4, 9)):
                while rng.random() < 0.2:
                    w.append(rng.choice(UNOPS))
                w.append(rng.choice(BINOPS))
            lt = [rng.choice(["int", "bool"]) for _ in range(sum(1 for s in w if s in LEVEL) + 1)]
        if 2 <= len(lt) <= 10 and len(w) >= 3:
            break
    vals = [rng.choice([1, 2, 3, 4, 5]) * rng.choice([1, -1]) for _ in lt]
    return w, lt, vals


def gen_px(rng):
    floaty = ["abs", "ceil", "floor", "round", "pow2", "abs", "floor", "ceil", "pow2", "sqrt"]
    atom = rng.choice(list(ATOM_TEXT))
    post = []
    if atom == "var_r" and rng.random() < 0.8:
        post.append(rng.choice(["field_x", "field_x", "field_b", "field_n"]))
    if atom == "var_o" and rng.random() < 0.8:
        post.append("try")
    for _ in range(rng.choice([0, 1, 1, 2, 2, 3, 4])):
        post.append(rng.choice(floaty) if rng.random() < 0.8 else rng.choice(list(SUF_TEXT)))
    pre = [rng.choice(["neg", "neg", "neg", "not"]) for _ in range(rng.choice([0, 1, 1, 1, 2, 2, 3, 4]))]
    return {"pre": pre, "atom": atom, "post": post[:5], "ctx": rng.choice(["none", "none", "sub_r", "mul_r", "sub_l", "add_r", "lt_r", "and_r"])}


def gen_block(rng):
    return {"pos": rng.choice(["let", "arg", "operand", "arm", "ifcond", "tail", "ret", "listel", "assign", "fstr_interp"]),
            "kind": rng.choice(list(BLOCK_INNER) + ["fstr", "fstr_interp_first", "fstr_multibyte"]), "wrap": rng.choice([0, 1, 2, 3, 4, 6, 8])}


def record_events(tier, rng):
    """-> list of (event-without-obs, harness case, family, type, text)"""
    q = tier == "quick"
    n = {"int": 500, "float": 500, "str": 400, "fstr": 500, "char": 200, "ident": 400, "ip4": 100, "ip6": 250,
         "pfx": 200, "asn": 60, "trivia": 60, "prog": 300, "expr": 900}
    if not q:
        n = {k: v * 6 for k, v in n.items()}
    out = []
    for fam, count in n.items():
        for _ in range(count):
            if fam == "expr":
                w, lt, vals = gen_expr(rng)
                flat = []
                j = 0
                for s in w:
                    if s in LEVEL:
                        flat += ["$%d" % j, s]
                        j += 1
                    else:
                        flat.append(s)
                flat.append("$%d" % j)
                text = expr_text(flat, lt)
                rty = rng.choice(["i64", "bool"])
                hc = expr_script(text, lt, rty, [vals])
                ev = {"fam": "expr", "w": w, "lt": lt, "vals": [{"neg": v < 0, "abs": abs(v)} for v in vals], "rty": rty}
                out.append((ev, hc, fam, rty, text))
                continue
            if fam == "ident":
                sp, text = gen_ident(rng)
                ty = "i32"
            else:
                sp = {"int": gen_int, "float": gen_float, "ip4": gen_ip4, "ip6": gen_ip6, "pfx": gen_pfx, "asn": gen_asn,
                      "trivia": gen_trivia, "prog": gen_prog}[fam](rng) if fam not in ("str", "fstr", "char") else gen_text(rng, fam)
                text, ty = render(sp)
            out.append(({"fam": sp["fam"], "sp": sp}, harness_case(sp, text, ty, False), sp["fam"], ty, text))
    rng.shuffle(out)
    return out


def impl_to_spec(tier, ev, verd):
    rng = random.Random(vlib.seed() * 13 + 9)
    recs = record_events(tier, rng)
    results = vlib.run_batch("c09", [r[1] for r in recs], nproc=8, pid=PID, tag="rec", stall=30)
    events, origin = [], []
    for (e, hc, fam, ty, text), res in zip(recs, results):
        oc = vlib.outcome_of(res)
        if oc != "returned":
            # panic / crash / hang: logged as an event no specification allows (TraceGrammar.LitOk)
            e2 = {k: v for k, v in e.items() if k != "rty"}
            e2["obs"] = {"cls": "abnormal"}
            events.append(e2)
            origin.append((text, ty, res))
            ev.impl_actions.add(fam)
            continue
        r = res["r"]
        if fam == "expr":
            if r["compile"] == "err":
                cls = "reject" if r["kinds"] == ["parse"] else "typeerr" if r["kinds"] == ["type"] else "other:" + ",".join(r["kinds"])
                obs = {"cls": cls}
            else:
                obs = {"cls": "val", "v": result_of(r["vals"][0])}
            # the return type of the probing function was chosen blindly: a mismatch with the type of the
            # expression is a type error of the *function*, which says nothing about the expression
            e2 = {k: v for k, v in e.items() if k != "rty"}
            e2["obs"] = obs
            e2["rty"] = e["rty"]
        else:
            obs, _ = observe(fam, ty, res)
            obs = {"cls": obs["cls"]} if obs["cls"] == "reject" else obs
            e2 = dict(e, obs=obs)
        events.append(e2)
        origin.append((text, ty, res))
        ev.impl_actions.add(fam)
    # prefix x postfix and block events (their probing functions are typed by trying the candidate typings)
    npx, nblk = (700, 300) if tier == "quick" else (4200, 1800)
    pxs = [gen_px(rng) for _ in range(npx)]
    for paren in (False,):
        got = observe_untyped(pxs, lambda px, cand: px_script(px, paren, cand[0] or "f64", cand[1]), px_candidates)
        for px, (o, res, cand) in zip(pxs, got):
            events.append({"fam": "postfix", "px": px, "obs": strip_msg(o)})
            origin.append((px_text(px, paren, cand[0] or "f64"), cand[1], res))
            ev.impl_actions.add("postfix")
    bxs = [gen_block(rng) for _ in range(nblk)]
    scripts = [block_script(bx) for bx in bxs]
    for bx, (hc, rty, body), (o, res) in zip(bxs, scripts, observe2([(sc[0], sc[1]) for sc in scripts])):
        events.append({"fam": "block", "bx": bx, "obs": strip_msg(o)})
        origin.append((body, rty, res))
        ev.impl_actions.add("block")
    # expressions: resolve the blind return type (second compile with the other type when the first was a type error)
    retry = [(k, e) for k, e in enumerate(events) if e["fam"] == "expr" and e["obs"].get("cls") == "typeerr"]
    if retry:
        cases = []
        for k, e in retry:
            other = "bool" if e["rty"] == "i64" else "i64"
            vals = [(-v["abs"] if v["neg"] else v["abs"]) for v in e["vals"]]
            cases.append(expr_script(origin[k][0], e["lt"], other, [vals]))
        res2 = vlib.run_batch("c09", cases, nproc=8, pid=PID, tag="rec2", stall=30)
        for (k, e), res in zip(retry, res2):
            if vlib.outcome_of(res) == "returned" and res["r"]["compile"] == "ok":
                e["obs"] = {"cls": "val", "v": result_of(res["r"]["vals"][0])}
    for e in events:
        e.pop("rty", None)
    d = vlib.workdir(PID, "trace")
    path = os.path.join(d, "trace.ndjson")
    vlib.write_ndjson(path, events)
    r = vlib.validate_trace("TraceGrammar", "TraceGrammar.cfg", path, timeout=1500, heap="6g")
    ev.add_tlc(r)
    if not (r.ok or r.postcondition_failed) or (r.postcondition_failed and not r.replay):
        raise vlib.ToolError("trace validation failed to run: %s\n%s" % (r.error, r.stdout[-2000:]))
    for un in r.replay:
        k = un["line"] - 1
        e, exp = events[k], un["expected"]
        fam = e["fam"]
        res = origin[k][2]
        rep = {"kind": "trace", "event": e, "expected": exp, "text": origin[k][0], "type": origin[k][1], "result": res}
        abnormal = vlib.outcome_of(res).split(":")[0] if e["obs"].get("cls") == "abnormal" else None
        if fam == "postfix":
            sig = {"family": "prefix-postfix", "form": "flat", "failure": "abnormal" if e["obs"]["t"] == "abnormal" else "grouping",
                   "atom": ATOM_CLASS[e["px"]["atom"]]}
        elif fam == "block":
            o = e["obs"]
            sig = {"family": "block", "failure": "abnormal" if o["t"] == "abnormal" else "rejected-should-accept" if o["t"].endswith("err") else "wrong-value",
                   "first_token": e["bx"]["kind"], "position": e["bx"]["pos"]}
        elif fam == "expr":
            sig = {"family": "operators", "form": "flat",
                   "failure": abnormal or ("accepted-should-reject" if exp["cls"] == "reject" else
                                           "rejected-should-accept" if e["obs"]["cls"] == "reject" else "grouping")}
        else:
            sig = signature(e["sp"], exp, abnormal or judge(exp, e["obs"]) or "trace-rejected", res if abnormal else None,
                            obs=e["obs"], dev=un.get("dev"))
        verd.report(sig, "recorded observation is not allowed by the specification: `%s` (%s): roto %s, specification %s" %
                    (origin[k][0], origin[k][1], json.dumps(res)[:300] if abnormal else json.dumps(e["obs"])[:300], json.dumps(exp)[:300]), rep)
    accepted = len(events) - len(r.replay)
    for tag, txt in r.prints:
        if tag == "STATS":
            ev.extra["recorded_events_without_claim"] = json.loads(json.loads('"' + txt + '"'))["unclaimed"]
    ev.traces += accepted
    ev.extra["recorded_events"] = len(events)
    ev.extra["recorded_events_accepted"] = accepted
    # negative control: a corrupted observation must be rejected at exactly that line
    unmatched = set(un["line"] - 1 for un in r.replay)
    ctrl = [dict(e) for k, e in enumerate(events) if k not in unmatched][:400]
    pos = next((k for k, e in enumerate(ctrl) if e["fam"] in ("str", "fstr") and e["obs"].get("cls") == "val" and e["obs"]["v"]), None)
    if pos is not None:
        ctrl[pos] = dict(ctrl[pos], obs={"cls": "val", "v": ctrl[pos]["obs"]["v"][:-1] + [ctrl[pos]["obs"]["v"][-1] + 1]})
        cpath = os.path.join(d, "trace_corrupted.ndjson")
        vlib.write_ndjson(cpath, ctrl)
        rc = vlib.validate_trace("TraceGrammar", "TraceGrammar.cfg", cpath, timeout=600)
        ev.add_tlc(rc)
        if rc.ok or [u["line"] for u in rc.replay] != [pos + 1]:
            raise vlib.ToolError("negative control failed: a corrupted trace (line %d) was not rejected there" % (pos + 1))
        ev.extra["negative_control"] = "corrupted event at line %d rejected" % (pos + 1)
    return accepted


# ------------------------------------------------------------------ entry points

def run(tier):
    ev = Evidence(PID, tier)
    verd = Verdicts(PID)
    check_rep_table()
    vlib.build_harness(["c09"])
    ev.rule = ("cases = spellings / operator strings emitted by TLC with their denotation (Literals.Denote, Prec.Parse), each "
               "rendered to text, compiled and called by the real crate; distinct = distinct (family, text, type) resp. "
               "(form, operator string); non-trivial = the specification claims something about the spelling (a value or a "
               "rejection; spellings about which the manual is silent are not counted)")
    lits, exh = generate_literals(tier, ev)
    lstats = {}
    nneed = literal_coverage(lits, lstats)
    ops, valsets, exh_ops = generate_ops(tier, ev)
    npairs = ops_coverage(ops)
    pxs, blks = generate_px(tier, ev)
    ndisc = px_coverage(pxs)
    block_coverage(blks)
    nlit = run_literals(tier, ev, verd, lits)
    npx = run_px(tier, ev, verd, pxs)
    nblk = run_blocks(tier, ev, verd, blks)
    nops, ndiff = run_ops(tier, ev, verd, ops, valsets)
    tot, sep = adequacy(ops, valsets)
    impl_to_spec(tier, ev, verd)
    ev.exhaustive = True
    ev.extra["exhaustive_parts"] = exh + [exh_ops, "prefix x atom x suffix x context: %d cases" % len(pxs),
                                          "block position x first token x nesting: %d cases" % len(blks)]
    ev.extra["literal_cases_run"] = nlit
    ev.extra["unclaimed_spellings_skipped"] = sum(1 for c in lits if c["den"]["cls"] == "any")
    ev.extra["operator_forms_run"] = nops
    ev.extra["prefix_postfix_forms_run"] = npx
    ev.extra["prefix_postfix_cases_where_the_two_readings_differ"] = ndisc
    ev.extra["block_position_cases_run"] = nblk
    ev.extra["flat_vs_parenthesised_comparisons"] = ndiff
    ev.extra["coverage_items_required_and_seen"] = nneed
    ev.extra.update(lstats)
    ev.extra["adjacent_binary_operator_pairs_seen"] = npairs
    ev.extra["other_bracketings_of_typable_strings"] = tot
    ev.extra["other_bracketings_told_apart_by_value_sets"] = sep
    ev.assumptions = [
        "floats: only spellings whose value is m*2^k with odd m < 2^24 are claimed (exact in f32 and f64); 0.1 etc. are not",
        "identifier classes are checked on a few representatives per class (ASCII, width 2/3/4 XID_Start, XID_Continue-only, neither), "
        "not on the full Unicode tables",
        "operand values: 4 fixed sets of distinct primes with mixed signs; bracketings that are semantically equal "
        "(e.g. !a == b) cannot be told apart by values",
        "not claimed (manual silent): hex with underscores/suffix, \\x80..\\xff, lone } in f-strings, prefixes with host bits or "
        "too long, IPv4-mapped IPv6, CRLF inside strings, non-ASCII white space after a line continuation, integer "
        "literals above i64::MAX (accepted or rejected, value checked when accepted)",
        "exhaustive up to the stated bounds; longer spellings / operator strings are seeded walks and seeded random recordings",
    ]
    # samples: one actual case of several families instead of the first five integers
    picks = []
    for fam, pred in (("int", lambda c: "_" in c["sp"]["ds"] and c["sp"]["suf"] and len(c["sp"]["ds"]) > 3),
                      ("float", lambda c: c["sp"]["ex"] and c["sp"]["dot"] and c["den"]["cls"] == "val"),
                      ("fstr", lambda c: len(c["sp"]["items"]) >= 4 and c["den"]["cls"] == "val"),
                      ("ip6", lambda c: c["den"]["cls"] == "val" and c["sp"]["pre"] and c["sp"]["post"]),
                      ("ident", lambda c: len(c["sp"]["cls"]) >= 3 and c["den"]["cls"] == "val" and "S3" in c["sp"]["cls"])):
        for c in lits:
            if c["sp"]["fam"] == fam and c["den"]["cls"] != "any" and pred(c):
                picks.append({"family": fam, "text": render(c["sp"])[0], "spelling": c["sp"], "expect": c["den"]})
                break
    for c in ops:
        if c["parse"] == "tree" and c["ty"] == "bool" and c["n"] >= 4:
            picks.append({"operators": c["w"], "text": expr_text(c["flat"], c["lt"]), "grouping": expr_text(c["paren"], c["lt"]),
                          "values": c["vals"]})
            break
    for c in ops:
        if c["parse"] == "reject" and c["n"] >= 4:
            picks.append({"operators": c["w"], "text": expr_text(c["flat"], ["int"] * c["n"]), "expect": "parse error"})
            break
    if len(picks) >= 3:
        ev.samples = picks
    rc = verd.finish()
    ev.write(len(verd.violations))
    return rc


def replay(path):
    obj = json.load(open(path))["replay"]
    vlib.build_harness(["c09"])
    verd = Verdicts(PID)
    ev = Evidence(PID, "quick")
    kind = obj.get("kind")
    if kind == "literal":
        run_literals("thorough", ev, verd, [obj["case"]], tag="replay")
    elif kind in ("operators", "operators-diff"):
        d = vlib.workdir(PID, "cfg")
        cfg = os.path.join(d, "prec_replay.cfg")
        prec_cfg(cfg, 0, 0)
        r = run_tlc("MCPrec", cfg, workers=1, coverage=False)
        vs = [c for c in r.replay if "vs" in c][0]["vs"]
        valsets = [[(-x["abs"] if x["neg"] else x["abs"]) for x in s] for s in vs]
        case = obj.get("case")
        if case is None:
            raise vlib.ToolError("replay of a differential report needs the operator case; re-run the check")
        run_ops("thorough", ev, verd, [case], valsets, tag="replay")
    elif kind == "px":
        run_px("thorough", ev, verd, [obj["case"]], tag="replay")
    elif kind == "block":
        run_blocks("thorough", ev, verd, [obj["case"]], tag="replay")
    elif kind in ("trace", "recorded") and obj["event"]["fam"] in ("postfix", "block"):
        e = obj["event"]
        if e["fam"] == "postfix":
            o = observe_untyped([e["px"]], lambda px, cand: px_script(px, False, cand[0] or "f64", cand[1]), px_candidates)[0][0]
        else:
            hc, rty, body = block_script(e["bx"])
            o = observe2([(hc, rty)])[0][0]
        e = dict(e, obs=strip_msg(o))
        pth = os.path.join(vlib.workdir(PID, "trace"), "replay.ndjson")
        vlib.write_ndjson(pth, [e])
        r = vlib.validate_trace("TraceGrammar", "TraceGrammar.cfg", pth)
        if not (r.ok or r.postcondition_failed):
            raise vlib.ToolError("trace validation failed to run: %s" % r.error)
        if not r.ok:
            verd.report({"family": e["fam"], "failure": "trace-rejected"},
                        "`%s`: observation %s is not allowed by the specification (expected %s)" %
                        (obj.get("text"), json.dumps(o)[:300], json.dumps(r.replay[0]["expected"])[:300] if r.replay else "?"), obj)
    elif kind in ("trace", "recorded"):
        # re-execute the recorded spelling on the real crate, then let TLC judge the fresh observation
        e = dict(obj["event"])
        text, ty = obj.get("text"), obj.get("type")
        fam = e["fam"]
        if fam == "expr":
            vals = [(-v["abs"] if v["neg"] else v["abs"]) for v in e["vals"]]
            obs = {"cls": "typeerr"}
            for rty in ("i64", "bool"):
                res = vlib.run_batch("c09", [expr_script(text, e["lt"], rty, [vals])], nproc=1, pid=PID, tag="replay")[0]
                if vlib.outcome_of(res) != "returned":
                    obs = {"cls": "abnormal"}
                    break
                r = res["r"]
                if r["compile"] == "ok":
                    obs = {"cls": "val", "v": result_of(r["vals"][0])}
                    break
                if r["kinds"] == ["parse"]:
                    obs = {"cls": "reject"}
                    break
        else:
            res = vlib.run_batch("c09", [harness_case(e["sp"], text, ty, False)], nproc=1, pid=PID, tag="replay")[0]
            o, abnormal = observe(fam, ty, res)
            obs = {"cls": "abnormal"} if abnormal else ({"cls": "reject"} if o["cls"] == "reject" else o)
        e["obs"] = obs
        d = vlib.workdir(PID, "trace")
        p = os.path.join(d, "replay.ndjson")
        vlib.write_ndjson(p, [e])
        r = vlib.validate_trace("TraceGrammar", "TraceGrammar.cfg", p)
        if not (r.ok or r.postcondition_failed):
            raise vlib.ToolError("trace validation failed to run: %s" % r.error)
        if not r.ok:
            verd.report({"family": fam, "failure": "trace-rejected"},
                        "`%s`: observation %s is not allowed by the specification (expected %s)" %
                        (text, json.dumps(obs)[:300], json.dumps(r.replay[0]["expected"])[:300] if r.replay else "?"), obj)
    return verd.finish()
