"""C02 - aggregates are values, lists are shared; components are addressed exactly.

Spec: spec/RotoSem.tla: the environment maps names to VALUES (records, enums, options, strings), so a
copy is independent by construction, while lists are references into a heap shared by all copies
(a for loop re-reads the list each iteration); == / != are structural.
Seeded random programs declare random record / enum types (fields of every scalar width, strings,
options, lists, nested types), copy values, mutate the original or the copy (whole value, nested field,
list push), and then observe EVERY leaf of both through logging host calls; match with bindings,
guards and `_`, `?`, and pushes to a list from inside the for loop iterating over it are generated.
TLC (TraceSem.tla) accepts a recorded execution iff result and observation log equal RotoSem.Eval.
"""
import semlib

PID = "C02"
AGG = ["ints", "bool", "str", "char", "rec", "enum", "opt", "list", "loops", "calls", "ret", "copymut", "float", "generic", "hostopt", "shadow", "gconst", "kconst", "mods", "exprstmt", "hmeth", "anonrec"]


def run(tier):
    fam = [("aggregates", AGG, 3, 700, 6000, 2), ("shapes", ["ints", "bool", "str", "rec", "enum", "opt", "list", "copymut", "generic", "calls", "exprstmt", "anonrec"], 2, 500, 4000, 1)]
    return semlib.run_sem_check(
        PID, tier, fam,
        extra_cases=[("match", semlib.match_cases()), ("eq", semlib.eq_cases()), ("aggcopy", semlib.aggcopy_cases()),
                     ("flist", semlib.flist_cases()), ("anonflow", semlib.anonflow_cases())],
        rule=("cases = recorded native executions of seeded random programs over random record/enum declarations with "
              "copy / mutate / observe-all-leaves statements; distinct = distinct (source, inputs); non-trivial = source "
              "longer than one statement"),
        assumptions=["type shapes are bounded (<= 4 fields, <= 3 variants, nesting <= 2)",
                     "host-registered aggregate types are covered by C05/C15, not here"],
        required_kinds=["rec", "field", "set", "ctor", "match", "try", "list", "lcall:push", "lcall:get", "lcall:len", "for",
                        "bin:eq"])


def replay(path):
    return run("quick")
